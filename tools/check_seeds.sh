#!/bin/bash
# every stored seeded change must apply to the current /repo HEAD
cd /repo; rc=0
for d in /verif/seeded/*/; do
  if git apply --check "$d/patch.diff" 2>/dev/null; then echo "ok   $(basename $d)"; else echo "FAIL $(basename $d)"; rc=1; fi
done; exit $rc
