#!/bin/bash
# every stored seeded change must apply to the current /repo HEAD AND leave the touched Python files compilable
# (a patch that "applies" after a fuzzy port but no longer compiles would make every unit crash instead of being judged)
W=$(mktemp -d /tmp/seedchk_XXXXXX); rsync -a --exclude .git --exclude '*.pickle' /repo/ $W/; cd $W; git init -q . >/dev/null 2>&1; git add -A >/dev/null 2>&1; git -c user.email=x@x -c user.name=x commit -qm base >/dev/null 2>&1
rc=0
for d in /verif/seeded/*/; do
  n=$(basename $d)
  if git apply "$d/patch.diff" 2>/dev/null; then
    bad=""
    for f in $(git diff --name-only | grep '\.py$'); do /venv/bin/python -m py_compile "$f" 2>/dev/null || bad="$bad $f"; done
    if [ -n "$bad" ]; then echo "FAIL $n (does not compile:$bad)"; rc=1; else echo "ok   $n"; fi
    git checkout -q -- . ; git clean -fdq
  else echo "FAIL $n (does not apply)"; rc=1; fi
done
# the behaviour-preserving edits (negative tests) must apply to HEAD as well - a diff that does not apply tests nothing
for f in /verif/harmless/*.diff; do
  if git apply --check "$f" 2>/dev/null; then echo "ok   harmless/$(basename $f)"; else echo "FAIL harmless/$(basename $f) (does not apply)"; rc=1; fi
done
cd /; rm -rf $W; exit $rc
