#!/bin/bash
# negative tests: behaviour-preserving edits (harmless/README.md); every listed check must exit 0 with the edit applied
cd /verif; SCR=$(mktemp -d /tmp/harmless_XXXXXX); trap "rm -rf $SCR" EXIT
run() { # dir N props
  echo "### harmless/${1}_$2.diff -> $3"
  PYVC_REPLAY_DIR=$SCR timeout 5400 tools/try_mutant.py $3 --patch /verif/harmless/${1}_$2.diff 2>&1 | grep -E "^==|VIOLATION|UNDECIDED|CHECKER|error:|CalledProcessError" | cut -c1-260
}
run h1 1 C11,C13
run h1 2 C11,C13,C01,C02
run h1 3 C13
run h1 4 C13
run h1 5 C13
run h1 6 C13,C04,C05
run h2 1 C03,C06,C04
run h2 2 C05,C11,C16,C14
run h2 3 C06,C03
run h2 4 C11
run h2 5 C11
run h2 6 C11
run h3 1 C01,C02,C13
run h3 2 C07,C08
run h3 3 C03,C07,C18
run h3 4 C15
run h3 5 C09
run h3 6 C10
run h4 1 C03,C06,C14
run h4 2 C04
run h4 3 C06,C03
run h4 4 C03
run h4 5 C16,C05
run h4 6 C05,C16,C14
run h6 1 C20
run h6 2 C20
run h6 3 C15
run h6 4 C09,C11
run h6 5 C10
run h6 6 C13,C05,C04
run h5 1 C08,C01,C18
run h5 2 C01,C15
run h5 3 C03,C18,C07
run h5 4 C08
run h5 5 C01,C15
run h5 6 C15,C07,C08
run h7 1 C11,C01,C02
run h7 2 C06,C03
run h7 3 C06
run h7 4 C03,C06
