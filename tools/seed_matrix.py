#!/usr/bin/env python3
"""For every seeded change under /verif/seeded: apply it to a scratch copy of /repo, run the check of the property it was
written for (plus checks named in EXTRA), record which checks report a violation.  Writes /verif/seeded/MATRIX.json and .md"""
import json, os, re, subprocess, sys
V = "/verif"
EXTRA = {"C01-B": ["C08", "C18"], "C05-A": ["C16"], "C14-A": ["C16"], "C06-B": ["C03"], "C11-B": ["C09"], "C15-A": ["C13"], "C09-A": ["C11"]}
only = sys.argv[1:]
rows = {}
mpath = os.path.join(V, "seeded", "MATRIX.json")
if os.path.exists(mpath):
    rows = json.load(open(mpath))
import concurrent.futures, threading
lock = threading.Lock()
jobs = int(os.environ.get("SEED_JOBS", "2"))


def one(d):
    p = os.path.join(V, "seeded", d, "patch.diff")
    prop = d.split("-")[0]
    props = [prop] + EXTRA.get(d, []) + EXTRA.get(d.rstrip("2"), [])
    props = list(dict.fromkeys(props))
    r = subprocess.run([os.path.join(V, "tools", "try_mutant.py"), ",".join(props), "--patch", p], capture_output=True, text=True)
    out = r.stdout
    res = {}
    for blk in out.split("== ")[1:]:
        pid = blk.split(":")[0]
        m = re.search(r"exit=(\d)", blk)
        viol = [l.strip() for l in blk.split("\n") if l.strip().startswith("VIOLATION")]
        obl = sorted({re.search(r"obligation=(\S+)", v).group(1).rsplit("#", 1)[0] for v in viol if re.search(r"obligation=(\S+)", v)})
        replayed = sum(1 for v in viol if not v.endswith("no-failing-input-found"))
        res[pid] = dict(exit=int(m.group(1)) if m else None, violations=len(viol), replayed_on_real_code=replayed, obligations=obl[:4])
    with lock:
        rows[d] = res
        print(d, {k: (v["exit"], v["violations"], v["replayed_on_real_code"]) for k, v in res.items()}, flush=True)
        json.dump(rows, open(mpath, "w"), indent=1)


todo = [d for d in sorted(os.listdir(os.path.join(V, "seeded"))) if os.path.exists(os.path.join(V, "seeded", d, "patch.diff")) and (not only or d in only)]
with concurrent.futures.ThreadPoolExecutor(jobs) as ex:
    list(ex.map(one, todo))
with open(os.path.join(V, "seeded", "MATRIX.md"), "w") as f:
    f.write("| seeded change | written for | caught by (exit 1) | failing obligations (first) | with replayed input |\n|---|---|---|---|---|\n")
    for d, res in sorted(rows.items()):
        caught = [k for k, v in res.items() if v["exit"] == 1]
        obl = "; ".join(o for k in caught for o in res[k]["obligations"][:2])
        rep = ", ".join(k for k in caught if res[k]["replayed_on_real_code"])
        f.write(f"| {d} | {d.split('-')[0]} | {', '.join(caught) or 'MISSED'} | {obl[:160]} | {rep or '-'} |\n")
