#!/usr/bin/env python3
"""Self-test helper: copy /repo to a scratch dir, apply one textual edit (or a patch file), run a check against
the copy (OSACA_REPO), report, delete the copy.
usage: try_mutant.py <prop>[,<prop>..] --file osaca/x.py --old 'text' --new 'text'   |   --patch file.diff   [--unit substr]"""
import argparse, os, shutil, subprocess, sys, tempfile
ap = argparse.ArgumentParser()
ap.add_argument("props"); ap.add_argument("--file"); ap.add_argument("--old"); ap.add_argument("--new"); ap.add_argument("--patch")
ap.add_argument("--unit"); ap.add_argument("--tier", default="quick"); ap.add_argument("-v", action="store_true")
a = ap.parse_args()
d = tempfile.mkdtemp(prefix="mut_", dir="/tmp")
try:
    subprocess.run(["rsync", "-a", "--exclude", ".git", "--exclude", "*.pickle", "--exclude", "__pycache__", "/repo/", d + "/"], check=True)
    if a.patch:
        subprocess.run(["git", "apply", "--unsafe-paths", "--directory", d, os.path.abspath(a.patch)], check=True, cwd="/")
    else:
        p = os.path.join(d, a.file); s = open(p).read()
        if s.count(a.old) != 1:
            print(f"edit site matches {s.count(a.old)} times"); sys.exit(4)
        open(p, "w").write(s.replace(a.old, a.new))
    rc_all = 0
    for prop in a.props.split(","):
        cmd = ["/verif/check", prop, "--tier", a.tier] + (["--unit", a.unit] if a.unit else []) + (["-v"] if a.v else [])
        env = dict(os.environ, OSACA_REPO=d, PYVC_EVIDENCE_DIR=os.path.join(d, "_evidence"), PYVC_REPLAY_DIR=os.path.join(d, "_replays"))
        r = subprocess.run(cmd, capture_output=True, text=True, env=env)
        lines = r.stdout.strip().split("\n")
        viol = [l for l in lines if l.startswith(("VIOLATION", "KNOWN", "UNDECIDED", "CHECKER"))]
        print(f"== {prop}: exit={r.returncode}")
        for l in viol[:6]: print("   ", l[:400])
        if a.v: print(r.stdout[-3000:], r.stderr[-2000:])
        print("   ", lines[-1])
        rc_all = max(rc_all, r.returncode)
    sys.exit(rc_all)
finally:
    shutil.rmtree(d, ignore_errors=True)
