#!/usr/bin/env python3
"""Regenerates /verif/MANIFEST.json from the table below (single source of truth for claimed checks)."""
import json, os
V = os.path.dirname(os.path.dirname(os.path.abspath(__file__)))
props = [json.loads(l) for l in open(os.path.join(V, "properties.jsonl"))]
TECH = "contract-based deductive verification: VCs generated from the real AST (pyvc), discharged by z3/cvc5"
CHECKS = {
 "C12": dict(cat="proof", ref="DESIGN.md section 4 C12",
   text="Both is_reg_dependend_of implementations (with helpers and the RegisterOperand constructor) are symbolically executed on two fully symbolic register names over the architectural name tables in any letter case; every path's result is proved equal to 'same architectural family'; equivalence laws are lemmas.",
   note="Trusted: pyvc's semantics of the Python subset, z3; register-family tables in contracts/spec_regs.py; AArch64 zero register excluded (no state)."),
 "C20": dict(cat="proof", ref="DESIGN.md section 4 C20",
   text="_validate_measurement is proved for every rational measurement >= 0 in both modes against the documented snapping (windows proved disjoint); both operand-code decoders are proved on symbolic code strings over the README's code language. File parsing, TP/LT merging, asmbench block handling and the YAML dump are covered by a bounded run-time contract on the real import_benchmark_output (exhaustive over the stated family) - labelled bounded, not counted as proved.",
   note="A-float (floats as rationals, decimal literals exact); operand codes restricted to the documented language; bounded family as in bounded/c20_import.py.",
   tech=TECH + "; bounded run-time contract for file parsing/dump"),
 "C01": dict(cat="proof", ref="DESIGN.md section 4 C01",
   text="Uniform scheduling: average_port_pressure is verified with loop invariants for an arbitrary number of ports, micro-ops and ports per micro-op (result = ghost uniform split acc, KeyError exactly for an unknown port), and the feasibility clauses of the statement (non-negative, zero on foreign ports, sums to total cycles, Hall condition for every port set) are proved as inductive lemmas over acc; _handle_instruction_found and the no-data branches of assign_tp_lt are proved; get_throughput_sum is proved for kernels <= 3 lines x 3 ports (bounded structure, symbolic values). Optimised scheduling (assign_optimal_throughput) is outside the prover's reach and is covered by a bounded run-time contract on the real method (exhaustive over stated 3-port families, 0/1/2 passes) - not counted as proved.",
   note="A-float; list.index modelled by its defining property; optimiser part bounded only. Known finding: second balancing pass infeasible for instructions with overlapping-but-different micro-op port sets (known_findings.json).",
   tech=TECH + "; inductive lemmas; bounded run-time contract for the optimiser"),
 "C02": dict(cat="exploration", ref="DESIGN.md section 4 C02",
   text="Bounded: run-time contract on the real assign_optimal_throughput over exactly the family the property names (5355 kernels over single-micro-op forms on every subset of 3 ports, 1 and 2 passes, exhaustive): bottleneck never exceeds the uniform one; after the CLI's two passes it is within 0.15 cy of the exact optimum (max over port subsets of confined cycles/|S|, computed independently) and never undercuts it beyond the rounding step. The only proved part is the Hall lower-bound lemma (any feasible split is >= the optimum).",
   note="No contract within the prover's reach expresses optimality of the greedy balancer; decisive part is bounded (label B).",
   tech="bounded run-time contract on the real function (exhaustive finite family) + one z3 lemma"),
 "C03": dict(cat="proof", ref="DESIGN.md section 4 C03",
   text="is_read and is_written are verified with loop invariants over three operand sequences of unbounded length against the statement's read/write predicates; find_depending (generator, nested loops over unbounded sequences, break on overwrite) is verified pointwise: soundness and tag at every yield, completeness and 'break <=> overwrite' at every body end/break, plus the reachability lemma, which together are the RAW relation; create_DG's loop body is verified to add exactly one forward edge per yielded dependency with the statement's weight (latency without load stage / write-back latency / + forwarding) and the separate load node iff the load was composed. Register overlap enters through the C12 contract. Role assignment from the ISA database and the whole pipeline are covered by a bounded comparison with an independent RAW oracle and a curated table of architecturally known roles.",
   note="Type invariant of analysed instructions assumed (indexed memory operand has a base; base/index are registers); is_memload/is_memstore abstract here (C06); networkx add_node/add_edge as ghost calls (A); ISA-DB role data bounded (curated table).",
   tech=TECH + "; pointwise generator obligations; bounded oracle comparison"),
 "C04": dict(cat="proof", ref="DESIGN.md section 4 C04",
   text="get_critical_path is verified on every dependency-graph structure with <= 3 instructions (optional separate load node each, every subset of forward edges) with all latencies symbolic: the sum of per-line CP latencies equals the maximum over chains of edge latencies (leading load stage once) plus the last instruction's execution latency, the marked lines are consecutive along a chain, and the total is >= every single latency. networkx enters through an executable specification of its assumed contract (any maximal path). Unbounded kernels are covered by a bounded comparison of the real pipeline with an independent longest-chain computation.",
   note="Structure bounded (<= 3 instructions; values symbolic) - reported as bounded structure; A: networkx dag_longest_path/is_directed_acyclic_graph/copy/pairwise.",
   tech=TECH + " on bounded graph structures; bounded oracle comparison"),
 "C05": dict(cat="exploration", ref="DESIGN.md section 4 C05",
   text="Bounded: the real pipeline is compared with an independent enumeration of winding-number-1 cycles over the reference dependency relation of two concatenated iterations (all kernels of length <= 3 over a per-ISA vocabulary + random longer kernels, with/without flag dependencies, kernels at line 1 and at line 1500); the report's LCD figure/column are compared with the analysis. Proved part: the doubling phase (ids of both copies separated by the offset, distinct, shallow copies, originals untouched) for kernels of <= 3 lines with symbolic line numbers.",
   note="Cycle-set characterisation is argued (DESIGN C05(f)) and checked by the bounded oracle only; all_simple_paths is exercised for real.",
   tech="bounded run-time oracle comparison on the real pipeline + VCs for the doubling arithmetic"),
 "C06": dict(cat="proof", ref="DESIGN.md section 4 C06",
   text="is_memload is verified for every operand shape (store address x load address x tracked-change entries, both ISAs' name formats) with all names, displacements, scales and tracked values symbolic: True iff base/index registers agree after renaming, scales agree and the adjusted displacement is zero; is_memstore (structural equality), _update_reg_changes (state machine untracked/unknown/(origin,delta)), the memory branch of find_depending and the edge weight store latency + forwarding latency (create_DG) are verified. get_reg_changes (exec of YAML operation strings) and the pipeline are covered by a bounded comparison with an independent address tracker over the store / pointer-bump / load family of both ISAs.",
   note="One memory source per consumer in the proof units; get_reg_changes bounded only; symbolic displacements compared by name.",
   tech=TECH + " per operand shape; bounded oracle comparison"),
 "C13": dict(cat="exploration", ref="DESIGN.md section 4 C13",
   text="Bounded: run-time contract on the real inspect(): the text report is parsed back by column position and every port-pressure/CP/LCD cell, the summary row, the LCD list, X marks, the missing-data warning and its count, suppression of totals, --ignore-unknown, the arch warning/default model and the length warning are compared with the --yaml-out data and the analysis objects over corpus x models x options. The warning-text and flag-symbol helper functions are proved.",
   note="String formatting is outside the prover's subset; decisive part bounded.",
   tech="bounded run-time contract on the real CLI entry point (report parsed back) + VCs for warning helpers"),
 "C14": dict(cat="exploration", ref="DESIGN.md section 4 C14",
   text="Bounded: relational run-time contract on the real pipeline - for every rotation offset of every generated kernel the LCD set keyed by instruction text and latency equals the unrotated one. The argument why it holds in general (C03 + C05) is in DESIGN.md, not mechanised.",
   note="Metamorphic two-call property: no single-call contract decides it.",
   tech="bounded relational run-time contract on the real pipeline"),
 "C16": dict(cat="proof", ref="DESIGN.md section 4 C16",
   text="The static partition of root instructions in check_for_loopcarried_dep is verified on the real code, executed symbolically up to the creation of the workers, for ALL kernel lengths >= 50 and ALL worker counts >= 1: one slice per worker, slices consecutive, in order, pairwise disjoint, inside the kernel and covering every root exactly once (nonlinear integer VCs); _extend_path is verified to search, for each instruction of its slice, the paths from it to its second copy; order-insensitivity of the post-processing is a lemma. Equality of the real multi-process search with the sequential one is sampled by a bounded unit (worker counts 1,2,3,5,16,80; kernels of 50-66 lines) and by a partition probe of the real function for klen 50-130 x 9 worker counts.",
   note="A: Manager().list().extend atomic/lossless, workers terminate, int(a/b) = floor division below 2**53; real scheduling and byte-identical reports only sampled.",
   tech=TECH + " (nonlinear integer arithmetic); bounded runs with real processes"),
 "C11": dict(cat="proof", ref="DESIGN.md section 4 C11",
   text="find_marked_section is verified for line lists of unbounded length with a loop invariant over the scan position: under the property's precondition (one start marker followed by one end marker) the result is exactly (first line after the start marker incl. its .byte lines, line of the end marker), and a line that differs in value, register, mnemonic or follow-up directive is not a marker; match_bytes (bytes on one or several .byte lines) is verified on <= 3 lines x 4 parameters with symbolic bytes; the marker constants of both ISAs equal the documented ones; reduce_to_section's slicing incl. the 'no marker -> whole file' case is verified; transparency of non-instruction lines is carried by the C01/C03 contract instances. --lines expansion, decoys and the identity of the three input variants / noise insertion are checked end-to-end on the real inspect by a bounded unit.",
   note="Precondition = the property's input space (exactly one start and one end marker, mov-like lines have two operands); match_bytes structure-bounded; get_line_range and end-to-end clauses bounded.",
   tech=TECH + "; bounded end-to-end comparison of input variants"),
 "C09": dict(cat="proof", ref="DESIGN.md section 4 C09/C10",
   text="parse_file is verified for files of ANY number of lines (one parse_line call per non-blank line, in order, verbatim text, 1-based number + start offset); parse_line's classification is verified over all combinations of grammar outcomes (exactly one of comment/label/directive/instruction populated, in that priority; line and number verbatim; instruction failure -> ValueError); operand post-processing (x86: displacement in decimal/hex with sign, base, index, scale default 1, identifier offsets, immediates) is verified per dictionary shape with symbolic numeric literals. The pyparsing grammar itself is library-interpreted and outside the subset: 'every rendering is accepted and structured' is covered by a bounded render->parse round trip on the real parse_line/parse_file (every operand form x position x layout; files with interleaved non-instruction lines), exhaustive within the stated family.",
   note="A: pyparsing results have the grammar's dict shapes; int(s, 0) by its model (differentially tested against CPython); grammar acceptance bounded.",
   tech=TECH + "; bounded render-parse round trip for the grammar"),
 "C10": dict(cat="proof", ref="DESIGN.md section 4 C09/C10",
   text="parse_file is verified for files of ANY number of lines (one parse_line call per non-blank line, in order, verbatim text, 1-based number + start offset); parse_line's classification is verified over all combinations of grammar outcomes (exactly one of comment/label/directive/instruction populated, in that priority; line and number verbatim; instruction failure -> ValueError); operand post-processing (AArch64: immediate offset, register index with shift n -> scale 2**n only for lsl/uxtw/uxtb/sxtw, sp/zr get prefix x, pre-index '!', post-index immediate) is verified per dictionary shape with symbolic numeric literals. The pyparsing grammar itself is library-interpreted and outside the subset: 'every rendering is accepted and structured' is covered by a bounded render->parse round trip on the real parse_line/parse_file (every operand form x position x layout; files with interleaved non-instruction lines), exhaustive within the stated family.",
   note="A: pyparsing results have the grammar's dict shapes; int(s, 0) by its model (differentially tested against CPython); grammar acceptance bounded.",
   tech=TECH + "; bounded render-parse round trip for the grammar"),
 "C07": dict(cat="proof", ref="DESIGN.md section 4 C07",
   text="All matcher predicates (_check_operands, _check_x86_operands, _check_AArch64_operands, _is_x86_reg_type, _is_AArch64_reg_type, _is_x86_mem_type, _is_AArch64_mem_type, with ParserX86ATT.is_vector_register) are symbolically executed for every entry-operand shape x parsed-operand shape with symbolic names, scales and values and proved equal to an independent reference matcher written from the statement (contracts/spec_matcher.py, itself executed symbolically and natively); _match_operands is verified for operand lists of unbounded length; get_instruction (upper-cased key, first match in list order) for <= 3 entries. The data half - every entry of the shipped models is found by the instruction synthesised from its own pattern and the first reference-accepted entry is returned - is a bounded exhaustive run over the model files.",
   note="Spec decisions excluded: k0-7 vs gpr, AArch64 lanes, operand without arrangement vs entry with one; entry vocabulary = that of the shipped files. Known findings: 'mm0' register class in ivb/snb/icl (unreachable entries).",
   tech=TECH + " against a symbolically executed reference; bounded exhaustive data sweep"),
 "C08": dict(cat="proof", ref="DESIGN.md section 4 C08",
   text="The composition branch of assign_tp_lt is symbolically executed through the real table lookups, matchers, uniform split and operand constructors on scenarios with concrete structure (load / store / read-modify-write, typed / untyped / non-matching rows and defaults, multipliers, entry found under the full mnemonic / only without suffix / not at all, missing latency or throughput; both ISAs) and symbolic cycle counts, latencies, throughputs and multipliers: micro-ops = register form ++ load ++ store, pressure = sum of the uniform splits, latency = register form + load latency of the register type, throughput = max(register-form throughput, busiest data port), unknown flags exactly for the neither-form case. The frame obligation (nothing reachable from the model or the matched entry changes) is proved on every path. A bounded unit compares the real add_semantics on a curated vocabulary x shipped models with an independent recomputation from the plain YAML, analyses everything twice and deep-compares the model afterwards.",
   note="Structure of the scenarios bounded (reported as bounded structure, values symbolic); get_instruction through its C07 contract.",
   tech=TECH + " with heap identities / frame obligations; bounded independent recomputation from YAML"),
 "C15": dict(cat="proof", ref="DESIGN.md section 4 C15",
   text="The quantifier is a finite set (every entry of every non-empty shipped model, both ISA databases, all load/store tables): the data-structure invariant wf_model (micro-op lists of [cycles >= 0, non-empty collection of known ports], alternatives, non-negative throughput/latency, well-formed tables and defaults) is evaluated on ALL of them, loaded through the current loader, and the real --db-check counters are compared with an independent count over the plain YAML - exhaustive, not sampled. 'Well-formed entries can be costed without crashing' is proved: average_port_pressure raises KeyError exactly for an unknown port and nothing else, for any number of ports and micro-ops; _handle_instruction_found is exception-free; the three missing_* counters of _check_sanity_arch_db receive exactly the entries whose value is None. Pipeline costing of a synthesised instruction per entry is sampled in the quick tier (all alternative-assignment forms + every 25th entry) and exhaustive in the thorough tier.",
   note="Known finding: snb port 'DIV' (22 forms). Emptied models are skipped as the property says.",
   tech="exhaustive evaluation of a data-structure invariant over the finite model data + " + TECH),
}
NA = {
 "C17": "quantifies over file-system histories, crash points of cache writes and process races; no function contract decides it (needs fault enumeration / a file-system model)",
 "C19": "wall-clock timeout, SIGKILL points of workers and process-table state are not expressible as pre/postconditions of the Python functions",
}
checks = []
for pid, c in CHECKS.items():
    checks.append({"property_id": pid, "quick_cmd": f"./check {pid} --tier quick", "thorough_cmd": f"./check {pid} --tier thorough",
                   "evidence_file": f"/verif/evidence/{pid}.json",
                   "replay_cmd_template": "/venv/bin/python /verif/replay/native.py \"$(jq -c .counterexample {path})\"",
                   "engine": "pyvc", "level_claimed": {"category": c["cat"], "text": c["text"], "design_ref": c["ref"]},
                   "level_note": c["note"], "technique": c.get("tech", TECH)})
na = []
for p in props:
    if p["id"] in CHECKS: continue
    na.append({"property_id": p["id"], "reason": NA.get(p["id"], "check under construction in this session (DESIGN.md section 9 gives the order); not yet claimed")})
m = {"version": 1,
     "setup_cmd": "python3-vt -c \"import z3\" && /venv/bin/python -c \"import osaca, networkx, ruamel.yaml\"",
     "hooks": {"guard": "OSACA_VERIF", "enable": "none needed: contracts are sidecar files under /verif/contracts and /verif/bounded; /repo is read with ast (proof units) or imported unmodified (bounded units) on every run",
               "baseline_off_cmd": "python3 /verif/tools/baseline_check.py", "source_commits": [], "add_only": True},
     "engines": [{"name": "pyvc", "path": "/verif/pyvc", "serves_properties": sorted(CHECKS),
                  "kind_free_text": "VC generator: symbolic execution of the real /repo AST with sidecar contracts; obligations discharged by z3 5.1 (cvc5 1.0.3 / z3 4.8.12 fallback); bounded run-time contract harnesses under /verif/bounded"}],
     "checks": checks, "not_applicable": na,
     "notes": "fix: commits in /repo are listed in /verif/known_findings.json ('fixed' entries)."}
json.dump(m, open(os.path.join(V, "MANIFEST.json"), "w"), indent=1)
print("checks:", sorted(CHECKS), "n/a:", len(na))
