#!/usr/bin/env python3
"""Records, for every function of /repo/osaca with at least one loop, the number of For/While statements
(contracts/loop_counts.json).  Contracts address loops by ordinal; pyvc refuses (UNDECIDED, never a violation) to evaluate a
contract on a function whose loop count differs from the recorded one.  Re-run after a repair in /repo that adds or removes a loop
of a function under contract, after checking that the contract's ordinals still name the intended loops."""
import ast, collections, glob, json, os
V = os.path.dirname(os.path.dirname(os.path.abspath(__file__)))
counts = collections.defaultdict(set)
for f in glob.glob("/repo/osaca/**/*.py", recursive=True):
    for n in ast.walk(ast.parse(open(f).read())):
        if isinstance(n, (ast.FunctionDef, ast.AsyncFunctionDef)):
            counts[n.name].add(sum(1 for m in ast.walk(n) if isinstance(m, (ast.For, ast.While))))
rec = {k: list(v)[0] for k, v in counts.items() if len(v) == 1 and list(v)[0] > 0}
json.dump(rec, open(os.path.join(V, "contracts", "loop_counts.json"), "w"), indent=1, sort_keys=True)
print(len(rec), "functions recorded; names defined several times with different counts are not guarded:", sorted(k for k, v in counts.items() if len(v) > 1))
