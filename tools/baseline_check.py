#!/usr/bin/env python3
"""Run the repository's pinned test suite (guard OFF) and compare with /root/.vp/BASELINE.json:
every test in stable_pass must pass.  Usage: baseline_check.py [--repo DIR] [--junit FILE]"""
import json, os, subprocess, sys, tempfile, xml.etree.ElementTree as ET

def main():
    repo = "/repo"; junit = None
    a = sys.argv[1:]
    while a:
        x = a.pop(0)
        if x == "--repo": repo = a.pop(0)
        elif x == "--junit": junit = a.pop(0)
    base = json.load(open("/root/.vp/BASELINE.json"))
    if junit is None:
        junit = tempfile.mktemp(suffix=".xml")
        env = dict(os.environ); env.pop("OSACA_VERIF", None)
        subprocess.run(["/venv/bin/python", "-m", "pytest", "-ra", "-q", "-p", "no:cacheprovider", "--timeout=900",
                        "--continue-on-collection-errors", "--junitxml=" + junit], cwd=repo, env=env,
                       stdout=subprocess.DEVNULL, stderr=subprocess.DEVNULL)
    passed = set()
    for tc in ET.parse(junit).getroot().iter("testcase"):
        if not any(ch.tag in ("failure", "error", "skipped") for ch in tc):
            passed.add(f"{tc.get('classname')}::{tc.get('name')}")
    missing = [t for t in base["stable_pass"] if t not in passed]
    print(f"baseline: {len(base['stable_pass']) - len(missing)}/{len(base['stable_pass'])} stable tests pass; extra passing: {len(passed - set(base['stable_pass']))}")
    for t in missing: print("  MISSING", t)
    return 1 if missing else 0
sys.exit(main())
