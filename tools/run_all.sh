#!/bin/bash
# run every claimed check (quick tier) and validate manifest + evidence
cd /verif
rc=0
for p in $(python3 -c "import json;print(' '.join(c['property_id'] for c in json.load(open('MANIFEST.json'))['checks']))"); do
  timeout 3000 ./check $p --tier ${1:-quick} | grep -E "VIOLATION|KNOWN|UNDECIDED|CRASH|tier=" | cut -c1-250; [ ${PIPESTATUS[0]} -ne 0 ] && rc=1
done
python3-vt - <<'PY'
import json,jsonschema
m=json.load(open('/verif/MANIFEST.json')); jsonschema.validate(m,json.load(open('/root/.vp/MANIFEST.schema.json')))
S=json.load(open('/root/.vp/EVIDENCE.schema.json'))
for c in m['checks']:
    e=json.load(open(c['evidence_file'])); jsonschema.validate(e,S)
    assert e['level']==c['level_claimed']['category'], (c['property_id'], e['level'], c['level_claimed']['category'])
print("manifest + evidence valid")
PY
exit $rc
