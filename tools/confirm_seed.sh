#!/bin/bash
# confirm_seed.sh <PROP> <A|B> : independently confirm a seeded change in a fresh scratch worktree, then store it under /verif/seeded
set -u
P=$1; L=$2; SRC=${3:-/tmp/wt_out/$P}; W=/tmp/wt/confirm_${P}_$L; OUT=/verif/seeded/${4:-${P}-$L}
rm -rf $W; git -C /repo worktree prune; git -C /repo worktree add --detach $W HEAD -q || exit 9
cd $W
/venv/bin/python $SRC/demo_$L.py >$SRC/confirm_clean_$L.log 2>&1; clean_rc=$?
git apply $SRC/patch_$L.diff || { echo "patch does not apply"; git -C /repo worktree remove --force $W; exit 8; }
/venv/bin/python $SRC/demo_$L.py >$SRC/confirm_mut_$L.log 2>&1; mut_rc=$?
/venv/bin/python -m pytest -q -p no:cacheprovider --timeout=900 --continue-on-collection-errors --junitxml=$SRC/confirm_junit_$L.xml >/dev/null 2>&1
base=$(python3 /verif/tools/baseline_check.py --junit $SRC/confirm_junit_$L.xml | head -1)
cd /; git -C /repo worktree remove --force $W
echo "$P-$L clean_rc=$clean_rc mutant_rc=$mut_rc $base"
if [ $clean_rc -eq 0 ] && [ $mut_rc -ne 0 ] && echo "$base" | grep -q "42/42"; then
  mkdir -p $OUT; cp $SRC/patch_$L.diff $OUT/patch.diff; cp $SRC/demo_$L.py $OUT/demo.py
  python3 - "$P" "$L" "$base" "$mut_rc" "$SRC" "$OUT" <<'PY'
import json,sys,re
P,L,base,rc,SRC,OUT=sys.argv[1:7]
notes=open(f"{SRC}/notes.md").read()
json.dump({"property":P,"variant":L,"breaks":P,"needs_to_manifest":"see notes (excerpt below)","notes_excerpt":notes[:6000],
 "confirmed":{"worktree":"fresh git worktree of /repo HEAD under /tmp/wt","demo_on_clean_tree_rc":0,"demo_with_patch_rc":int(rc),
 "tests":base,"commands":["git apply patch.diff","/venv/bin/python demo.py","/venv/bin/python -m pytest ... && tools/baseline_check.py"]}},
 open(f"{OUT}/meta.json","w"),indent=1)
PY
  echo "stored $OUT"
else echo "NOT CONFIRMED $P-$L"; fi
