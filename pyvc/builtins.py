"""Models of the Python built-ins and library functions used by the verified functions.

Every function here is part of the trusted base (assumption class A-builtin); the differential check
(pyvc.diff) compares them with CPython on the constructs the verified functions use.
"""
import ast
import z3

from .sym import *  # noqa

MODULES = {"re": "re", "string": "string", "math": "math", "copy": "copy", "sys": "sys", "nx": "nx", "pp": "pp",
           "warnings": "warnings", "os": "os", "time": "time", "signal": "signal", "operator": "operator", "ruamel": "ruamel"}


def module_attr(ex, mod, attr):
    if mod == "string" and attr == "digits":
        return "0123456789"
    if mod == "re" and attr == "IGNORECASE":
        return ("reflag", "I")
    if mod == "sys" and attr == "maxsize":
        return 2**63 - 1
    if mod.split(".")[0] == "nx" and attr in ("algorithms", "dag", "utils", "simple_paths"):
        return ModRef(mod + "." + attr)
    if mod.split(".")[0] == "ruamel" and attr in ("yaml", "comments", "compat"):
        return ModRef(mod + "." + attr)  # only ever reached through contract-supplied abstractions (ex.abstract["ruamel...."])
    if mod == "os" and attr == "path":
        return ModRef("os.path")
    if mod == "operator" and attr == "itemgetter":
        return BUILTINS["itemgetter"]
    if mod == "pp" and attr == "ParseException":
        return ClassRef("ParseException")
    return ModFn(mod, attr)


# ------------------------------------------------------------------ list.index / `in` on symbolic sequences
def _elem_term(v):
    if isinstance(v, SRef):
        return v.t
    if isinstance(v, StrId):
        return v.t
    if isinstance(v, SNum):
        return v.t
    if isinstance(v, str):
        return z3.IntVal(StrId.code(v))
    if isinstance(v, int):
        return z3.IntVal(v)
    raise Unsupported("element kind for index model: " + type(v).__name__)


def seq_index_model(ex, seq, item):
    """Return a z3 Int `pos` with the defining property of list.index (first occurrence) or -1 if absent.
    Sound: such a value exists for every list and item; it is introduced by a fresh constant plus its
    defining (quantified) hypothesis, so branch conditions on it stay quantifier-free."""
    it = _elem_term(item)
    key = ("idx", id(seq), str(it))
    cache = ex.__dict__.setdefault("_idx_cache", {})
    hit = cache.get(key)
    if hit is not None and hit[1] is ex.pc.__class__ and False:
        return hit[0]
    pos = z3.FreshInt("pos")
    k = z3.FreshInt("kq")
    elem = lambda i: _elem_term(seq.at(i))
    ex.assume(
        z3.Or(
            z3.And(pos >= 0, pos < seq.length, elem(pos) == it,
                   z3.ForAll([k], z3.Implies(z3.And(0 <= k, k < pos), elem(k) != it))),
            z3.And(pos == -1, z3.ForAll([k], z3.Implies(z3.And(0 <= k, k < seq.length), elem(k) != it))),
        )
    )
    return pos


# ------------------------------------------------------------------ builtins
def _anyall(ex, arg, is_any):
    if isinstance(arg, GenExp):
        e, env, cls = arg.node, arg.env, arg.cls
        if len(e.generators) == 1:
            g = e.generators[0]
            it = ex.eval(g.iter, env, cls)
            if isinstance(it, SymSeq):
                # any/all over a sequence of symbolic length: a quantified term (the body must be branch-free)
                j = z3.FreshInt("aj")
                env2 = dict(env)
                ex.assign(g.target, it.at(j), env2, cls)
                ts = [ex.pure_bool(c_, env2, cls) for c_ in g.ifs] + [ex.pure_bool(e.elt, env2, cls)]
                ts = [t.t if isinstance(t, SBool) else z3.BoolVal(bool(t)) for t in ts]
                rng = z3.And(0 <= j, j < it.length)
                if is_any:
                    return SBool(z3.Exists([j], z3.And([rng] + ts)))
                return SBool(z3.ForAll([j], z3.Implies(z3.And([rng] + ts[:-1]), ts[-1])))
            if isinstance(it, BStr):
                terms = []
                for i, c in enumerate(it.chars):
                    env2 = dict(env)
                    ex.assign(g.target, BStr([c], z3.IntVal(1)), env2, cls)
                    npc = len(ex.pc)
                    conds = [ex.eval(c_, env2, cls) for c_ in g.ifs]
                    v = ex.eval(e.elt, env2, cls)
                    if len(ex.pc) != npc:
                        raise Unsupported("any/all body over BStr forks")
                    vt = v.t if isinstance(v, SBool) else z3.BoolVal(bool(v))
                    guard = z3.And([it.length > i] + [c_.t if isinstance(c_, SBool) else z3.BoolVal(bool(c_)) for c_ in conds])
                    terms.append(z3.And(guard, vt) if is_any else z3.Implies(guard, vt))
                return SBool(z3.Or(terms) if is_any else z3.And(terms))
        result = [not is_any]

        class Stop(Exception):
            pass

        def emit(env2):
            t = ex.truthy(ex.eval(e.elt, env2, cls))
            if is_any and t:
                result[0] = True
                raise Stop()
            if not is_any and not t:
                result[0] = False
                raise Stop()

        try:
            ex.comp_iter(e.generators, env, cls, emit)
        except Stop:
            pass
        return result[0]
    for v in ex.iterate(arg):
        t = ex.truthy(v)
        if is_any and t:
            return True
        if not is_any and not t:
            return False
    return not is_any


def _any(ex, arg):
    return _anyall(ex, arg, True)


def _all(ex, arg):
    return _anyall(ex, arg, False)


def sym_round_int(ex, x_real):
    """round half to even of a Real term -> Int term (fresh, constrained)"""
    k = z3.FreshInt("rnd")
    d = x_real - z3.ToReal(k)
    half = z3.RealVal("1/2")
    ex.assume(z3.And(d >= -half, d <= half))
    ex.assume(z3.Implies(z3.Or(d == half, d == -half), k % 2 == 0))
    return k


def _round(ex, x, nd=None):
    if is_conc_num(x):
        if nd is None:
            return round(x)
        r = round(Fraction(x), nd)
        return r if not isinstance(x, int) else int(r)
    if not isinstance(x, SNum):
        raise PyRaise("TypeError", "round")
    if x.is_int:
        return x
    if nd is None:
        return SNum(sym_round_int(ex, x.t), True)
    if not isinstance(nd, int) or nd < 0:
        raise Unsupported("round ndigits")
    scale = 10**nd
    k = sym_round_int(ex, x.t * scale)
    return SNum(z3.ToReal(k) / scale, False)


def _float(ex, x=0):
    if isinstance(x, bool):
        return Fraction(int(x))
    if isinstance(x, int):
        return Fraction(x)
    if isinstance(x, Fraction):
        return x
    if isinstance(x, str):
        try:
            return Fraction(repr(float(x)))
        except ValueError:
            raise PyRaise("ValueError", "float()")
    if isinstance(x, SNum):
        return SNum(z3.ToReal(x.t) if x.is_int else x.t, False)
    if x is None or isinstance(x, (list, dict, tuple, SObj)):
        raise PyRaise("TypeError", "float()")
    if hasattr(x, "sym_float"):
        return x.sym_float(ex)
    raise Unsupported("float of " + type(x).__name__)


def _int(ex, x=0, base=None):
    if isinstance(x, bool):
        return int(x)
    if isinstance(x, int):
        return x
    if isinstance(x, Fraction):
        return int(x)  # truncation toward zero
    if isinstance(x, str):
        try:
            return int(x, base) if base is not None else int(x)
        except ValueError:
            raise PyRaise("ValueError", "int()")
    if isinstance(x, SNum):
        if x.is_int:
            return x
        k = z3.FreshInt("trunc")
        ex.assume(z3.If(x.t >= 0, z3.And(z3.ToReal(k) <= x.t, x.t < z3.ToReal(k) + 1),
                        z3.And(z3.ToReal(k) >= x.t, x.t > z3.ToReal(k) - 1)))
        return SNum(k, True)
    if hasattr(x, "sym_int"):
        return x.sym_int(ex, base)
    if isinstance(x, BStr):
        return bstr_to_int(ex, x, base)
    if x is None or isinstance(x, (list, dict, tuple, SObj)):
        raise PyRaise("TypeError", "int()")
    raise Unsupported("int of " + type(x).__name__)


def bstr_to_int(ex, s, base):
    """int(s) / int(s, 10) for a BStr of decimal digits (optional leading '-'); ValueError otherwise.
    Whitespace/underscore/plus forms are treated as ValueError-or-Unsupported: the contract's
    precondition language must exclude them (checked: any other char -> Unsupported)."""
    if base == 0:
        return bstr_to_int0(ex, s)
    if base not in (None, 10):
        raise Unsupported("int(BStr, base)")
    if ex.branch(s.length == 0):
        raise PyRaise("ValueError", "int('')")
    neg = ex.branch(s.chars[0] == ord("-"))
    start = 1 if neg else 0
    if neg and ex.branch(s.length == 1):
        raise PyRaise("ValueError", "int('-')")
    alld = z3.And([z3.Or(s.length <= i, char_isdigit(c)) for i, c in enumerate(s.chars) if i >= start])
    if not ex.branch(alld):
        bad = z3.Or([z3.And(s.length > i, z3.Or([c == ord(x) for x in " \t\n\r\x0b\x0c_+"])) for i, c in enumerate(s.chars)])
        if ex.branch(bad):
            raise Unsupported("int() of string with blanks/underscore/plus")
        raise PyRaise("ValueError", "int(non-digit)")
    val = z3.IntVal(0)
    for i in range(start, s.cap):
        val = z3.If(s.length > i, val * 10 + (s.chars[i] - 48), val)
    return SNum(-val if neg else val, True)


def bstr_to_int0(ex, s):
    """int(s, 0) for -?[0-9]+ (no leading zeros unless the value is 0) | -?0[xX][0-9a-fA-F]+ ; ValueError otherwise
    (blanks, underscores, '+', 0o/0b prefixes -> Unsupported: the contract's language must exclude them)"""
    if ex.branch(s.length == 0):
        raise PyRaise("ValueError", "int('', 0)")
    bad = z3.Or([z3.And(s.length > i, z3.Or([c == ord(x) for x in " \t\n\r_+"])) for i, c in enumerate(s.chars)])
    if ex.branch(bad):
        raise Unsupported("int(s, 0) with blanks/underscore/plus")
    neg = ex.branch(s.chars[0] == ord("-"))
    st = 1 if neg else 0
    ch = lambda i: s.chars[i] if i < s.cap else z3.IntVal(0)
    if ex.branch(z3.And(s.length >= st + 2, ch(st) == ord("0"), z3.Or([ch(st + 1) == ord(x) for x in "oObB"]))):
        raise Unsupported("int(s, 0) with octal/binary prefix")
    is_hex = ex.branch(z3.And(s.length >= st + 2, ch(st) == ord("0"), z3.Or(ch(st + 1) == ord("x"), ch(st + 1) == ord("X"))))
    if is_hex:
        st += 2
        if ex.branch(s.length <= st):
            raise PyRaise("ValueError", "int('0x', 0)")
        hexd = lambda c: z3.Or(char_isdigit(c), z3.And(c >= 97, c <= 102), z3.And(c >= 65, c <= 70))
        if not ex.branch(z3.And([z3.Or(s.length <= i, hexd(c)) for i, c in enumerate(s.chars) if i >= st])):
            raise PyRaise("ValueError", "int(non-hex, 0)")
        dv = lambda c: z3.If(char_isdigit(c), c - 48, z3.If(c >= 97, c - 87, c - 55))
        val = z3.IntVal(0)
        for i in range(st, s.cap):
            val = z3.If(s.length > i, val * 16 + dv(s.chars[i]), val)
    else:
        if ex.branch(s.length <= st):
            raise PyRaise("ValueError", "int('-', 0)")
        if not ex.branch(z3.And([z3.Or(s.length <= i, char_isdigit(c)) for i, c in enumerate(s.chars) if i >= st])):
            raise PyRaise("ValueError", "int(non-digit, 0)")
        allzero = z3.And([z3.Or(s.length <= i, c == 48) for i, c in enumerate(s.chars) if i >= st])
        if ex.branch(z3.And(ch(st) == 48, s.length > st + 1, z3.Not(allzero))):
            raise PyRaise("ValueError", "leading zeros in decimal literal")
        val = z3.IntVal(0)
        for i in range(st, s.cap):
            val = z3.If(s.length > i, val * 10 + (s.chars[i] - 48), val)
    return SNum(-val if neg else val, True)


def _range(ex, *a):
    if all(isinstance(x, int) for x in a):
        return range(*a)
    if len(a) == 1:
        n, _ = num_term(a[0])
        ln = z3.If(n > 0, n, z3.IntVal(0))
        return SymSeq(ln, lambda i: SNum(i, True))
    if len(a) == 2:
        lo, _ = num_term(a[0])
        hi, _ = num_term(a[1])
        ln = z3.If(hi > lo, hi - lo, z3.IntVal(0))
        return SymSeq(ln, lambda i: SNum(lo + i, True))
    if len(a) == 3 and isinstance(a[2], int) and a[2] > 0:
        lo, _ = num_term(a[0])
        hi, _ = num_term(a[1])
        st = a[2]
        ln = z3.If(hi > lo, (hi - lo + (st - 1)) / st, z3.IntVal(0))
        return SymSeq(ln, lambda i: SNum(lo + i * st, True))
    raise Unsupported("range with symbolic step")


def _len(ex, v):
    if isinstance(v, (SymSeq, SymList)):
        return SNum(v.length, True)
    if isinstance(v, BStr):
        return SNum(v.length, True)
    if isinstance(v, (list, tuple, dict, str)):
        return len(v)
    if hasattr(v, "sym_len"):
        return v.sym_len(ex)
    if isinstance(v, SObj):
        fn, owner = ex.find_method(v.cls, "__len__")
        if fn is not None:
            return ex.call_fn(fn, [v], owner)
    if v is None or is_num(v) or isinstance(v, (SObj, bool, SBool)):
        raise PyRaise("TypeError", "len()")
    raise Unsupported("len of " + type(v).__name__)


def _enumerate(ex, v, start=0):
    return ("enumerate", v, start)


def _chain(ex, *its):
    for i in its:
        if hasattr(i, "sym_chain"):
            return i.sym_chain(ex, its)
    if any(isinstance(i, SymSeq) for i in its):
        acc = None
        for i in its:
            if isinstance(i, list):
                if not i:
                    continue
                raise Unsupported("chain of concrete and symbolic")
            acc = i if acc is None else SymSeq.concat(acc, i)
        return acc
    out = []
    for i in its:
        out += list(ex.iterate(i))
    return out


def _isinstance(ex, o, cls):
    cl = list(cls) if isinstance(cls, tuple) else [cls]
    names = [c.name if hasattr(c, "name") else next((k for k, v in BUILTINS.items() if v is c), "?") for c in cl]
    if hasattr(o, "sym_isinstance"):
        return o.sym_isinstance(ex, names)
    if isinstance(o, SRef):
        return SBool(o.schema.isinst(o.t, set(names)))
    if isinstance(o, SObj):
        return ex.is_subclass(o.cls, set(names))
    for n in names:
        if n == "str" and isinstance(o, (str, BStr, StrId, OpaqueStr)):
            return True
        if n == "dict" and isinstance(o, dict):
            return True
        if n == "list" and isinstance(o, (list, SymSeq, SymList)):
            return True
        if n == "tuple" and isinstance(o, tuple):
            return True
        if n == "bool" and isinstance(o, (bool, SBool)):
            return True
        if n == "int" and ((isinstance(o, int)) or (isinstance(o, SNum) and o.is_int) or isinstance(o, SBool)):
            return True
        if n == "float" and (isinstance(o, Fraction) or (isinstance(o, SNum) and not o.is_int)):
            return True
    return False


def _bool(ex, v=False):
    if isinstance(v, SBool):
        return v
    if isinstance(v, SNum):
        return SBool(v.t != 0)
    return ex.truthy(v)


def _sum(ex, it, start=0):
    if isinstance(it, (SymList, SymSeq)) and getattr(it, "sum_fn", None) is not None:
        return it.sum_fn(ex)
    acc = start
    for x in ex.iterate(it):
        acc = ex.binop(ast.Add(), acc, x)
    return acc


def _minmax(ex, is_max, *a, **kw):
    key = kw.get("key")
    if len(a) == 1 and isinstance(a[0], SymSeq) and key is None:
        # max/min of a sequence of symbolic length: fresh value with its defining property (A-builtin)
        seq = a[0]
        if ex.branch(seq.length <= 0):
            if "default" in kw:
                return kw["default"]
            raise PyRaise("ValueError", "empty sequence")
        m_, w_, q_ = z3.FreshInt("ext"), z3.FreshInt("wit"), z3.FreshInt("q")
        el = lambda i: num_term(seq.at(i))
        if not el(q_)[1]:
            raise Unsupported("max/min over symbolic sequence of reals")
        ex.assume(z3.And(0 <= w_, w_ < seq.length, el(w_)[0] == m_,
                         z3.ForAll([q_], z3.Implies(z3.And(0 <= q_, q_ < seq.length), el(q_)[0] <= m_ if is_max else el(q_)[0] >= m_))))
        return SNum(m_, True)
    xs = list(ex.iterate(a[0])) if len(a) == 1 else list(a)
    if not xs:
        if "default" in kw:
            return kw["default"]
        raise PyRaise("ValueError", "empty sequence")
    best = xs[0]
    bk = ex.apply(key, [best]) if key else best
    op = ast.Gt() if is_max else ast.Lt()
    if key is None and all(is_num(x) for x in xs) and any(isinstance(x, SNum) for x in xs):
        # value-level merge (no forking): max/min of numbers
        cur = xs[0]
        for x in xs[1:]:
            (ct, ci), (xt, xi) = num_term(cur), num_term(x)
            isint = ci and xi
            if not isint:
                ct, xt = real_term(cur), real_term(x)
            cond = xt > ct if is_max else xt < ct
            cur = SNum(z3.If(cond, xt, ct), isint)
        return cur
    for x in xs[1:]:
        xk = ex.apply(key, [x]) if key else x
        if ex.truthy(ex.compare(op, xk, bk)):
            best, bk = x, xk
    return best


def _max(ex, *a, **kw):
    return _minmax(ex, True, *a, **kw)


def _min(ex, *a, **kw):
    return _minmax(ex, False, *a, **kw)


def _zip(ex, *its):
    if any(isinstance(i, SymSeq) for i in its):
        seqs = []
        for i in its:
            if not isinstance(i, SymSeq):
                raise Unsupported("zip of concrete and symbolic")
            seqs.append(i)
        ln = seqs[0].length
        for s in seqs[1:]:
            ln = z3.If(s.length < ln, s.length, ln)
        return SymSeq(ln, lambda i: tuple(s.at(i) for s in seqs))
    return list(zip(*[list(ex.iterate(i)) for i in its]))


def _set(ex, it=()):
    out = []
    for x in ex.iterate(it):
        if not any(ex.truthy(ex.eq(x, y)) for y in out):
            out.append(x)
    return SetVal(out)


class SetVal(list):
    """set modelled as a duplicate-free list (iteration order = insertion order; the contracts that
    iterate over a set must not depend on the order -> such uses raise Unsupported in sym_iter_ok)"""


def _list(ex, it=()):
    if isinstance(it, SymSeq):
        return it
    if hasattr(it, "sym_list"):
        return it.sym_list(ex)
    return list(ex.iterate(it))


def _tuple(ex, it=()):
    if hasattr(it, "sym_tuple"):
        return it.sym_tuple(ex)
    return tuple(ex.iterate(it))


def _sorted(ex, it, key=None, reverse=False):
    if hasattr(it, "sym_sorted"):
        return it.sym_sorted(ex, key, reverse)
    xs = list(ex.iterate(it))
    return sort_list(ex, xs, key, reverse)


def sort_list(ex, xs, key=None, reverse=False):
    """stable insertion sort with symbolic comparisons (forks); matches list.sort for total orders"""
    out = []
    for x in xs:
        kx = ex.apply(key, [x]) if key else x
        pos = len(out)
        for j in range(len(out) - 1, -1, -1):
            kj = ex.apply(key, [out[j]]) if key else out[j]
            lt = ex.compare(ast.Lt() if not reverse else ast.Gt(), kx, kj)
            if ex.truthy(lt):
                pos = j
            else:
                break
        out.insert(pos, x)
    return out


def _abs(ex, x):
    if is_conc_num(x):
        return abs(x)
    t, isint = num_term(x)
    return SNum(z3.If(t < 0, -t, t), isint)


def _str(ex, v=""):
    if isinstance(v, (str, BStr)):
        return v
    if isinstance(v, bool) or v is None:
        return str(v)
    if isinstance(v, int):
        return str(v)
    if isinstance(v, Fraction):
        return repr(float(v))
    if hasattr(v, "sym_str"):
        return v.sym_str(ex)
    r = OpaqueStr("str()")
    r.args = [v]
    return r


def _next(ex, it, *default):
    xs = ex.iterate(it)
    if xs:
        return xs[0]
    if default:
        return default[0]
    raise PyRaise("StopIteration")


def _next_lazy(ex, it, *default):
    # next(generator expression): evaluate lazily so that later elements are not touched
    if isinstance(it, GenExp) and len(it.node.generators) == 1 and not it.node.generators[0].is_async:
        # next(elt for x in <sequence of symbolic length> if cond): the element at the LEAST matching position, else
        # StopIteration / the default (well-ordering of the naturals; both cases are assumed, not searched)
        g0 = it.node.generators[0]
        seq0 = ex.eval(g0.iter, it.env, it.cls)
        if isinstance(seq0, SymSeq):
            def pred(jt):
                env2 = dict(it.env)
                ex.assign(g0.target, seq0.at(jt), env2, it.cls)
                ts = []
                for c in g0.ifs:
                    v = ex.pure_bool(c, env2, it.cls)
                    ts.append(v.t if isinstance(v, SBool) else z3.BoolVal(bool(v)))
                return z3.And(ts) if ts else z3.BoolVal(True)

            r, j = z3.FreshInt("first"), z3.FreshInt("fj")
            if ex.choice():
                ex.assume(z3.And(0 <= r, r < seq0.length, pred(r)))
                ex.assume(z3.ForAll([j], z3.Implies(z3.And(0 <= j, j < r), z3.Not(pred(j)))))
                env2 = dict(it.env)
                ex.assign(g0.target, seq0.at(r), env2, it.cls)
                return ex.eval(it.node.elt, env2, it.cls)
            ex.assume(z3.ForAll([j], z3.Implies(z3.And(0 <= j, j < seq0.length), z3.Not(pred(j)))))
            if default:
                return default[0]
            raise PyRaise("StopIteration")
    if isinstance(it, GenExp):
        e, env, cls = it.node, it.env, it.cls

        class Found(Exception):
            def __init__(self, v):
                self.v = v

        def emit(env2):
            raise Found(ex.eval(e.elt, env2, cls))

        try:
            ex.comp_iter(e.generators, env, cls, emit)
        except Found as f:
            return f.v
        if default:
            return default[0]
        raise PyRaise("StopIteration")
    return _next(ex, it, *default)


def _hasattr(ex, o, name):
    try:
        ex.getattr(o, name)
        return True
    except PyRaise as r:
        if r.exc == "AttributeError":
            return False
        raise


def _getattr(ex, o, name, *default):
    if not isinstance(name, str):
        raise Unsupported("getattr with a symbolic name")
    try:
        return ex.getattr(o, name)
    except PyRaise as r:
        if r.exc == "AttributeError" and default:
            return default[0]
        raise


def _callable(ex, v):
    return isinstance(v, (Closure, Bound, ClassRef, ModFn, PyMethod)) or callable(v)


def _filter(ex, f, it):
    return [x for x in ex.iterate(it) if ex.truthy(ex.apply(f, [x]))]


def _itemgetter(ex, *items):
    def g(ex_, obj):
        if len(items) == 1:
            return ex_.getitem(obj, items[0])
        return tuple(ex_.getitem(obj, i) for i in items)

    return g


def _exec(ex, code, globs=None, locs=None):
    """exec(source string, globals, locals) for a CONCRETE source string: the statements are executed by the engine itself in
    the given locals mapping (the mapping object is used as the environment, so bindings and in-place updates persist)"""
    if not isinstance(code, str):
        raise Unsupported("exec of a non-constant source")
    env = locs if locs is not None else (globs if globs is not None else {})
    if not isinstance(env, dict) or not all(isinstance(k, str) for k in env):
        raise Unsupported("exec namespace")
    try:
        tree = ast.parse(code)
    except SyntaxError:
        raise PyRaise("SyntaxError", "exec")
    ex.exec_block(tree.body, env, None)
    return None


def _deepcopy(ex, v, memo=None):
    if hasattr(v, "sym_deepcopy"):
        return v.sym_deepcopy(ex)
    memo = {} if memo is None else memo
    if id(v) in memo:
        return memo[id(v)]
    if isinstance(v, list):
        out = []
        memo[id(v)] = out
        out.extend(_deepcopy(ex, x, memo) for x in v)
        return out
    if isinstance(v, dict):
        out = {}
        memo[id(v)] = out
        for k, x in v.items():
            out[k] = _deepcopy(ex, x, memo)
        return out
    if isinstance(v, tuple):
        return tuple(_deepcopy(ex, x, memo) for x in v)
    if isinstance(v, SObj):
        o = SObj(v.cls)
        memo[id(v)] = o
        for k, x in v.fields.items():
            o.fields[k] = _deepcopy(ex, x, memo)
        return o
    if isinstance(v, SymList):
        return SymList(v.arr, v.length, v.is_int)
    return v


def _copy(ex, v):
    if isinstance(v, list):
        return list(v)
    if isinstance(v, dict):
        return dict(v)
    if isinstance(v, SObj):
        o = SObj(v.cls)
        o.fields = dict(v.fields)
        return o
    if isinstance(v, SymList):
        return SymList(v.arr, v.length, v.is_int)
    if isinstance(v, SRef):
        return RefCopy(v)
    if hasattr(v, "sym_copy"):
        return v.sym_copy(ex)
    return v


def _defaultdict(ex, factory=None, *a):
    import collections
    if ((isinstance(factory, ClassRef) and factory.name == "list") or factory is _list) and not a:
        return collections.defaultdict(list)  # the engine indexes dict subclasses natively: a missing key yields a fresh list
    raise Unsupported("defaultdict with this factory")


BUILTINS = {
    "defaultdict": _defaultdict, "any": _any, "all": _all, "round": _round, "float": _float, "int": _int, "range": _range, "len": _len,
    "enumerate": _enumerate, "chain": _chain, "isinstance": _isinstance, "bool": _bool, "sum": _sum,
    "max": _max, "min": _min, "zip": _zip, "set": _set, "list": _list, "tuple": _tuple, "sorted": _sorted,
    "abs": _abs, "str": _str, "next": _next_lazy, "hasattr": _hasattr, "callable": _callable,
    "filter": _filter, "itemgetter": _itemgetter, "deepcopy": _deepcopy, "exec": _exec, "getattr": _getattr, "repr": lambda ex, v: OpaqueStr("repr"),
}


def call_class(ex, name, args, kw):
    if name in BUILTINS and name in ("str", "int", "float", "bool", "list", "tuple", "set"):
        return BUILTINS[name](ex, *args, **kw)
    if name == "dict":
        if args:
            a = args[0]
            if isinstance(a, dict):
                d = dict(a)
            else:
                d = {}
                for kv in ex.iterate(a):
                    k, v = ex.iterate(kv)
                    if not isinstance(k, (str, int, tuple, type(None))):
                        raise Unsupported("dict() with symbolic key")
                    d[k] = v
        else:
            d = {}
        d.update(kw)
        return d
    if name in ("ValueError", "KeyError", "TypeError", "Exception", "NotImplementedError", "IndexError"):
        return ("exc", name, "")
    if name in ex.classes:
        return ex.instantiate(name, args, kw)
    raise Unsupported("constructor " + name)


def modfn(ex, mod, name, args, kw):
    ext = f"{mod}.{name}"
    if ext in ex.abstract:
        return ex.abstract[ext](ex, None, list(args), kw)
    if mod == "re" and name == "match":
        pat, s = args[0], args[1]
        ic = len(args) > 2 and args[2] == ("reflag", "I")
        if isinstance(s, str):
            import re

            m = re.match(pat, s, re.IGNORECASE if ic else 0)
            if m is None:
                return None
            groups = {g: (z3.IntVal(m.start(g)), z3.IntVal(m.end(g))) for g in range(1, (m.re.groups or 0) + 1) if m.group(g) is not None}
            return MatchObj(BStr.const(s), groups)
        if not isinstance(s, BStr):
            raise PyRaise("TypeError", "re.match on non-string")
        ok, groups = regex_match_prefix(s, pat, ic)
        if ex.branch(ok):
            return MatchObj(s, groups)
        return None
    if mod == "math" and name in ("isfinite", "isnan", "isinf"):
        # A-float: floats are modelled as rationals - every modelled number is finite (nan / inf are outside the model and are
        # covered by executed / bounded checks only)
        if isinstance(args[0], (int, Fraction, SNum)) and not isinstance(args[0], bool):
            return name == "isfinite"
        raise Unsupported("math." + name + " of a non-number")
    if mod == "math" and name in ("floor", "ceil"):
        x = args[0]
        if isinstance(x, int):
            return x
        if isinstance(x, Fraction):
            import math

            return math.floor(x) if name == "floor" else math.ceil(x)
        t, isint = num_term(x)
        if isint:
            return x
        k = z3.FreshInt(name)
        if name == "floor":
            ex.assume(z3.And(z3.ToReal(k) <= t, t < z3.ToReal(k) + 1))
        else:
            ex.assume(z3.And(z3.ToReal(k) >= t, t > z3.ToReal(k) - 1))
        return SNum(k, True)
    if mod == "copy" and name == "copy":
        return _copy(ex, args[0])
    if mod == "copy" and name == "deepcopy":
        return _deepcopy(ex, args[0])
    raise Unsupported(f"{mod}.{name}")


def pymethod(ex, o, name, args, kw):
    if isinstance(o, MatchObj) and name == "group":
        g = args[0] if args else 0
        if g not in o.groups:
            raise Unsupported("match group")
        st, en = o.groups[g]
        return bstr_substr(o.s, st, en)
    if isinstance(o, dict):
        if name == "get":
            if isinstance(args[0], (str, int, tuple, type(None))) and not isinstance(args[0], bool) and args[0] not in o:
                return args[1] if len(args) > 1 else None  # dict.get never goes through __missing__
            try:
                return ex.getitem(o, args[0])
            except PyRaise as r:
                if r.exc == "KeyError":
                    return args[1] if len(args) > 1 else None
                raise
        if name == "keys":
            return list(o.keys())
        if name == "values":
            return list(o.values())
        if name == "items":
            return [(k, v) for k, v in o.items()]
        if name == "setdefault":
            k = args[0]
            if ex.truthy(ex.contains(o, k)):
                return ex.getitem(o, k)
            ex.setitem(o, k, args[1] if len(args) > 1 else None)
            return ex.getitem(o, k)
        if name == "copy":
            return dict(o)
        if name == "update":
            o.update(args[0])
            return None
        if name == "pop":
            try:
                return o.pop(args[0])
            except KeyError:
                if len(args) > 1:
                    return args[1]
                raise PyRaise("KeyError")
    if isinstance(o, list):
        if name == "copy":
            return list(o)
        if name == "append":
            o.append(args[0])
            return None
        if name == "extend":
            o.extend(list(ex.iterate(args[0])))
            return None
        if name == "insert":
            o.insert(args[0], args[1])
            return None
        if name == "remove":
            for i, x in enumerate(o):
                if ex.truthy(ex.eq(x, args[0])):
                    del o[i]
                    return None
            raise PyRaise("ValueError", "list.remove")
        if name == "index":
            for i, x in enumerate(o):
                if ex.truthy(ex.eq(x, args[0])):
                    return i
            raise PyRaise("ValueError", "list.index")
        if name == "count":
            return sum(1 for x in o if ex.truthy(ex.eq(x, args[0])))
        if name == "reverse":
            o.reverse()
            return None
        if name == "sort":
            s = sort_list(ex, list(o), kw.get("key"), ex.truthy(kw.get("reverse", False)))
            o[:] = s
            return None
        if name == "pop":
            try:
                return o.pop(*args)
            except IndexError:
                raise PyRaise("IndexError")
        if name == "add" and isinstance(o, SetVal):
            if not any(ex.truthy(ex.eq(args[0], y)) for y in o):
                o.append(args[0])
            return None
        if name == "intersection" and isinstance(o, SetVal):
            other = list(ex.iterate(args[0]))
            return SetVal([x for x in o if any(ex.truthy(ex.eq(x, y)) for y in other)])
    if isinstance(o, SymSeq):
        if name == "index":
            if getattr(o, "index_fn", None) is not None:
                pos = o.index_fn(_elem_term(args[0]))  # contract-supplied definitional extension of list.index
            else:
                pos = seq_index_model(ex, o, args[0])
            if ex.branch(pos >= 0):
                return SNum(pos, True)
            raise PyRaise("ValueError", "list.index")
        if name == "copy":
            return o
    if isinstance(o, SymList) and name == "copy":
        return SymList(o.arr, o.length, o.is_int)
    if isinstance(o, (BStr, str)):
        if name == "format":
            if isinstance(o, str) and all(isinstance(a, (str, int)) and not isinstance(a, bool) for a in list(args) + list(kw.values())):
                try:
                    return o.format(*args, **kw)  # concrete template and concrete str/int arguments: the real string
                except (IndexError, KeyError, ValueError):
                    raise PyRaise("ValueError", "str.format")
            r = OpaqueStr("format")
            r.template, r.args, r.kwargs = o, list(args), dict(kw)  # kept so that contracts can state what is shown
            return r
        if isinstance(o, str) and all(isinstance(a, (str, int)) for a in args):
            if name in ("join",):
                pass
            else:
                try:
                    return getattr(o, name)(*args)
                except ValueError:
                    raise PyRaise("ValueError", "str." + name)
        if name == "join":
            if isinstance(args[0], GenExp):
                # join(f(x) for x in xs) is join([f(x) for x in xs]): evaluate the generator like the comprehension
                args = [ex.iterate(args[0])] + list(args[1:])
            if hasattr(args[0], "sym_join"):
                return args[0].sym_join(ex, o)
            if isinstance(args[0], SymSeq):
                r = OpaqueStr("join")
                r.sep, r.seq = o, args[0]
                return r
            parts = ex.iterate(args[0])
            if isinstance(o, str) and all(isinstance(p, str) for p in parts):
                return o.join(parts)
            if isinstance(o, str) and all(isinstance(p, (str, OpaqueStr)) for p in parts):
                # a join of finitely many known pieces is their concatenation: keep the pieces (see binop Add)
                r = OpaqueStr("concat")
                r.parts = []
                for i_, p in enumerate(parts):
                    if i_ and o:
                        r.parts.append(o)
                    r.parts += list(p.parts) if isinstance(p, OpaqueStr) and p.desc == "concat" and hasattr(p, "parts") else [p]
                return r
            return OpaqueStr("join")
        s = tostr(o)
        if name == "upper":
            return bstr_map(s, char_upper)
        if name == "lower":
            return bstr_map(s, char_lower)
        if name == "isdigit":
            return SBool(z3.And([s.length >= 1] + [z3.Or(s.length <= i, char_isdigit(c)) for i, c in enumerate(s.chars)]))
        if name == "startswith":
            a = args[0]
            if isinstance(a, tuple):
                return SBool(z3.Or([bstr_startswith(s, p) for p in a]))
            return SBool(bstr_startswith(s, a))
        if name == "rstrip":
            chars = args[0]
            if not isinstance(chars, str):
                raise Unsupported("rstrip arg")
            return bstr_rstrip(s, lambda c: z3.Or([c == ord(x) for x in chars]))
        if name == "index" and isinstance(args[0], str) and len(args[0]) == 1:
            r = bstr_find_char(s, args[0])
            if ex.branch(r < 0):
                raise PyRaise("ValueError", "substring not found")
            return SNum(r, True)
        raise Unsupported(f"str.{name} on symbolic string")
    if isinstance(o, OpaqueStr):
        return o.sym_method(ex, name, args, kw)
    if hasattr(o, "sym_method"):
        return o.sym_method(ex, name, args, kw)
    if isinstance(o, tuple) and o[:1] == ("exc",):
        raise Unsupported("exception object method")
    if isinstance(o, (SNum, int, Fraction)) or o is None or isinstance(o, (bool, SBool)):
        raise PyRaise("AttributeError", f"{type(o).__name__}.{name}")
    raise Unsupported(f"method {type(o).__name__}.{name}")
