"""Unit scheduling, obligation discharge, replay, known findings, evidence (DESIGN.md sections 2.3, 3).

Exit codes of a check: 0 held (possibly with KNOWN-FINDING lines) / 1 violation / 2 undecided (neither
proof nor stand-in could decide a decisive obligation) / 3 checker crash.
"""
import hashlib
import importlib
import json
import multiprocessing as mp
import os
import re
import subprocess
import sys
import tempfile
import time
import traceback

import z3

from .sym import Unsupported, PyRaise

VERIF = os.path.dirname(os.path.dirname(os.path.abspath(__file__)))
REPO = os.environ.get("OSACA_REPO", "/repo")
VENV_PY = "/venv/bin/python"
Z3_TIMEOUT_MS = int(os.environ.get("PYVC_Z3_TIMEOUT_MS", "10000"))


# ------------------------------------------------------------------ discharge
def _cli_fallback(smt2, budget_s=20):
    """try the other installed solvers on an SMT-LIB dump; returns (verdict, backend)"""
    with tempfile.NamedTemporaryFile("w", suffix=".smt2", delete=False, dir="/dev/shm" if os.path.isdir("/dev/shm") else None) as f:
        f.write(smt2)
        path = f.name
    try:
        for backend, cmd in (
            ("cvc5-1.0.3", ["/usr/bin/cvc5", f"--tlimit={budget_s * 1000}", path]),
            ("z3-4.8.12", ["/usr/bin/z3", f"-T:{budget_s}", path]),
        ):
            try:
                out = subprocess.run(cmd, capture_output=True, text=True, timeout=budget_s + 10).stdout.strip().split("\n")[0]
            except Exception:
                continue
            if out in ("unsat", "sat"):
                return out, backend
        return "unknown", None
    finally:
        os.unlink(path)


def discharge(hyps, goal, want_model=True, timeout_ms=None):
    """Is `hyps => goal` valid?  returns dict(status, backend, time, model)"""
    t0 = time.time()
    if goal is True:
        return dict(status="discharged", backend="concrete", time=0.0, model=None)
    if isinstance(goal, bool):
        goal = z3.BoolVal(goal)
    s = z3.Solver()
    s.set("timeout", timeout_ms or Z3_TIMEOUT_MS)
    for h in hyps:
        s.add(h)
    s.add(z3.Not(goal))
    r = s.check()
    if r == z3.unsat:
        return dict(status="discharged", backend="z3-" + z3.get_version_string(), time=time.time() - t0, model=None)
    if r == z3.sat:
        return dict(status="failed", backend="z3-" + z3.get_version_string(), time=time.time() - t0, model=s.model())
    verdict, backend = _cli_fallback(s.to_smt2())
    if verdict == "unsat":
        return dict(status="discharged", backend=backend, time=time.time() - t0, model=None)
    if verdict == "sat":
        return dict(status="failed", backend=backend, time=time.time() - t0, model=None)
    return dict(status="unknown", backend=None, time=time.time() - t0, model=None, reason=s.reason_unknown())


def satisfiable(hyps, timeout_ms=10000):
    s = z3.Solver()
    s.set("timeout", timeout_ms)
    for h in hyps:
        s.add(h)
    return s.check()


def _has_quant(f):
    seen = set()
    stack = [f]
    while stack:
        x = stack.pop()
        i = x.get_id()
        if i in seen:
            continue
        seen.add(i)
        if z3.is_quantifier(x):
            return True
        stack.extend(x.children())
    return False


def concretize_value(v, model):
    """engine value -> plain JSON-able Python value under a solver model (used by the differential check)"""
    from .sym import SBool, SNum, BStr, SObj, StrId, Fraction
    ev = lambda t: model.eval(t, model_completion=True)
    if isinstance(v, SBool):
        return z3.is_true(ev(v.t))
    if isinstance(v, SNum):
        x = ev(v.t)
        if v.is_int:
            return x.as_long()
        return float(Fraction(x.numerator_as_long(), x.denominator_as_long()))
    if isinstance(v, Fraction):
        return float(v)
    if isinstance(v, BStr):
        return v.concretize(model)
    if isinstance(v, StrId):
        return StrId.decode(ev(v.t).as_long())
    if isinstance(v, (list, tuple)):
        return [concretize_value(x, model) for x in v]
    if isinstance(v, dict):
        return {str(k): concretize_value(x, model) for k, x in v.items()}
    if isinstance(v, SObj):
        return {"__obj__": v.cls, **{k: concretize_value(x, model) for k, x in v.fields.items()}}
    if v is None or isinstance(v, (bool, int, float, str)):
        return v
    return repr(v)


class Results:
    """collects obligation records of one unit"""

    def __init__(self, unit_id):
        self.unit = unit_id
        self.obls = []
        self.counts = {}
        self.notes = []
        self.assumptions = []
        self.paths = 0
        self.vacuous = 0
        self.diffs = []

    def _oid(self, kind):
        n = self.counts.get(kind, 0)
        self.counts[kind] = n + 1
        return f"{self.unit}/{kind}#{n}"

    def add(self, kind, hyps, goal, concretize=None, label="P", timeout_ms=None):
        r = discharge(hyps, goal, timeout_ms=timeout_ms)
        rec = dict(id=self._oid(kind), status=r["status"], backend=r["backend"], time=round(r["time"], 4), label=label)
        if r["status"] == "failed":
            rec["cex"] = None
            if r["model"] is not None and concretize is not None:
                try:
                    rec["cex"] = concretize(r["model"])
                except Exception as e:  # concretisation is best effort
                    rec["cex_error"] = repr(e)
        if r["status"] == "unknown":
            rec["reason"] = r.get("reason")
        self.obls.append(rec)
        return rec

    def add_diff(self, paths, replay, args, predict=None, limit=25):
        """differential check of the ENGINE: for sampled returning/raising paths pick a model of the path condition, run the
        real function natively on the concretised inputs (replay/native.py --batch) and compare with what the engine computed"""
        cand = [p for p in paths if p.outcome[0] in ("ret", "exc")]
        step = max(1, len(cand) // limit)
        for p in cand[::step][:limit]:
            s_ = z3.Solver()
            s_.set("timeout", 5000)
            for c in p.pc:
                s_.add(c)
            if s_.check() != z3.sat:
                continue
            m = s_.model()
            try:
                a = args(m, p)
                if p.outcome[0] == "ret":
                    want = predict(p.outcome[1], m, p) if predict else concretize_value(p.outcome[1], m)
                else:
                    want = {"__raises__": p.outcome[1]}
            except Exception as e:
                continue
            self.diffs.append(dict(replay=replay, args=a, predicted=want))

    def add_paths(self, paths, post=None, exc_ok=None, concretize=None, kind="post", label="P", check_vacuity=True):
        """obligations of explored paths: the ones raised during execution (loop init/step, yields, callee
        preconditions) + the postcondition on every returning path + exception-freedom on raising ones"""
        self.paths += len(paths)
        nret = 0
        for p in paths:
            conc = (lambda m, p=p: concretize(m, p)) if concretize else None
            if check_vacuity and len(paths) <= 400:
                # vacuity guard: quantifier-free part of every path condition, full hypotheses of the first path
                qf = [c for c in p.pc if not _has_quant(c)]
                if satisfiable(qf, 5000) == z3.unsat or (p is paths[0] and len(qf) != len(p.pc) and satisfiable(p.pc, 5000) == z3.unsat):
                    self.vacuous += 1
                    continue
            for name, pc, goal in p.obligations:
                self.add(name, pc, goal, conc, label)
            if p.outcome[0] == "ret":
                nret += 1
                if post is not None:
                    self.add(kind, p.pc, post(p.outcome[1], p), conc, label)
            elif p.outcome[0] == "exc":
                ok = exc_ok(p) if exc_ok is not None else False
                rec = self.add("exception-freedom[" + p.outcome[1] + "]", p.pc, ok, conc, label)
                if rec["status"] == "failed":
                    rec["detail"] = f"raises {p.outcome[1]}({p.outcome[2]})"
        return nret

    def note(self, s):
        self.notes.append(s)

    def to_dict(self):
        return dict(unit=self.unit, obligations=self.obls, notes=self.notes, assumptions=self.assumptions,
                    paths=self.paths, vacuous_paths=self.vacuous)


def run_diffs(res):
    """engine-vs-CPython: batch-execute the natively replayable cases and compare"""
    with tempfile.NamedTemporaryFile("w", suffix=".json", delete=False) as f:
        json.dump(res.diffs, f, default=str)
        path = f.name
    try:
        env = dict(os.environ)
        env["PYTHONPATH"] = REPO + os.pathsep + VERIF
        p = subprocess.run([VENV_PY, os.path.join(VERIF, "replay", "native.py"), "--batch", path], capture_output=True, text=True, timeout=600, env=env, cwd=REPO)
        lines = [l for l in p.stdout.strip().split("\n") if l.startswith("[")]
        got = json.loads(lines[-1]) if lines else None
    finally:
        os.unlink(path)
    if got is None:
        res.note("differential check could not run: " + (p.stderr[-300:] if p else ""))
        return
    n_bad = 0

    def close(a, b):
        if isinstance(a, (int, float)) and isinstance(b, (int, float)) and not isinstance(a, bool) and not isinstance(b, bool):
            return abs(float(a) - float(b)) <= 1e-9 * max(1.0, abs(float(a)))
        if isinstance(a, list) and isinstance(b, list):
            return len(a) == len(b) and all(close(x, y) for x, y in zip(a, b))
        if isinstance(a, dict) and isinstance(b, dict):
            return set(a) == set(b) and all(close(a[k], b[k]) for k in a)
        return a == b

    for case, g in zip(res.diffs, got):
        if not close(case["predicted"], g):
            n_bad += 1
            if n_bad <= 3:
                res.obls.append(dict(id=res._oid("engine-vs-cpython"), status="failed", backend="differential", time=0, label="D", checker=True,
                                     detail=f"pyvc predicted {case['predicted']!r} but CPython computed {g!r} for {case['replay']}({case['args']})"))
    res.note(f"differential check of the engine against CPython: {len(got)} path witnesses, {n_bad} mismatches")
    res.diff_cases = len(got)


# ------------------------------------------------------------------ units
class Unit:
    def __init__(self, uid, fn, label="P", functions=(), decisive=True, timeout=600, tier="quick", kind="prove", desc=""):
        self.id, self.fn, self.label, self.functions = uid, fn, label, list(functions)
        self.decisive, self.timeout, self.tier, self.kind, self.desc = decisive, timeout, tier, kind, desc


def _run_unit(args):
    modname, uid, tier, seed = args
    t0 = time.time()
    try:
        sys.setrecursionlimit(20000)
        mod = importlib.import_module(modname)
        unit = [u for u in mod.units(tier) if u.id == uid][0]
        res = unit.fn(Results(uid)) if unit.kind == "prove" else unit.fn(tier, seed)
        if isinstance(res, Results) and res.diffs:
            run_diffs(res)
        d = res.to_dict() if isinstance(res, Results) else res
        d.setdefault("unit", uid)
        d.setdefault("status", "ok")
    except Unsupported as e:
        d = dict(unit=uid, status="unsupported", reason=str(e), obligations=[])
    except Exception as e:
        d = dict(unit=uid, status="crash", reason=repr(e), trace=traceback.format_exc()[-3000:], obligations=[])
    d["wall_s"] = round(time.time() - t0, 3)
    return d


def run_units(modname, units, tier, seed, jobs=None):
    jobs = jobs or min(16, os.cpu_count() or 4)
    ctx = mp.get_context("fork")
    out = {}
    with ctx.Pool(jobs, maxtasksperchild=1) as pool:
        pend = {u.id: pool.apply_async(_run_unit, ((modname, u.id, tier, seed),)) for u in units}
        for u in units:
            try:
                out[u.id] = pend[u.id].get(timeout=u.timeout)
            except mp.TimeoutError:
                out[u.id] = dict(unit=u.id, status="timeout", reason=f"unit exceeded {u.timeout}s", obligations=[], wall_s=u.timeout)
        pool.terminate()
    return out


# ------------------------------------------------------------------ replay
def native_replay(prop, oid, cex):
    """cex = dict(replay=<function name in /verif/replay/native.py>, args=..., ...).  Executes the real
    code under /venv/bin/python.  returns (reproduced: bool|None, detail, path)"""
    d = os.path.join(os.environ.get("PYVC_REPLAY_DIR") or os.path.join(VERIF, "replays"), prop)
    os.makedirs(d, exist_ok=True)
    path = os.path.join(d, re.sub(r"[^A-Za-z0-9_.#-]", "_", oid) + ".json")
    rec = dict(property=prop, obligation=oid, counterexample=cex)
    reproduced, detail = None, "no counter-model available"
    if cex and cex.get("replay"):
        try:
            env = dict(os.environ)
            env["PYTHONPATH"] = REPO + os.pathsep + VERIF
            p = subprocess.run([VENV_PY, os.path.join(VERIF, "replay", "native.py"), json.dumps(cex)], capture_output=True,
                               text=True, timeout=300, env=env, cwd=REPO)
            last = [l for l in p.stdout.strip().split("\n") if l.startswith("{")]
            if last:
                r = json.loads(last[-1])
                reproduced, detail = r.get("violates"), r.get("detail")
            else:
                detail = "replay produced no verdict: " + (p.stderr[-500:] or p.stdout[-500:])
        except Exception as e:
            detail = "replay failed to run: " + repr(e)
    rec["replayed_on_real_code"] = reproduced
    rec["replay_detail"] = detail
    with open(path, "w") as f:
        json.dump(rec, f, indent=1, default=str)
    return reproduced, detail, path


def load_known():
    p = os.path.join(VERIF, "known_findings.json")
    if not os.path.exists(p):
        return []
    return json.load(open(p)).get("findings", [])


def finding_matches(f, prop, oid, key):
    if f.get("property") != prop:
        return False
    if "key" in f and key is not None and f["key"] == key:
        return True
    return False


# ------------------------------------------------------------------ main
def function_rows(modname, tier):
    mod = importlib.import_module(modname)
    rows = []
    for u in mod.units(tier):
        for fn in u.functions:
            rows.append((u.id, fn))
    return rows


def source_sha(path, qualname):
    import ast

    try:
        src = open(path).read()
        tree = ast.parse(src)
        parts = qualname.split(".")
        body = tree.body
        node = None
        for pname in parts:
            node = next(n for n in body if isinstance(n, (ast.FunctionDef, ast.ClassDef)) and n.name == pname)
            body = getattr(node, "body", [])
        seg = "\n".join(src.split("\n")[node.lineno - 1 : node.end_lineno])
        return hashlib.sha256(seg.encode()).hexdigest()[:16], node.lineno
    except Exception:
        return None, None


def main(argv=None):
    argv = argv or sys.argv[1:]
    prop = argv[0]
    tier = "quick"
    if "--tier" in argv:
        tier = argv[argv.index("--tier") + 1]
    tier = os.environ.get("VERIF_TIER", tier)
    seed = int(os.environ.get("VERIF_SEED", "0"))
    only = argv[argv.index("--unit") + 1] if "--unit" in argv else None
    verbose = "-v" in argv
    t0 = time.time()
    modname = "contracts." + prop.lower()
    sys.path.insert(0, VERIF)
    try:
        mod = importlib.import_module(modname)
        units = mod.units(tier)
        if only:
            units = [u for u in units if only in u.id]
        results = run_units(modname, units, tier, seed)
    except Exception:
        traceback.print_exc()
        print(f"CHECKER-CRASH property={prop}")
        return 3
    known = load_known()
    n_obl = n_dis = 0
    violations, knowns, undecided, crashes = [], [], [], []
    rows, samples, assumptions, bounded = [], [], set(getattr(mod, "ASSUMPTIONS", [])), []
    solver_s = 0.0
    backends = {}
    by_label = {}
    for u in units:
        r = results[u.id]
        obls = r.get("obligations", [])
        if r["status"] in ("unsupported", "timeout"):
            undecided.append((u, r.get("reason")))
        elif r["status"] == "crash" and u.kind == "prove":
            # the contract could not be evaluated on this code (e.g. a loop-carried local that an invariant names was
            # renamed): that is "undecided", never an alarm - the bounded floor of the check decides (DESIGN 2.5)
            undecided.append((u, "contract not applicable to this code: " + str(r.get("reason"))))
            if verbose and r.get("trace"):
                print(r["trace"])
        elif r["status"] == "crash":
            crashes.append((u, r.get("reason"), r.get("trace")))
        dis = sum(1 for o in obls if o["status"] == "discharged")
        if u.kind == "prove":
            n_obl += len(obls)
            n_dis += dis
            for o in obls:
                lb = by_label.setdefault(o.get("label", u.label), dict(obligations=0, discharged=0))
                lb["obligations"] += 1
                lb["discharged"] += 1 if o["status"] == "discharged" else 0
            for o in obls:
                solver_s += o.get("time", 0)
                if o.get("backend"):
                    backends[o["backend"]] = backends.get(o["backend"], 0) + 1
            if r["status"] == "ok" and not obls:
                crashes.append((u, "unit generated zero obligations (vacuous)", None))
            if r.get("paths") and r.get("vacuous_paths") == r.get("paths"):
                crashes.append((u, "all paths vacuous: contradictory precondition", None))
        for o in obls:
            if o["status"] == "failed" and o.get("checker"):
                crashes.append((u, "engine disagrees with CPython: " + str(o.get("detail")), None))
                continue
            if o["status"] == "failed":
                key = o.get("key") or (o.get("cex") or {}).get("key")
                kf = [f for f in known if finding_matches(f, prop, o["id"], key)]
                if kf:
                    knowns.append((o, kf[0]))
                else:
                    violations.append((u, o))
            elif o["status"] == "unknown":
                undecided.append((u, f"{o['id']}: solver unknown ({o.get('reason')})"))
        for a in r.get("assumptions", []):
            assumptions.add(a)
        if u.kind == "bounded":
            bounded.append(dict(unit=u.id, evaluations=r.get("evaluations", 0), distinct_nontrivial=r.get("distinct_nontrivial", 0),
                                rule=r.get("rule", ""), samples=r.get("samples", [])[:5], exhaustive=r.get("exhaustive", False),
                                failures=len([o for o in obls if o["status"] == "failed"])))
        for fn in u.functions:
            path, qn = fn
            sha, line = source_sha(os.path.join(REPO, path), qn)
            rows.append(dict(unit=u.id, function=qn, file=path, line=line, source_sha256_16=sha, label=u.label,
                             obligations=len(obls), discharged=dis, status=r["status"], wall_s=r.get("wall_s"),
                             paths=r.get("paths"), notes=r.get("notes", [])[:6], reason=r.get("reason")))
        if obls and len(samples) < 12:
            samples.append({k: obls[0].get(k) for k in ("id", "status", "backend", "time")})
        if verbose:
            print(f"[{r['status']}] {u.id} obligations={len(obls)} discharged={dis} wall={r.get('wall_s')} {r.get('reason') or ''}")
            for n in r.get("notes", []):
                print("    note:", n)
    # ---- report
    exit_code = 0
    printed = set()
    for o, f in knowns:
        if f.get("key") not in printed:
            printed.add(f.get("key"))
            print(f"KNOWN-FINDING: property={prop} {f.get('what')}")
    per_unit = {}
    shown = []
    for u, o in violations:
        per_unit[u.id] = per_unit.get(u.id, 0) + 1
        if per_unit[u.id] <= 6:
            shown.append((u, o))
    for uid, n in per_unit.items():
        if n > 6:
            print(f"NOTE unit={uid}: {n} failing obligations, the first 6 are replayed and reported")
    for u, o in shown:
        cex = o.get("cex")
        if o.get("replayed") is not None:  # bounded units replay on the real code themselves
            reproduced, detail = o.get("replayed"), o.get("detail")
            d = os.path.join(os.environ.get("PYVC_REPLAY_DIR") or os.path.join(VERIF, "replays"), prop)
            os.makedirs(d, exist_ok=True)
            path = os.path.join(d, re.sub(r"[^A-Za-z0-9_.#-]", "_", o["id"]) + ".json")
            json.dump(dict(property=prop, obligation=o["id"], counterexample=cex, replayed_on_real_code=reproduced,
                           replay_detail=detail), open(path, "w"), indent=1, default=str)
        else:
            reproduced, detail, path = native_replay(prop, o["id"], cex)
        suffix = "" if reproduced else " no-failing-input-found"
        print(f"VIOLATION property={prop} replay={path} obligation={o['id']} detail={str(o.get('detail') or detail)[:300]!r}{suffix}")
        exit_code = 1
    for u, reason, trace in crashes:
        print(f"CHECKER-CRASH unit={u.id}: {reason}")
        if trace and verbose:
            print(trace)
    for u, reason in undecided:
        print(f"UNDECIDED unit={getattr(u, 'id', u)}: {reason}")
    if exit_code == 0 and crashes:
        exit_code = 3
    decisive_undecided = [u for u, _ in undecided if getattr(u, "decisive", True) and u.kind == "prove" and not getattr(u, "floor", None)]
    level = getattr(mod, "LEVEL", "proof")
    if exit_code == 0 and undecided:
        # undecided proof units: the check still holds if a bounded floor of this check ran and passed; otherwise nothing
        # decided the property on this code -> exit 2 (undecided), never a VIOLATION
        floors_ok = [u for u in units if u.kind == "bounded" and results[u.id].get("status") == "ok"]
        if not floors_ok:
            exit_code = 2
        else:
            print(f"NOTE {len(undecided)} proof unit(s) undecided; decided by the bounded floor(s) {[u.id for u in floors_ok]} (evidence level downgraded for this run)")
    if exit_code == 0 and level == "proof" and n_obl == 0 and not bounded:
        exit_code = 2
    ev = dict(
        property_id=prop, tier=tier, seed=seed, level=level,
        coverage=dict(
            obligations=n_obl, discharged=n_dis,
            checker_cmd=f"/verif/check {prop} --tier {tier}",
            trusted_base=sorted(getattr(mod, "TRUSTED", [])),
            by_label=by_label,
            label_legend="P: all inputs of the stated precondition (unbounded); L: lemma with explicit induction; S: source scan; Pb: all VALUES symbolic but "
                         "one structural dimension bounded as stated per unit - reported as bounded structure, not as unbounded proof; B units are listed under 'bounded' and never counted",
            functions=rows, backends=backends, solver_s=round(solver_s, 3),
            bounded=bounded, samples=samples or [dict(note="no obligations")],
            evaluations=sum(b["evaluations"] for b in bounded) + n_obl,
            distinct_nontrivial=sum(b["distinct_nontrivial"] for b in bounded) + n_dis,
            rule=getattr(mod, "RULE", "obligations generated from the AST of the functions listed; bounded families as per unit"),
            explanation=getattr(mod, "EXPLANATION", ""),
            known_findings=[f.get("what") for _, f in knowns],
            undecided=[f"{getattr(u, 'id', u)}: {r}" for u, r in undecided],
        ),
        assumptions=sorted(assumptions),
        wall_s=round(time.time() - t0, 2),
        violations=len(violations),
    )
    evdir = os.environ.get("PYVC_EVIDENCE_DIR") or os.path.join(VERIF, "evidence")  # (self-test runs write elsewhere)
    os.makedirs(evdir, exist_ok=True)
    with open(os.path.join(evdir, f"{prop}.json"), "w") as f:
        json.dump(ev, f, indent=1, default=str)
    print(f"{prop} tier={tier}: units={len(units)} obligations={n_obl} discharged={n_dis} bounded_units={len(bounded)} "
          f"violations={len(violations)} known={len(knowns)} undecided={len(undecided)} wall={ev['wall_s']}s exit={exit_code}")
    return exit_code


if __name__ == "__main__":
    sys.exit(main())
