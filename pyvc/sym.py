"""Symbolic value domain of pyvc (see DESIGN.md section 2.2).

int   -> z3 Int (exact: Python ints are unbounded)
float -> z3 Real (assumption A-float: IEEE rounding is not modelled)
str   -> BStr: fixed-capacity vector of code points + symbolic length, or StrId (equality only)
refs  -> SRef into an uninterpreted heap described by a Schema; SymSeq for unbounded sequences
objs  -> SObj: concrete structure with symbolic leaves, Python identity
"""
import fractions
import z3

Fraction = fractions.Fraction


class Unsupported(Exception):
    """Construct outside the verified subset: the unit is *undecided*, never a violation."""


class PyRaise(Exception):
    """A Python exception raised by the program under verification."""

    def __init__(self, exc, msg=""):
        super().__init__(exc, msg)
        self.exc = exc
        self.msg = msg

    def __str__(self):
        return f"{self.exc}({self.msg})"


EXC_PARENTS = {
    "KeyError": "LookupError",
    "IndexError": "LookupError",
    "LookupError": "Exception",
    "ValueError": "Exception",
    "TypeError": "Exception",
    "AttributeError": "Exception",
    "AssertionError": "Exception",
    "StopIteration": "Exception",
    "ZeroDivisionError": "ArithmeticError",
    "ArithmeticError": "Exception",
    "NotImplementedError": "RuntimeError",
    "RuntimeError": "Exception",
    "ParseException": "Exception",
    "pp.ParseException": "Exception",
    "Exception": "BaseException",
}


def exc_matches(raised, handler):
    raised = raised.split(".")[-1]
    handler = handler.split(".")[-1]
    c = raised
    while c:
        if c == handler:
            return True
        c = EXC_PARENTS.get(c)
    return False


# ------------------------------------------------------------------ scalars
class SBool:
    __slots__ = ("t",)

    def __init__(self, t):
        self.t = z3.BoolVal(t) if isinstance(t, bool) else t

    def __repr__(self):
        return f"SBool({self.t})"


class SNum:
    """int (is_int) or float (Real)"""

    __slots__ = ("t", "is_int")

    def __init__(self, t, is_int):
        self.t = t
        self.is_int = is_int

    def __repr__(self):
        return f"SNum({self.t},{'int' if self.is_int else 'real'})"


def is_num(v):
    return isinstance(v, (SNum, int, Fraction)) and not isinstance(v, bool)


def is_conc_num(v):
    return isinstance(v, (int, Fraction)) and not isinstance(v, bool)


def num_term(v):
    """-> (z3 term, is_int)"""
    if isinstance(v, SNum):
        return v.t, v.is_int
    if isinstance(v, bool):
        return z3.IntVal(int(v)), True
    if isinstance(v, int):
        return z3.IntVal(v), True
    if isinstance(v, Fraction):
        return z3.RealVal(str(v)), False
    if isinstance(v, SBool):
        return z3.If(v.t, z3.IntVal(1), z3.IntVal(0)), True
    raise Unsupported("num of " + type(v).__name__)


def real_term(v):
    t, isint = num_term(v)
    return z3.ToReal(t) if isint else t


def bool_term(v):
    if isinstance(v, SBool):
        return v.t
    if isinstance(v, bool):
        return z3.BoolVal(v)
    raise Unsupported("bool_term of " + type(v).__name__)


class StrId:
    """string with equality only, represented by an Int code; concrete strings get interned codes"""

    __slots__ = ("t",)
    _intern = {}

    def __init__(self, t):
        self.t = t

    @classmethod
    def code(cls, s):
        if s not in cls._intern:
            cls._intern[s] = 1000 + len(cls._intern)
        return cls._intern[s]

    @classmethod
    def const(cls, s):
        return StrId(z3.IntVal(cls.code(s)))

    @classmethod
    def decode(cls, code):
        for s, c in cls._intern.items():
            if c == code:
                return s
        return f"<str#{code}>"


class OpaqueStr:
    """result of str.format / repr on symbolic data: only ever used in messages"""

    def __init__(self, desc=""):
        self.desc = desc

    # Everything that depends on the CHARACTERS of such a string is unconstrained (a fresh value per use): sound for
    # universally quantified postconditions, which may only talk about the recorded pieces / arguments.
    def sym_len(self, ex):
        t = z3.FreshInt("opaque_len")
        ex.assume(t >= 0)
        return SNum(t, True)

    def sym_contains(self, ex, item):
        return SBool(z3.FreshBool("opaque_in"))

    def sym_getslice(self, ex, lo, hi, step):
        r = OpaqueStr("slice")
        r.of, r.bounds = self, (lo, hi, step)
        if hasattr(self, "parts"):
            r.parts = list(self.parts)  # a superset of what the slice shows
        return r

    def sym_method(self, ex, name, args, kw):
        if name == "format":
            r = OpaqueStr("format")
            r.template, r.args, r.kwargs = self, list(args), dict(kw)
            return r
        if name in ("split", "rsplit", "splitlines"):
            return OpaqueStrList(self)
        r = OpaqueStr(name)
        r.of = self
        return r


class OpaqueStrList:
    """str.split of an opaque string: at least one piece, every piece opaque"""

    def __init__(self, of):
        self.of = of

    def sym_len(self, ex):
        t = z3.FreshInt("opaque_pieces")
        ex.assume(t >= 1)
        return SNum(t, True)

    def sym_getitem(self, ex, i):
        if isinstance(i, int) and i in (0, -1):
            r = OpaqueStr("split-item")
            r.of = self.of
            return r
        raise Unsupported("piece of an opaque split beyond the first/last")


# ------------------------------------------------------------------ bounded strings
class BStr:
    """bounded string: fixed capacity list of z3 Int code points, z3 Int length; chars >= length are 0"""

    def __init__(self, chars, length):
        self.chars = list(chars)
        self.length = length if not isinstance(length, int) else z3.IntVal(length)

    @property
    def cap(self):
        return len(self.chars)

    @staticmethod
    def const(s):
        return BStr([z3.IntVal(ord(c)) for c in s], z3.IntVal(len(s)))

    @staticmethod
    def fresh(name, cap):
        cs = [z3.Int(f"{name}_c{i}") for i in range(cap)]
        return BStr(cs, z3.Int(f"{name}_len"))

    def wf(self):
        cons = [self.length >= 0, self.length <= self.cap]
        for i, c in enumerate(self.chars):
            cons.append(z3.If(self.length > i, z3.And(c >= 1, c < 128), c == 0))
        return z3.And(cons)

    def is_one_of(self, words):
        return z3.Or([bstr_eq(self, w) for w in words])

    def concretize(self, model):
        n = model.eval(self.length, model_completion=True).as_long()
        return "".join(chr(model.eval(c, model_completion=True).as_long()) for c in self.chars[:n])


def tostr(v):
    if isinstance(v, str):
        return BStr.const(v)
    return v


def bstr_eq(a, b):
    a, b = tostr(a), tostr(b)
    n = max(a.cap, b.cap)
    cons = [a.length == b.length]
    for i in range(n):
        ca = a.chars[i] if i < a.cap else z3.IntVal(0)
        cb = b.chars[i] if i < b.cap else z3.IntVal(0)
        cons.append(ca == cb)
    return z3.And(cons)


def char_upper(c):
    return z3.If(z3.And(c >= 97, c <= 122), c - 32, c)


def char_lower(c):
    return z3.If(z3.And(c >= 65, c <= 90), c + 32, c)


def char_isdigit(c):
    return z3.And(c >= 48, c <= 57)


def bstr_map(s, f):
    return BStr([z3.If(s.length > i, f(c), z3.IntVal(0)) for i, c in enumerate(s.chars)], s.length)


def bstr_slice(s, lo, hi):
    """s[lo:hi] for concrete non-negative lo, and hi in (None, concrete non-negative)"""
    lo = lo or 0
    if hi is None:
        newlen = z3.If(s.length >= lo, s.length - lo, z3.IntVal(0))
        return BStr(s.chars[lo:], newlen)
    hi = max(hi, lo)
    chars = s.chars[lo:hi]
    end = z3.If(s.length < hi, s.length, z3.IntVal(hi))
    newlen = z3.If(end >= lo, end - lo, z3.IntVal(0))
    return BStr(chars, newlen)


def bstr_rstrip(s, pred):
    newlen = z3.IntVal(0)
    for i, c in enumerate(s.chars):
        newlen = z3.If(z3.And(s.length > i, z3.Not(pred(c))), z3.IntVal(i + 1), newlen)
    chars = [z3.If(newlen > i, c, z3.IntVal(0)) for i, c in enumerate(s.chars)]
    return BStr(chars, newlen)


def bstr_startswith(s, p):
    if not isinstance(p, str):
        raise Unsupported("startswith symbolic prefix")
    if len(p) > s.cap:
        return z3.BoolVal(False)
    return z3.And([s.length >= len(p)] + [s.chars[i] == ord(ch) for i, ch in enumerate(p)])


def bstr_in_const(needle, hay):
    """needle (BStr) in hay (python str)"""
    alts = []
    seen = set()
    for n in range(0, min(needle.cap, len(hay)) + 1):
        for st in range(0, len(hay) - n + 1):
            sub = hay[st : st + n]
            if sub in seen:
                continue
            seen.add(sub)
            alts.append(z3.And([needle.length == n] + [needle.chars[i] == ord(ch) for i, ch in enumerate(sub)]))
    return z3.Or(alts)


def const_in_bstr(needle, hay):
    """needle (python str) in hay (BStr)"""
    n = len(needle)
    if n == 0:
        return z3.BoolVal(True)
    alts = []
    for st in range(0, hay.cap - n + 1):
        alts.append(z3.And([hay.length >= st + n] + [hay.chars[st + i] == ord(ch) for i, ch in enumerate(needle)]))
    return z3.Or(alts) if alts else z3.BoolVal(False)


def bstr_concat(a, b):
    a, b = tostr(a), tostr(b)
    cap = a.cap + b.cap
    chars = []
    for i in range(cap):
        # char i = a[i] if i < len(a) else b[i-len(a)]
        c = z3.IntVal(0)
        for j in range(b.cap - 1, -1, -1):
            c = z3.If(a.length + j == i, b.chars[j], c)
        if i < a.cap:
            c = z3.If(a.length > i, a.chars[i], c)
        chars.append(c)
    return BStr(chars, a.length + b.length)


def bstr_index_char(s, i_term):
    """s[i] for symbolic i (0 <= i < len assumed by caller) -> 1-char BStr"""
    c = z3.IntVal(0)
    for j in range(s.cap - 1, -1, -1):
        c = z3.If(i_term == j, s.chars[j], c)
    return BStr([c], z3.IntVal(1))


def bstr_substr(s, st, en):
    """s[st:en] with symbolic st,en (0<=st<=en<=len assumed)"""
    chars = []
    for i in range(s.cap):
        c = z3.IntVal(0)
        for j in range(s.cap - 1, -1, -1):
            c = z3.If(st + i == j, s.chars[j], c)
        chars.append(z3.If(i < en - st, c, z3.IntVal(0)))
    return BStr(chars, en - st)


def bstr_find_char(s, ch):
    """index of first occurrence of 1-char python str ch in s, or -1"""
    r = z3.IntVal(-1)
    for j in range(s.cap - 1, -1, -1):
        r = z3.If(z3.And(s.length > j, s.chars[j] == ord(ch)), z3.IntVal(j), r)
    return r


# restricted regex: sequence of (charclass, quant) greedy, adjacent classes must be disjoint where needed
def parse_simple_regex(pat, ignorecase=False):
    import re._parser as sp

    tree = sp.parse(pat)
    items = []  # (set_of_codes, min, max(None=inf), group_no or None)

    def cls_of(op, av):
        if op == sp.LITERAL:
            out = {av}
        elif op == sp.IN:
            out = set()
            for o, a in av:
                if o == sp.LITERAL:
                    out.add(a)
                elif o == sp.RANGE:
                    out |= set(range(a[0], a[1] + 1))
                else:
                    raise Unsupported("regex class " + str(o))
        else:
            raise Unsupported("regex op " + str(op))
        if ignorecase:
            out |= {ord(chr(c).lower()) for c in out} | {ord(chr(c).upper()) for c in out}
        return out

    def walk(seq, grp):
        for op, av in seq:
            if op in (sp.LITERAL, sp.IN):
                items.append((cls_of(op, av), 1, 1, grp))
            elif op == sp.MAX_REPEAT:
                lo, hi, sub = av
                if len(sub) != 1:
                    raise Unsupported("regex repeat of sequence")
                o, a = sub[0]
                items.append((cls_of(o, a), lo, None if hi == sp.MAXREPEAT else hi, grp))
            elif op == sp.SUBPATTERN:
                g, _, _, sub = av
                walk(sub, g)
            else:
                raise Unsupported("regex op " + str(op))

    walk(tree, None)
    # determinism check: a greedy variable item must be disjoint from the following items up to the
    # first mandatory one, otherwise greedy matching could need backtracking
    for i, (cl, lo, hi, g) in enumerate(items):
        if lo != hi:
            for cl2, lo2, hi2, g2 in items[i + 1 :]:
                if cl & cl2:
                    raise Unsupported("regex needs backtracking")
                if lo2 >= 1:
                    break
    return items


def regex_match_prefix(s, pat, ignorecase=False):
    """re.match semantics (anchored at 0, not at end). returns (matched: z3 Bool, groups: {g: (start,end)})"""
    items = parse_simple_regex(pat, ignorecase)
    pos = z3.IntVal(0)
    ok = z3.BoolVal(True)
    groups = {}

    def in_cls(c, cl):
        return z3.Or([c == v for v in sorted(cl)])

    for cl, lo, hi, g in items:
        run_at = [None] * (s.cap + 1)
        run_at[s.cap] = z3.IntVal(0)
        for i in range(s.cap - 1, -1, -1):
            run_at[i] = z3.If(z3.And(s.length > i, in_cls(s.chars[i], cl)), 1 + run_at[i + 1], z3.IntVal(0))
        run = z3.IntVal(0)
        for i in range(s.cap, -1, -1):
            run = z3.If(pos == i, run_at[i], run)
        if hi is not None:
            run = z3.If(run > hi, z3.IntVal(hi), run)
        ok = z3.And(ok, run >= lo)
        newpos = pos + run
        if g is not None:
            st, _ = groups.get(g, (pos, None))
            groups[g] = (st, newpos)
        pos = newpos
    return ok, groups


class MatchObj:
    def __init__(self, s, groups):
        self.s = s
        self.groups = groups


# ------------------------------------------------------------------ heap objects
class PartialDict(dict):
    def __missing__(self, key):
        raise Unsupported(f"model data key {key!r} is not part of this contract's model")


class SObj:
    """heap object with concrete structure: class name + field dict (values may be symbolic)"""

    _next = [0]

    def __init__(self, cls, **fields):
        self.cls = cls
        self.fields = dict(fields)
        # a machine model's data dictionary given by a contract lists only the keys that contract is about: reading any
        # OTHER key is "outside what the contract models" (undecided), not the KeyError a real model file would never raise
        if cls == "MachineModel" and type(self.fields.get("_data")) is dict:
            self.fields["_data"] = PartialDict(self.fields["_data"])
        SObj._next[0] += 1
        self.oid = SObj._next[0]

    def __repr__(self):
        return f"<{self.cls}#{self.oid}>"


class Schema:
    """Uninterpreted heap of references (z3 Ints): one class function and one function per field.

    fields: name -> spec, spec = (kind, extra...)
      ("bool",)            truthiness only
      ("int",) ("real",)   number
      ("str",)             StrId
      ("ref", schema)      never None
      ("optref", schema)   None or ref
      ("seq", schema)      SymSeq of refs
      ("custom", fn)       fn(engine, ref_term) -> value
    `owners` (optional): field -> set of class names that have the field (AttributeError otherwise).
    """

    def __init__(self, name, classes, fields, owners=None, bases=None):
        self.name = name
        self.classes = {c: i for i, c in enumerate(classes)}
        self.bases = bases or {}
        self.cls = z3.Function(name + "_cls", z3.IntSort(), z3.IntSort())
        self.fields = dict(fields)
        self.owners = owners or {}
        self.fn = {}
        I, B, R = z3.IntSort(), z3.BoolSort(), z3.RealSort()
        for fld, spec in self.fields.items():
            kind = spec[0]
            if kind == "bool":
                self.fn[fld] = z3.Function(f"{name}_{fld}", I, B)
            elif kind in ("int", "str", "ref"):
                self.fn[fld] = z3.Function(f"{name}_{fld}", I, I)
            elif kind == "real":
                self.fn[fld] = z3.Function(f"{name}_{fld}", I, R)
            elif kind in ("optref", "optint", "optstr"):
                self.fn[fld] = (z3.Function(f"{name}_has_{fld}", I, B), z3.Function(f"{name}_{fld}", I, I))
            elif kind == "optreal":
                self.fn[fld] = (z3.Function(f"{name}_has_{fld}", I, B), z3.Function(f"{name}_{fld}", I, R))
            elif kind == "seq":
                self.fn[fld] = (
                    z3.Function(f"{name}_{fld}_arr", I, z3.ArraySort(I, I)),
                    z3.Function(f"{name}_{fld}_len", I, I),
                )
            elif kind == "custom":
                self.fn[fld] = spec[1]
            else:
                raise ValueError(kind)

    def isinst(self, ref_t, names):
        """z3 Bool: class of ref is one of names (or a subclass)"""
        ids = []
        for c in self.classes:
            x = c
            seen = set()
            while x and x not in seen:
                seen.add(x)
                if x in names:
                    ids.append(self.classes[c])
                    break
                x = self.bases.get(x)
        return z3.Or([self.cls(ref_t) == i for i in ids]) if ids else z3.BoolVal(False)

    def cls_wf(self, ref_t):
        return z3.And(self.cls(ref_t) >= 0, self.cls(ref_t) < len(self.classes))


class SRef:
    """symbolic object reference; fields are uninterpreted functions declared in `schema`"""

    __slots__ = ("t", "schema")

    def __init__(self, t, schema):
        self.t = t
        self.schema = schema

    def __repr__(self):
        return f"SRef({self.t}:{self.schema.name})"


class SymSeq:
    """immutable sequence of symbolic length: element i is at(i) (i: z3 Int term)"""

    def __init__(self, length, at, tag=None):
        self.length = length if not isinstance(length, int) else z3.IntVal(length)
        self.at = at
        self.tag = tag

    @staticmethod
    def of_refs(arr, length, schema, start=None):
        if start is None:
            return SymSeq(length, lambda i: SRef(z3.Select(arr, i), schema), tag=("refs", arr, schema))
        return SymSeq(length, lambda i: SRef(z3.Select(arr, start + i), schema))

    def slice(self, lo, hi):
        """Python slice semantics (negative indices count from the end, bounds are clamped); lo/hi: z3 Int terms or None"""
        n = self.length

        def norm(x, default):
            if x is None:
                return default
            y = z3.If(x < 0, x + n, x)
            return z3.If(y < 0, z3.IntVal(0), z3.If(y > n, n, y))

        lo_c = norm(lo, z3.IntVal(0))
        hi_c = norm(hi, n)
        ln = z3.If(hi_c > lo_c, hi_c - lo_c, z3.IntVal(0))
        at = self.at
        out = SymSeq(ln, lambda i: at(lo_c + i))
        out.slice_of = (self, lo_c, hi_c)
        return out

    @staticmethod
    def concat(a, b):
        def at(i):
            return SITE(i < a.length, lambda: a.at(i), lambda: b.at(i - a.length))

        return SymSeq(a.length + b.length, at)


def SITE(cond, fa, fb):
    """if-then-else over symbolic values of the same kind"""
    a, b = fa(), fb()
    if isinstance(a, SRef) and isinstance(b, SRef):
        if a.schema is not b.schema:
            raise Unsupported("ite over different schemas")
        return SRef(z3.If(cond, a.t, b.t), a.schema)
    if is_num(a) and is_num(b):
        ta, ia = num_term(a)
        tb, ib = num_term(b)
        if ia and ib:
            return SNum(z3.If(cond, ta, tb), True)
        return SNum(z3.If(cond, real_term(a), real_term(b)), False)
    if isinstance(a, (SBool, bool)) and isinstance(b, (SBool, bool)):
        return SBool(z3.If(cond, bool_term(a), bool_term(b)))
    if isinstance(a, StrId) and isinstance(b, StrId):
        return StrId(z3.If(cond, a.t, b.t))
    if isinstance(a, tuple) and isinstance(b, tuple) and len(a) == len(b):
        return tuple(SITE(cond, (lambda x=x: x), (lambda y=y: y)) for x, y in zip(a, b))
    raise Unsupported(f"ite over {type(a).__name__}/{type(b).__name__}")


class SymList:
    """mutable list of numbers with symbolic length (z3 array Int -> Real/Int), Python identity"""

    def __init__(self, arr, length, is_int=False):
        self.arr = arr
        self.length = length
        self.is_int = is_int

    def get(self, i):
        return SNum(z3.Select(self.arr, i), self.is_int)

    def set(self, i, v):
        t = num_term(v)[0] if self.is_int else real_term(v)
        self.arr = z3.Store(self.arr, i, t)


# ------------------------------------------------------------------ callables / references used by the engine
class Closure:
    def __init__(self, node, env, cls, mod):
        self.node, self.env, self.cls, self.mod = node, env, cls, mod


class Bound:
    def __init__(self, cls, name, obj):
        self.cls, self.name, self.obj = cls, name, obj


class ClassRef:
    def __init__(self, name):
        self.name = name

    def __eq__(self, o):
        return isinstance(o, ClassRef) and o.name == self.name

    def __hash__(self):
        return hash(self.name)


class RefCopy:
    """copy.copy of a heap object addressed by a symbolic reference: a NEW object whose attributes are those of the original
    until written; writes go to the copy only (shallow copy semantics)"""

    def __init__(self, orig):
        self.orig, self.over = orig, {}

    def sym_getattr(self, ex, attr):
        if attr in self.over:
            return self.over[attr]
        return ex.getattr(self.orig, attr)

    def sym_setattr(self, ex, attr, v):
        self.over[attr] = v


class ModRef:
    def __init__(self, name):
        self.name = name


class ModFn:
    def __init__(self, mod, name):
        self.mod, self.name = mod, name


class PyMethod:
    def __init__(self, obj, name):
        self.obj, self.name = obj, name


class GenExp:
    def __init__(self, node, env, cls):
        self.node, self.env, self.cls = node, env, cls




class Opaque:
    """contract-declared opaque token (e.g. a dict whose content only abstract callees look at)"""

    def __init__(self, tag="opaque"):
        self.tag = tag

    def sym_havoc(self, ex, tag):
        return self

    def sym_truthy(self, ex):
        raise Unsupported("truthiness of opaque " + self.tag)
