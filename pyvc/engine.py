"""pyvc engine: path-enumerating symbolic execution of the real /repo source (DESIGN.md section 2).

The engine re-reads the source files with `ast` on every run.  What the reader drops: docstrings,
comments, type annotations, decorators (@staticmethod/@property/@x.setter/@lru_cache are interpreted,
others ignored), print(...) and warnings.warn(...) calls (no-ops).  Anything else outside the subset
raises Unsupported -> the unit is undecided.
"""
import ast
import os
import hashlib
import z3

from .sym import *  # noqa
from . import sym
from .exprs import ExprMixin

MAXPATHS = 50000


class ReturnEx(Exception):
    def __init__(self, v):
        self.value = v


class BreakEx(Exception):
    pass


class ContinueEx(Exception):
    pass


class PathEnd(Exception):
    """the path ends here without a function result (end of an abstract loop iteration)"""


class Path:
    def __init__(self, pc, outcome, obligations, extra, decisions):
        self.pc = pc
        self.outcome = outcome  # ("ret", v) | ("exc", name, msg) | ("end",)
        self.obligations = obligations
        self.extra = extra
        self.decisions = decisions


class Engine(ExprMixin):
    def __init__(self, files=()):
        self.funcs = {}  # module-level functions: name -> node
        self.classes = {}  # class -> {method name -> node, "__consts__": {...}}
        self.bases = {}
        self.consts = {}  # module-level constants: name -> ast expr
        self.srcfile = {}  # qualified name -> (path, lineno, sha)
        self.files = []
        self.abstract = {}  # method/function name -> callable(engine, self_obj, args, kwargs) -> value
        self.invariants = {}  # (function name, loop ordinal) -> callable(engine, env, k) -> z3 Bool
        self.loop_hooks = {}  # (function name, loop ordinal) -> object with optional callbacks
        self.on_yield = None
        self.no_init = set()
        self.class_alias = {}
        self.names = {}
        self.dropped = {"print": 0, "warn": 0}
        self.externals_used = {}
        for f in files:
            self.load(f)
        self.solver = z3.Solver()
        self.solver.set("timeout", 5000)
        self.npaths = 0
        self.curfn = []
        self.pc = []
        self.decisions = []
        self.dpos = 0
        self.pending = []
        self.obligations = []
        self.feas_cache = {}

    # ------------------------------------------------------------------ loading
    def load(self, path):
        src = open(path).read()
        self.files.append(path)
        tree = ast.parse(src, filename=path)
        lines = src.split("\n")

        def record(qn, node):
            seg = "\n".join(lines[node.lineno - 1 : node.end_lineno])
            self.srcfile[qn] = (path, node.lineno, hashlib.sha256(seg.encode()).hexdigest()[:16])

        for node in tree.body:
            if isinstance(node, ast.FunctionDef):
                self.funcs[node.name] = node
                record(node.name, node)
            elif isinstance(node, ast.ClassDef):
                d_ = {}
                for n in node.body:
                    if isinstance(n, ast.FunctionDef):
                        if any(isinstance(d, ast.Attribute) and d.attr == "setter" for d in n.decorator_list):
                            d_["__set__" + n.name] = n
                        else:
                            d_[n.name] = n
                            record(node.name + "." + n.name, n)
                d_["__consts__"] = {
                    t.id: n.value
                    for n in node.body
                    if isinstance(n, ast.Assign)
                    for t in n.targets
                    if isinstance(t, ast.Name)
                }
                self.classes[node.name] = d_
                self.bases[node.name] = [ast.unparse(b).split(".")[-1] for b in node.bases]
            elif isinstance(node, ast.Assign):
                for t in node.targets:
                    if isinstance(t, ast.Name):
                        self.consts[t.id] = node.value

    def find_method(self, cname, mname):
        seen = set()
        stack = [cname]
        while stack:
            c = stack.pop(0)
            if c in seen:
                continue
            seen.add(c)
            if mname in self.classes.get(c, {}):
                return self.classes[c][mname], c
            stack += [x for x in self.bases.get(c, [])]
        return None, None

    def find_const(self, cname, name):
        seen = set()
        stack = [cname]
        while stack:
            c = stack.pop(0)
            if c in seen:
                continue
            seen.add(c)
            cs = self.classes.get(c, {}).get("__consts__", {})
            if name in cs:
                return cs[name], c
            stack += [x for x in self.bases.get(c, [])]
        return None, None

    def is_subclass(self, c, names):
        seen = set()
        stack = [c]
        while stack:
            x = stack.pop()
            if x in names:
                return True
            if x in seen:
                continue
            seen.add(x)
            stack += self.bases.get(x, [])
        return False

    # ------------------------------------------------------------------ path machinery
    def explore(self, run, pre=()):
        """run() executes the program once under self.decisions (it must build its inputs itself,
        because the heap is mutable).  Returns a list of Path."""
        results = []
        work = [[]]
        while work:
            prefix = work.pop()
            self.decisions = list(prefix)
            self.dpos = 0
            self.pc = list(pre)
            self.pending = []
            self.obligations = []
            self.curfn = []
            extra = {}
            self.extra = extra
            try:
                out = ("ret", run())
            except PyRaise as e:
                out = ("exc", e.exc, e.msg)
            except PathEnd:
                out = ("end",)
            results.append(Path(list(self.pc), out, list(self.obligations), extra, list(self.decisions[: self.dpos])))
            work.extend(self.pending)
            self.npaths += 1
            if self.npaths > MAXPATHS:
                raise Unsupported("too many paths")
        return results

    def assume(self, f):
        self.pc.append(f)

    _hq_cache = {}

    def has_quant(self, f):
        """does the formula contain a quantifier (such hypotheses are kept out of feasibility queries)"""
        k = f.get_id()
        r = self._hq_cache.get(k)
        if r is None:
            r = False
            seen = set()
            stack = [f]
            while stack:
                x = stack.pop()
                i = x.get_id()
                if i in seen:
                    continue
                seen.add(i)
                if z3.is_quantifier(x):
                    r = True
                    break
                stack.extend(x.children())
            self._hq_cache[k] = r
        return r

    def oblige(self, name, goal):
        self.obligations.append((name, list(self.pc), goal))

    def feasible(self, extra):
        self.solver.push()
        for c in self.pc:
            if not self.has_quant(c):  # quantified hypotheses only matter for obligations; dropping them
                self.solver.add(c)  # over-approximates feasibility, which is sound
        self.solver.add(extra)
        r = self.solver.check()
        self.solver.pop()
        if r == z3.unknown:
            # treat as feasible: keeps soundness (may explore an infeasible path, whose obligations
            # are then vacuous or fail -> undecided/violation is triaged by replay)
            return True
        return r == z3.sat

    def branch(self, cond):
        """cond: z3 Bool. returns python bool for this path"""
        if isinstance(cond, bool):
            return cond
        cond = z3.simplify(cond)
        if z3.is_true(cond):
            return True
        if z3.is_false(cond):
            return False
        if getattr(self, "pure", 0):
            # inside a quantified (branch-free) context: a branch must be decided by what is assumed there; it is neither
            # recorded as a decision nor added to the path condition (it follows from it)
            t_ok, f_ok = self.feasible(cond), self.feasible(z3.Not(cond))
            if t_ok and f_ok:
                raise Unsupported("branch inside a quantified (branch-free) context")
            if not t_ok and not f_ok:
                raise PathEnd()
            return t_ok
        if self.dpos < len(self.decisions):
            d = self.decisions[self.dpos]
            self.dpos += 1
            self.pc.append(cond if d else z3.Not(cond))
            return d
        t_ok = self.feasible(cond)
        f_ok = self.feasible(z3.Not(cond))
        if t_ok and f_ok:
            self.pending.append(self.decisions[: self.dpos] + [False])
            d = True
        elif t_ok:
            d = True
        elif f_ok:
            d = False
        else:
            raise PathEnd()  # path condition itself is infeasible
        self.decisions = self.decisions[: self.dpos] + [d]
        self.dpos += 1
        self.pc.append(cond if d else z3.Not(cond))
        return d

    def choice(self):
        """unconditional two-way fork"""
        if self.dpos < len(self.decisions):
            d = self.decisions[self.dpos]
            self.dpos += 1
            return d
        self.pending.append(self.decisions[: self.dpos] + [False])
        self.decisions = self.decisions[: self.dpos] + [True]
        self.dpos += 1
        return True

    def truthy(self, v):
        if isinstance(v, bool) or v is None:
            return bool(v)
        if isinstance(v, SBool):
            return self.branch(v.t)
        if isinstance(v, SNum):
            return self.branch(v.t != 0)
        if isinstance(v, BStr):
            return self.branch(v.length > 0)
        if isinstance(v, (SymSeq, SymList)):
            return self.branch(v.length > 0)
        if hasattr(v, "sym_truthy"):
            return v.sym_truthy(self)
        if isinstance(v, SObj):
            fn, owner = self.find_method(v.cls, "__len__")
            if fn is not None:
                return self.truthy(self.compare(ast.NotEq(), self.call_fn(fn, [v], owner), 0))
            return True
        if isinstance(v, (SRef, MatchObj, Closure, Bound, ClassRef, OpaqueStr, StrId)):
            if isinstance(v, StrId):
                raise Unsupported("truthiness of StrId")
            return True
        if isinstance(v, Fraction):
            return v != 0
        return bool(v)

    # ------------------------------------------------------------------ calling
    def call_function(self, name, args, kw=None):
        if name in self.abstract:
            return self.abstract[name](self, None, list(args), kw or {})
        return self.call_fn(self.funcs[name], list(args), None, kw)

    def call_method(self, cls, name, self_obj, args, kw=None):
        if name in self.abstract:
            return self.abstract[name](self, self_obj, list(args), kw or {})
        fn, owner = self.find_method(cls, name)
        if fn is None:
            raise PyRaise("AttributeError", f"{cls}.{name}")
        if any(isinstance(d, ast.Name) and d.id == "staticmethod" for d in fn.decorator_list):
            return self.call_fn(fn, list(args), owner, kw)
        return self.call_fn(fn, [self_obj] + list(args), owner, kw)

    def call_fn(self, fn, args, cls=None, kw=None, closure_env=None):
        kw = dict(kw or {})
        self.curfn.append(fn.name)
        try:
            env = dict(closure_env) if closure_env else {}
            a = fn.args
            params = [x.arg for x in a.posonlyargs + a.args]
            defaults = a.defaults
            nargs = len(args)
            for i, p in enumerate(params):
                if i < nargs:
                    env[p] = args[i]
                elif p in kw:
                    env[p] = kw.pop(p)
                else:
                    di = i - (len(params) - len(defaults))
                    if di < 0:
                        raise PyRaise("TypeError", f"missing argument {p} of {fn.name}")
                    env[p] = self.eval(defaults[di], env, cls)
            if a.vararg is not None:
                env[a.vararg.arg] = tuple(args[len(params) :])
            elif nargs > len(params):
                raise PyRaise("TypeError", f"too many arguments for {fn.name}")
            for k_, d in zip(a.kwonlyargs, a.kw_defaults):
                env[k_.arg] = kw.pop(k_.arg) if k_.arg in kw else self.eval(d, env, cls)
            if kw:
                raise PyRaise("TypeError", f"unexpected keyword {list(kw)} for {fn.name}")
            if self._is_generator(fn):
                # generators are executed eagerly; yields are collected (or checked pointwise by on_yield)
                saved = getattr(self, "_yields", None)
                self._yields = []
                try:
                    try:
                        self.exec_block(fn.body, env, cls)
                    except ReturnEx:
                        pass
                    return list(self._yields)
                finally:
                    self._yields = saved
            try:
                self.exec_block(fn.body, env, cls)
            except ReturnEx as r:
                return r.value
            return None
        finally:
            self.curfn.pop()

    _gen_cache = {}

    def _is_generator(self, fn):
        k = id(fn)
        if k not in self._gen_cache:
            found = False
            stack = list(fn.body)
            while stack:
                n = stack.pop()
                if isinstance(n, (ast.Yield, ast.YieldFrom)):
                    found = True
                    break
                if isinstance(n, (ast.FunctionDef, ast.Lambda, ast.ClassDef)):
                    continue
                stack.extend(ast.iter_child_nodes(n))
            self._gen_cache[k] = found
        return self._gen_cache[k]

    def instantiate(self, cname, args=(), kw=None):
        o = SObj(cname)
        if cname in self.no_init:
            return o
        fn, owner = self.find_method(cname, "__init__")
        if fn is not None:
            self.call_fn(fn, [o] + list(args), owner, kw)
        return o

    # ------------------------------------------------------------------ statements
    def exec_block(self, stmts, env, cls):
        for s in stmts:
            self.exec_stmt(s, env, cls)

    def exec_stmt(self, s, env, cls):
        self.cur_env = env
        m = getattr(self, "s_" + type(s).__name__, None)
        if m is None:
            raise Unsupported(f"stmt {type(s).__name__} at line {s.lineno}")
        return m(s, env, cls)

    def s_Expr(self, s, env, cls):
        if isinstance(s.value, ast.Constant):
            return  # docstring
        if isinstance(s.value, ast.Call):
            f = s.value.func
            if isinstance(f, ast.Name) and f.id == "print":
                self.dropped["print"] += 1
                if getattr(self, "eval_print_args", False):  # opt-in: the arguments are evaluated for their calls
                    for a_ in s.value.args:
                        self.eval(a_, env, cls)
                return
            if isinstance(f, ast.Attribute) and f.attr == "warn" and isinstance(f.value, ast.Name) and f.value.id == "warnings":
                self.dropped["warn"] += 1
                return
        self.eval(s.value, env, cls)

    def s_Assign(self, s, env, cls):
        v = self.eval(s.value, env, cls)
        for t in s.targets:
            self.assign(t, v, env, cls)

    def s_AnnAssign(self, s, env, cls):
        if s.value is not None:
            self.assign(s.target, self.eval(s.value, env, cls), env, cls)

    def s_AugAssign(self, s, env, cls):
        # evaluate target sub-expressions once
        t = s.target
        if isinstance(t, ast.Name):
            cur = self.eval(t, env, cls)
            val = self.eval(s.value, env, cls)
            if isinstance(cur, list) and isinstance(s.op, ast.Add):
                cur.extend(list(self.iterate(val)))  # in place, like CPython
                return
            env[t.id] = self.binop(s.op, cur, val)
        elif isinstance(t, ast.Attribute):
            o = self.eval(t.value, env, cls)
            cur = self.getattr(o, t.attr)
            val = self.eval(s.value, env, cls)
            if isinstance(cur, list) and isinstance(s.op, ast.Add):
                cur.extend(list(self.iterate(val)))
                self.setattr(o, t.attr, cur)
                return
            self.setattr(o, t.attr, self.binop(s.op, cur, val))
        elif isinstance(t, ast.Subscript):
            o = self.eval(t.value, env, cls)
            i = self.eval(t.slice, env, cls)
            cur = self.getitem(o, i)
            val = self.eval(s.value, env, cls)
            if isinstance(cur, list) and isinstance(s.op, ast.Add):
                cur.extend(list(self.iterate(val)))
                return
            self.setitem(o, i, self.binop(s.op, cur, val))
        else:
            raise Unsupported("augassign target")

    def s_If(self, s, env, cls):
        if self.truthy(self.eval(s.test, env, cls)):
            self.exec_block(s.body, env, cls)
        else:
            self.exec_block(s.orelse, env, cls)

    def s_Return(self, s, env, cls):
        raise ReturnEx(self.eval(s.value, env, cls) if s.value else None)

    def s_Pass(self, s, env, cls):
        pass

    def s_Break(self, s, env, cls):
        raise BreakEx()

    def s_Continue(self, s, env, cls):
        raise ContinueEx()

    def s_Import(self, s, env, cls):
        for a in s.names:
            env[a.asname or a.name] = ModRef(a.name)

    def s_Raise(self, s, env, cls):
        if s.exc is None:
            raise PyRaise(getattr(self, "_cur_exc", "Exception"), "reraise")
        e = s.exc
        if isinstance(e, ast.Call):
            name = ast.unparse(e.func)
            msg = ""
        else:
            name = ast.unparse(e)
            msg = ""
            if isinstance(e, ast.Name) and e.id in env and isinstance(env[e.id], tuple) and env[e.id][:1] == ("exc",):
                name = env[e.id][1]
        raise PyRaise(name.split(".")[-1], msg)

    def s_Assert(self, s, env, cls):
        if not self.truthy(self.eval(s.test, env, cls)):
            raise PyRaise("AssertionError")

    def s_Try(self, s, env, cls):
        try:
            try:
                self.exec_block(s.body, env, cls)
            except PyRaise as r:
                for h in s.handlers:
                    if h.type is None:
                        names = ["BaseException"]
                    elif isinstance(h.type, ast.Tuple):
                        names = [ast.unparse(x) for x in h.type.elts]
                    else:
                        names = [ast.unparse(h.type)]
                    if any(exc_matches(r.exc, n) for n in names):
                        if h.name:
                            env[h.name] = ("exc", r.exc, r.msg)
                        saved = getattr(self, "_cur_exc", None)
                        self._cur_exc = r.exc
                        try:
                            self.exec_block(h.body, env, cls)
                        finally:
                            self._cur_exc = saved
                        break
                else:
                    raise
            else:
                self.exec_block(s.orelse, env, cls)
        finally:
            if s.finalbody:
                self.exec_block(s.finalbody, env, cls)

    def s_Delete(self, s, env, cls):
        for t in s.targets:
            if isinstance(t, ast.Subscript):
                o = self.eval(t.value, env, cls)
                i = self.eval(t.slice, env, cls)
                if isinstance(o, (list, dict)) and isinstance(i, (int, str)):
                    try:
                        del o[i]
                    except (IndexError, KeyError) as e:
                        raise PyRaise(type(e).__name__)
                    continue
            raise Unsupported("del")

    def s_FunctionDef(self, s, env, cls):
        env[s.name] = Closure(s, env, cls, None)

    def s_While(self, s, env, cls):
        key = self.loop_key(s)
        if key in self.loop_hooks and hasattr(self.loop_hooks[key], "sym_while"):
            return self.loop_hooks[key].sym_while(self, s, env, cls)
        n = 0
        broke = False
        while self.truthy(self.eval(s.test, env, cls)):
            n += 1
            if n > 200:
                raise Unsupported("while loop unrolled > 200 times (needs invariant)")
            try:
                self.exec_block(s.body, env, cls)
            except BreakEx:
                broke = True
                break
            except ContinueEx:
                continue
        if not broke:
            self.exec_block(s.orelse, env, cls)

    def s_With(self, s, env, cls):
        # only contract-provided context managers (objects with sym_enter) are in the subset
        for item in s.items:
            ctx = self.eval(item.context_expr, env, cls)
            if not hasattr(ctx, "sym_enter"):
                raise Unsupported("with " + type(ctx).__name__)
            v = ctx.sym_enter(self)
            if item.optional_vars is not None:
                self.assign(item.optional_vars, v, env, cls)
        self.exec_block(s.body, env, cls)

    def loop_key(self, s):
        fn = self.curfn[-1] if self.curfn else "<top>"
        return (fn, self.loop_ordinal(fn, s))

    _ord_cache = {}

    def loop_ordinal(self, fname, s):
        """ordinal of loop statement `s` among the For/While statements of its function, in source order"""
        return self._ord_cache.get(id(s), s.lineno)

    def index_loops(self, fn):
        loops = sorted(
            (n for n in ast.walk(fn) if isinstance(n, (ast.For, ast.While))), key=lambda n: (n.lineno, n.col_offset)
        )
        for i, n in enumerate(loops):
            self._ord_cache[id(n)] = i
        # contracts address loops by ordinal: if the function now has a different NUMBER of loops than when the contract was
        # written, the ordinals no longer mean the same loops - the contract does not apply (undecided), it is not evaluated
        self._check_loop_count(fn.name, len(loops))
        return loops

    _loop_counts = None

    def _check_loop_count(self, name, n):
        import json
        path = os.path.join(os.path.dirname(os.path.dirname(os.path.abspath(__file__))), "contracts", "loop_counts.json")
        if Engine._loop_counts is None:
            Engine._loop_counts = json.load(open(path)) if os.path.exists(path) else {}
        if os.environ.get("PYVC_RECORD_LOOPS"):
            if Engine._loop_counts.get(name) != n:
                cur = json.load(open(path)) if os.path.exists(path) else {}
                cur[name] = n
                json.dump(cur, open(path, "w"), indent=1, sort_keys=True)
                Engine._loop_counts = cur
            return
        want = Engine._loop_counts.get(name)
        if want is not None and want != n:
            raise Unsupported(f"loop structure of {name} changed ({n} loops, the contract addresses {want} by ordinal)")

    def s_For(self, s, env, cls):
        it = self.eval(s.iter, env, cls)
        key = self.loop_key(s)
        hook = self.loop_hooks.get(key)
        if hook is not None and hasattr(hook, "sym_for"):
            return hook.sym_for(self, s, it, env, cls)
        enum = False
        if isinstance(it, tuple) and it and it[0] == "enumerate":
            enum = True
            start = it[2]
            it = it[1]
            if isinstance(it, SymSeq):
                return self.sym_for(s, it, True, start, env, cls)
            it = [(start + i, x) for i, x in enumerate(self.iterate(it))]
        if isinstance(it, SymSeq):
            return self.sym_for(s, it, False, 0, env, cls)
        broke = False
        for item in self.iterate(it):
            self.assign(s.target, item, env, cls)
            try:
                self.exec_block(s.body, env, cls)
            except BreakEx:
                broke = True
                break
            except ContinueEx:
                continue
        if not broke:
            self.exec_block(s.orelse, env, cls)

    def havoc_value(self, v, tag):
        if isinstance(v, (bool, SBool)):
            return SBool(z3.FreshBool(tag))
        if isinstance(v, SNum):
            return SNum(z3.FreshInt(tag) if v.is_int else z3.FreshReal(tag), v.is_int)
        if isinstance(v, int):
            return SNum(z3.FreshInt(tag), True)
        if isinstance(v, Fraction):
            return SNum(z3.FreshReal(tag), False)
        if isinstance(v, SymList):
            v.arr = z3.FreshConst(v.arr.sort(), tag)
            return v
        if hasattr(v, "sym_havoc"):
            return v.sym_havoc(self, tag)
        if v is None or isinstance(v, (SRef, str, SymSeq, Closure, Bound, ClassRef, ModRef)):
            return v  # rebinding of such names inside a symbolic loop must be declared via loop_hooks
        raise Unsupported(f"havoc of {type(v).__name__} ({tag})")

    MUTATORS = {"append", "extend", "remove", "insert", "pop", "sort", "reverse", "clear", "update", "setdefault", "add"}

    def modified_names(self, body):
        """names whose binding or (syntactically visible) contents a loop body may change"""
        out = set()

        def base(n):
            while isinstance(n, (ast.Subscript, ast.Attribute)):
                n = n.value
            return n.id if isinstance(n, ast.Name) else None

        for st in body:
            for n in ast.walk(st):
                if isinstance(n, ast.Name) and isinstance(n.ctx, ast.Store):
                    out.add(n.id)
                elif isinstance(n, (ast.Subscript, ast.Attribute)) and isinstance(n.ctx, (ast.Store, ast.Del)):
                    b = base(n)
                    if b:
                        out.add(b)
                elif isinstance(n, ast.AugAssign):
                    b = base(n.target)
                    if b:
                        out.add(b)
                elif isinstance(n, ast.Call) and isinstance(n.func, ast.Attribute) and n.func.attr in self.MUTATORS:
                    b = base(n.func.value)
                    if b:
                        out.add(b)
        return sorted(out)

    def sym_for(self, s, seq, enum, start, env, cls):
        """Loop over a sequence of symbolic length, cut by the contract's invariant:
        assert I(0); havoc modified state; either (body) assume 0<=k<len, I(k); run body; assert I(k+1); end path
        or (exit) assume I(len); continue after the loop.  `break` leaves with I(k) and the break guard."""
        key = self.loop_key(s)
        inv = self.invariants.get(key)
        if inv is None:
            raise Unsupported(f"loop {key} over symbolic sequence without invariant")
        self.oblige(f"{key[0]}/loop{key[1]}/init", inv(self, env, z3.IntVal(0)))
        mods = self.modified_names(s.body)
        tnames = {n.id for n in ast.walk(s.target) if isinstance(n, ast.Name)}
        hook = self.loop_hooks.get(key)
        if hook is not None and hasattr(hook, "pre_havoc"):
            hook.pre_havoc(self, env)  # may replace e.g. a growing list by a ghost object that has sym_havoc
        # ghost objects that callees update in place (opt-in: havoc_when_passed) are modified when passed to a call
        passed = {a.id for st in s.body for n in ast.walk(st) if isinstance(n, ast.Call)
                  for a in list(n.args) + [k_.value for k_ in n.keywords] if isinstance(a, ast.Name)}
        mods = sorted(set(mods) | {n for n in passed if getattr(env.get(n), "havoc_when_passed", False)})
        for m_ in mods:
            if m_ in env and m_ not in tnames:
                env[m_] = self.havoc_value(env[m_], m_)
        if hook is not None and hasattr(hook, "havoc"):
            hook.havoc(self, env)
        if self.choice():
            k = z3.FreshInt("k")
            self.assume(z3.And(k >= 0, k < seq.length))
            self.assume(inv(self, env, k))
            item = seq.at(k)
            self.assign(s.target, (SNum(k + start, True), item) if enum else item, env, cls)
            env["__k__%d" % key[1]] = k
            if hook is not None and hasattr(hook, "on_body_start"):
                hook.on_body_start(self, env, k)
            try:
                self.exec_block(s.body, env, cls)
            except ContinueEx:
                pass
            except BreakEx:
                if hook is not None and hasattr(hook, "on_break"):
                    hook.on_break(self, env, k)
                return  # continue after the loop with the current state
            if hook is not None and hasattr(hook, "on_body_end"):
                hook.on_body_end(self, env, k)
            self.oblige(f"{key[0]}/loop{key[1]}/step", inv(self, env, k + 1))
            raise PathEnd()
        else:
            self.assume(seq.length >= 0)
            self.assume(inv(self, env, seq.length))
            self.exec_block(s.orelse, env, cls)

    # ------------------------------------------------------------------ assignment helpers
    def assign(self, t, v, env, cls):
        if isinstance(t, ast.Name):
            env[t.id] = v
        elif isinstance(t, (ast.Tuple, ast.List)):
            vs = list(self.iterate(v))
            if len(vs) != len(t.elts):
                raise PyRaise("ValueError", "unpack")
            for tt, vv in zip(t.elts, vs):
                self.assign(tt, vv, env, cls)
        elif isinstance(t, ast.Attribute):
            self.setattr(self.eval(t.value, env, cls), t.attr, v)
        elif isinstance(t, ast.Subscript):
            self.setitem(self.eval(t.value, env, cls), self.eval(t.slice, env, cls), v)
        else:
            raise Unsupported("assign target " + type(t).__name__)

    def setattr(self, o, attr, v):
        if isinstance(o, SObj):
            fn, owner = self.find_method(o.cls, "__set__" + attr)
            if fn is not None:
                self.call_fn(fn, [o, v], owner)
                return
            g, _ = self.find_method(o.cls, attr)
            if g is not None and self._is_property(g):
                raise PyRaise("AttributeError", f"can't set {o.cls}.{attr}")
            o.fields[attr] = v
            return
        if hasattr(o, "sym_setattr"):
            return o.sym_setattr(self, attr, v)
        if o is None:
            raise PyRaise("AttributeError", f"None.{attr}")
        raise Unsupported(f"setattr on {type(o).__name__}")

    def setitem(self, o, i, v):
        if isinstance(o, SymList):
            it, isint = num_term(i)
            if self.branch(z3.Or(it < -o.length, it >= o.length)):
                raise PyRaise("IndexError")
            if self.branch(it < 0):
                it = it + o.length
            o.set(it, v)
            return
        if isinstance(o, list):
            if isinstance(i, SNum):
                raise Unsupported("symbolic store index into concrete list")
            try:
                o[i] = v
            except IndexError:
                raise PyRaise("IndexError")
            except TypeError:
                raise PyRaise("TypeError")
            return
        if isinstance(o, dict):
            if isinstance(i, (str, int, tuple, type(None))):
                o[i] = v
                return
            if isinstance(i, BStr):
                for k_ in list(o.keys()):
                    if isinstance(k_, str) and self.branch(bstr_eq(i, k_)):
                        o[k_] = v
                        return
                raise Unsupported("dict store with fresh symbolic key")
            raise Unsupported("dict key kind " + type(i).__name__)
        if isinstance(o, SObj):
            fn, owner = self.find_method(o.cls, "__setitem__")
            if fn is not None:
                return self.call_fn(fn, [o, i, v], owner)
        if hasattr(o, "sym_setitem"):
            return o.sym_setitem(self, i, v)
        if o is None or isinstance(o, (int, Fraction, SNum, str, BStr, tuple)):
            raise PyRaise("TypeError", "item assignment")
        raise Unsupported(f"setitem on {type(o).__name__}")

    def _is_property(self, fn):
        return any(isinstance(d, ast.Name) and d.id == "property" for d in fn.decorator_list)
