"""Expression semantics of the pyvc subset (mixin of Engine)."""
import ast
import z3

from .sym import *  # noqa


def kind_of(v):
    if v is None:
        return "none"
    if isinstance(v, (bool, SBool)):
        return "b"
    if isinstance(v, (int, Fraction, SNum)):
        return "n"
    if isinstance(v, (str, BStr, StrId, OpaqueStr)):
        return "s"
    if isinstance(v, (list, SymSeq, SymList)):
        return "list"
    if isinstance(v, tuple):
        return "tuple"
    if isinstance(v, dict):
        return "dict"
    return "o"


class OptionalValue:
    """value of an optional field inside a quantified (branch-free) context: present iff `has`; only `is None` tests are supported"""

    def __init__(self, has):
        self.has = has

    def sym_is_none(self, ex):
        return z3.Not(self.has)


class ExprMixin:
    def eval(self, e, env, cls):
        m = getattr(self, "e_" + type(e).__name__, None)
        if m is None:
            raise Unsupported(f"expr {type(e).__name__} at line {getattr(e, 'lineno', '?')}")
        return m(e, env, cls)

    def e_Constant(self, e, env, cls):
        if isinstance(e.value, float):
            return Fraction(repr(e.value))
        return e.value

    def e_JoinedStr(self, e, env, cls):
        return OpaqueStr("fstring")

    def e_Name(self, e, env, cls):
        n = e.id
        if n in env:
            return env[n]
        from .builtins import BUILTINS, MODULES

        if n in self.names:  # module-level names bound by the contract (ghost stand-ins for imported classes / constants)
            return self.names[n]
        if n in self.class_alias:
            return ClassRef(self.class_alias[n])
        if n in self.classes:
            return ClassRef(n)
        if n in self.funcs:
            return Closure(self.funcs[n], None, None, "module")
        if n in self.abstract:
            return Closure(None, None, None, ("abstract", n))
        if n in BUILTINS:
            return BUILTINS[n]
        if n in ("str", "dict", "list", "int", "float", "tuple", "bool", "set", "type"):
            return ClassRef(n)
        if n in MODULES:
            return ModRef(MODULES[n])
        if n in self.consts:
            return self.eval(self.consts[n], {}, None)
        if n.endswith("Operand") or n in ("InstructionForm", "INSTR_FLAGS", "Exception", "ValueError", "KeyError"):
            return ClassRef(n)
        raise Unsupported("name " + n)

    def e_List(self, e, env, cls):
        out = []
        for x in e.elts:
            if isinstance(x, ast.Starred):
                out += list(self.iterate(self.eval(x.value, env, cls)))
            else:
                out.append(self.eval(x, env, cls))
        return out

    def e_Tuple(self, e, env, cls):
        return tuple(self.e_List(e, env, cls))

    def e_Set(self, e, env, cls):
        from .builtins import _set

        return _set(self, self.e_List(e, env, cls))

    def e_Dict(self, e, env, cls):
        d = {}
        for k, v in zip(e.keys, e.values):
            kk = self.eval(k, env, cls)
            if not isinstance(kk, (str, int, tuple, type(None), Fraction)):
                raise Unsupported("dict literal with symbolic key")
            d[kk] = self.eval(v, env, cls)
        return d

    def e_Lambda(self, e, env, cls):
        return Closure(e, env, cls, None)

    def e_Yield(self, e, env, cls):
        v = self.eval(e.value, env, cls) if e.value is not None else None
        if self.on_yield is not None:
            self.on_yield(self, v, env)
        else:
            self._yields.append(v)
        return None

    def e_BoolOp(self, e, env, cls):
        is_and = isinstance(e.op, ast.And)
        v = is_and
        for x in e.values:
            v = self.eval(x, env, cls)
            t = self.truthy(v)
            if is_and and not t:
                return v
            if not is_and and t:
                return v
        return v

    def e_UnaryOp(self, e, env, cls):
        v = self.eval(e.operand, env, cls)
        if isinstance(e.op, ast.Not):
            if isinstance(v, SBool):
                return SBool(z3.Not(v.t))
            return not self.truthy(v)
        if isinstance(e.op, ast.USub):
            return self.binop(ast.Sub(), 0, v)
        if isinstance(e.op, ast.UAdd):
            return v
        raise Unsupported("unary")

    def e_IfExp(self, e, env, cls):
        if self.truthy(self.eval(e.test, env, cls)):
            return self.eval(e.body, env, cls)
        return self.eval(e.orelse, env, cls)

    def e_BinOp(self, e, env, cls):
        return self.binop(e.op, self.eval(e.left, env, cls), self.eval(e.right, env, cls))

    # ------------------------------------------------------------------ arithmetic
    def binop(self, op, a, b):
        if hasattr(a, "sym_binop"):
            return a.sym_binop(self, op, b, False)
        if hasattr(b, "sym_binop"):
            return b.sym_binop(self, op, a, True)
        ka, kb = kind_of(a), kind_of(b)
        if is_conc_num(a) and is_conc_num(b):
            try:
                if isinstance(op, ast.Add):
                    return a + b
                if isinstance(op, ast.Sub):
                    return a - b
                if isinstance(op, ast.Mult):
                    return a * b
                if isinstance(op, ast.Div):
                    return Fraction(a) / b
                if isinstance(op, ast.FloorDiv):
                    return a // b
                if isinstance(op, ast.Mod):
                    return a % b
                if isinstance(op, ast.Pow):
                    if isinstance(b, int) and b >= 0:
                        return a**b
                    if isinstance(b, int):
                        return Fraction(a) ** b
                    raise Unsupported("pow with non-integer exponent")
                if isinstance(op, ast.LShift) and isinstance(a, int) and isinstance(b, int):
                    if b < 0:
                        raise PyRaise("ValueError", "negative shift count")
                    return a << b
                if isinstance(op, ast.BitXor) and isinstance(a, int) and isinstance(b, int):
                    return a ^ b
            except ZeroDivisionError:
                raise PyRaise("ZeroDivisionError")
        if ka == "b" and kb == "b" and isinstance(op, ast.BitXor):
            if isinstance(a, bool) and isinstance(b, bool):
                return a ^ b
            return SBool(z3.Xor(bool_term(a), bool_term(b)))
        if ka == "s" and kb == "s":
            if isinstance(op, ast.Add):
                if isinstance(a, str) and isinstance(b, str):
                    return a + b
                if isinstance(a, (OpaqueStr, StrId)) or isinstance(b, (OpaqueStr, StrId)):
                    r = OpaqueStr("concat")  # the pieces are kept so that contracts can state what is shown, in which order
                    pieces = lambda x: list(x.parts) if isinstance(x, OpaqueStr) and x.desc == "concat" and hasattr(x, "parts") else [x]
                    r.parts = pieces(a) + pieces(b)
                    return r
                return bstr_concat(a, b)
            if isinstance(op, ast.Mod):
                return OpaqueStr("%")
            raise PyRaise("TypeError", "str op")
        if ka == "s" and isinstance(op, ast.Mod):
            return OpaqueStr("%")
        if ka == "s" and kb == "n" and isinstance(op, ast.Mult) and isinstance(a, str) and isinstance(b, int):
            return a * b
        if ka == "n" and kb == "s" and isinstance(op, ast.Mult) and isinstance(b, str) and isinstance(a, int):
            return a * b
        if isinstance(op, ast.Mult) and {ka, kb} == {"n", "s"}:
            raise Unsupported("str * symbolic")
        if ka == "n" and kb == "list" and isinstance(op, ast.Mult):
            return self.binop(op, b, a)
        if ka == "list" and kb == "list" and isinstance(op, ast.Add):
            if isinstance(a, list) and isinstance(b, list):
                return a + b
            if isinstance(a, SymSeq) and isinstance(b, SymSeq):
                return SymSeq.concat(a, b)
            if isinstance(a, list) and not a and isinstance(b, SymSeq):
                return b
            if isinstance(b, list) and not b and isinstance(a, SymSeq):
                return a
            raise Unsupported("list + mixed")
        if ka == "tuple" and kb == "tuple" and isinstance(op, ast.Add):
            return a + b
        if ka == "list" and kb == "n" and isinstance(op, ast.Mult):
            if isinstance(a, list) and isinstance(b, int):
                return [x for _ in range(b) for x in a]
            if isinstance(a, list) and len(a) == 1 and isinstance(b, SNum) and b.is_int and is_num(a[0]):
                elem = a[0]
                isint = num_term(elem)[1]
                t = num_term(elem)[0]
                arr = z3.K(z3.IntSort(), t)
                ln = z3.If(b.t > 0, b.t, z3.IntVal(0))
                return SymList(arr, ln, isint)
            raise Unsupported("list * symbolic")
        if ka in ("n", "b") and kb in ("n", "b"):
            return self.arith(op, a, b)
        if "none" in (ka, kb) or {ka, kb} & {"o", "dict", "list", "tuple", "s"}:
            if isinstance(a, SObj) or isinstance(b, SObj):
                raise PyRaise("TypeError", f"unsupported operand types {ka} {type(op).__name__} {kb}")
            raise PyRaise("TypeError", f"unsupported operand types {ka} {type(op).__name__} {kb}")
        raise Unsupported(f"binop {ka} {type(op).__name__} {kb}")

    def arith(self, op, a, b):
        (xt, xi), (yt, yi) = num_term(a), num_term(b)
        both_int = xi and yi
        if not both_int:
            xt = z3.ToReal(xt) if xi else xt
            yt = z3.ToReal(yt) if yi else yt
        if isinstance(op, ast.Add):
            return SNum(xt + yt, both_int)
        if isinstance(op, ast.Sub):
            return SNum(xt - yt, both_int)
        if isinstance(op, ast.Mult):
            return SNum(xt * yt, both_int)
        if isinstance(op, ast.Div):
            if both_int:
                xt, yt = z3.ToReal(xt), z3.ToReal(yt)
            if self.branch(yt == 0):
                raise PyRaise("ZeroDivisionError")
            return SNum(xt / yt, False)
        if isinstance(op, (ast.FloorDiv, ast.Mod)) and both_int and isinstance(b, int) and not isinstance(b, bool) and b > 0:
            # positive constant divisor: z3's div/mod coincide with Python's floor division / modulo
            return SNum(xt / yt if isinstance(op, ast.FloorDiv) else xt % yt, True)
        if isinstance(op, (ast.FloorDiv, ast.Mod)) and both_int:
            if self.branch(yt == 0):
                raise PyRaise("ZeroDivisionError")
            # python floor semantics; z3 div/mod are euclidean: equal for positive divisor
            q = z3.FreshInt("q")
            r = z3.FreshInt("r")
            self.assume(xt == q * yt + r)
            self.assume(z3.If(yt > 0, z3.And(r >= 0, r < yt), z3.And(r <= 0, r > yt)))
            return SNum(q if isinstance(op, ast.FloorDiv) else r, True)
        if isinstance(op, ast.Pow) and both_int and isinstance(a, int) and a == 2:
            raise Unsupported("2 ** symbolic (use contract-level case split)")
        if isinstance(op, ast.LShift) and both_int and isinstance(b, int) and not isinstance(b, bool):
            if b < 0:
                raise PyRaise("ValueError", "negative shift count")
            return SNum(xt * (2 ** b), True)  # Python ints are unbounded: x << c == x * 2**c, also for negative x
        if isinstance(op, ast.LShift) and both_int:
            raise Unsupported("symbolic <<")
        raise Unsupported("arith " + type(op).__name__)

    # ------------------------------------------------------------------ comparison
    def e_Compare(self, e, env, cls):
        left = self.eval(e.left, env, cls)
        res = True
        n = len(e.ops)
        for i, (op, r) in enumerate(zip(e.ops, e.comparators)):
            right = self.eval(r, env, cls)
            v = self.compare(op, left, right)
            if n == 1:
                return v
            if not self.truthy(v):
                return False
            res = v
            left = right
        return res

    def neg(self, v):
        if isinstance(v, SBool):
            return SBool(z3.Not(v.t))
        return not self.truthy(v)

    def compare(self, op, a, b):
        if isinstance(op, ast.Is):
            for x, y in ((a, b), (b, a)):
                if hasattr(x, "sym_is_none") and y is None:
                    return SBool(x.sym_is_none(self))
            if a is None or b is None:
                return a is None and b is None
            if isinstance(a, (SObj, list, dict)) or isinstance(b, (SObj, list, dict)):
                return a is b
            if isinstance(a, bool) and isinstance(b, bool):
                return a == b
            if isinstance(a, SRef) and isinstance(b, SRef):
                return SBool(a.t == b.t)
            if isinstance(a, ClassRef) or isinstance(b, ClassRef):
                return a == b
            if kind_of(a) != kind_of(b):
                return False
            raise Unsupported(f"is on {type(a).__name__}/{type(b).__name__}")
        if isinstance(op, ast.IsNot):
            return self.neg(self.compare(ast.Is(), a, b))
        if isinstance(op, ast.NotEq):
            return self.neg(self.compare(ast.Eq(), a, b))
        if isinstance(op, ast.NotIn):
            return self.neg(self.compare(ast.In(), a, b))
        if isinstance(op, ast.Eq):
            return self.eq(a, b)
        if isinstance(op, ast.In):
            return self.contains(b, a)
        if isinstance(op, (ast.Lt, ast.LtE, ast.Gt, ast.GtE)):
            ka, kb = kind_of(a), kind_of(b)
            if ka in ("n", "b") and kb in ("n", "b"):
                if not isinstance(a, (SNum, SBool)) and not isinstance(b, (SNum, SBool)):
                    return {ast.Lt: a < b, ast.LtE: a <= b, ast.Gt: a > b, ast.GtE: a >= b}[type(op)]
                (xt, xi), (yt, yi) = num_term(a), num_term(b)
                if not (xi and yi):
                    xt = z3.ToReal(xt) if xi else xt
                    yt = z3.ToReal(yt) if yi else yt
                f = {
                    ast.Lt: lambda p, q: p < q,
                    ast.LtE: lambda p, q: p <= q,
                    ast.Gt: lambda p, q: p > q,
                    ast.GtE: lambda p, q: p >= q,
                }[type(op)]
                return SBool(f(xt, yt))
            if ka == "s" and kb == "s" and isinstance(a, str) and isinstance(b, str):
                return {ast.Lt: a < b, ast.LtE: a <= b, ast.Gt: a > b, ast.GtE: a >= b}[type(op)]
            if ka == kb and ka in ("tuple", "list") and not isinstance(a, (SymSeq, SymList)) and not isinstance(b, (SymSeq, SymList)):
                return self.lex_compare(op, list(a), list(b))
            if ka != kb or ka in ("none", "o", "dict"):
                raise PyRaise("TypeError", f"ordering {ka} vs {kb}")
            raise Unsupported(f"ordering on {ka}")
        raise Unsupported("cmp " + type(op).__name__)

    def lex_compare(self, op, a, b):
        for x, y in zip(a, b):
            if not self.truthy(self.eq(x, y)):
                strict = ast.Lt() if isinstance(op, (ast.Lt, ast.LtE)) else ast.Gt()
                return self.compare(strict, x, y)
        la, lb = len(a), len(b)
        return {ast.Lt: la < lb, ast.LtE: la <= lb, ast.Gt: la > lb, ast.GtE: la >= lb}[type(op)]

    def eq(self, a, b):
        for x, y in ((a, b), (b, a)):
            if hasattr(x, "sym_eq"):
                return x.sym_eq(self, y)
        if isinstance(a, SObj) or isinstance(b, SObj):
            for x, y in ((a, b), (b, a)):
                if isinstance(x, SObj):
                    fn, owner = self.find_method(x.cls, "__eq__")
                    if fn is not None:
                        return self.call_fn(fn, [x, y], owner)
            return a is b
        ka, kb = kind_of(a), kind_of(b)
        if isinstance(a, SRef) and isinstance(b, SRef):
            # identity; class-specific __eq__ on symbolic refs must be given as an abstract `__eq__`
            if "__eq__" in self.abstract:
                return self.abstract["__eq__"](self, a, [b], {})
            return SBool(a.t == b.t)
        if isinstance(a, SRef) or isinstance(b, SRef):
            if "__eq__" in self.abstract:
                x, y = (a, b) if isinstance(a, SRef) else (b, a)
                return self.abstract["__eq__"](self, x, [y], {})
            return False
        if ka != kb and not ({ka, kb} <= {"n", "b"}):
            return False
        if ka == "none":
            return True
        if ka == "s":
            if isinstance(a, str) and isinstance(b, str):
                return a == b
            if isinstance(a, OpaqueStr) or isinstance(b, OpaqueStr):
                raise Unsupported("comparison of opaque string")
            if isinstance(a, StrId) or isinstance(b, StrId):
                ta = a.t if isinstance(a, StrId) else z3.IntVal(StrId.code(a)) if isinstance(a, str) else None
                tb = b.t if isinstance(b, StrId) else z3.IntVal(StrId.code(b)) if isinstance(b, str) else None
                if ta is None or tb is None:
                    raise Unsupported("StrId vs BStr")
                return SBool(ta == tb)
            return SBool(bstr_eq(a, b))
        if {ka, kb} <= {"n", "b"}:
            if not isinstance(a, (SNum, SBool)) and not isinstance(b, (SNum, SBool)):
                return a == b
            if ka == "b" and kb == "b":
                return SBool(bool_term(a) == bool_term(b))
            (xt, xi), (yt, yi) = num_term(a), num_term(b)
            if not (xi and yi):
                xt = z3.ToReal(xt) if xi else xt
                yt = z3.ToReal(yt) if yi else yt
            return SBool(xt == yt)
        if ka in ("list", "tuple"):
            if isinstance(a, (SymSeq, SymList)) or isinstance(b, (SymSeq, SymList)):
                raise Unsupported("== on symbolic sequences")
            if len(a) != len(b):
                return False
            acc = []
            for x, y in zip(a, b):
                r = self.eq(x, y)
                if isinstance(r, SBool):
                    if not self.truthy(r):
                        return False
                elif not r:
                    return False
            return True
        if ka == "dict":
            if set(a.keys()) != set(b.keys()):
                return False
            for k_ in a:
                if not self.truthy(self.eq(a[k_], b[k_])):
                    return False
            return True
        if isinstance(a, ClassRef) and isinstance(b, ClassRef):
            return a == b
        return a is b


    def eq_term(self, a, b):
        """structural equality as a z3 Bool (no forking); containers compared element-wise"""
        ka, kb = kind_of(a), kind_of(b)
        if ka in ("list", "tuple") and kb == ka and not isinstance(a, (SymSeq, SymList)) and not isinstance(b, (SymSeq, SymList)):
            if len(a) != len(b):
                return z3.BoolVal(False)
            return z3.And([self.eq_term(x, y) for x, y in zip(a, b)] + [z3.BoolVal(True)])
        if ka == "dict" and kb == "dict":
            if set(a.keys()) != set(b.keys()):
                return z3.BoolVal(False)
            return z3.And([self.eq_term(a[k], b[k]) for k in a] + [z3.BoolVal(True)])
        if isinstance(a, SObj) or isinstance(b, SObj):
            if isinstance(a, SObj) and isinstance(b, SObj) and a.cls == b.cls:
                return self.eq_term(a.fields, b.fields)
            return z3.BoolVal(False)
        npc, ndec = len(self.pc), self.dpos
        r = self.eq(a, b)
        if len(self.pc) != npc or self.dpos != ndec:
            raise Unsupported("eq_term forked")
        return r.t if isinstance(r, SBool) else z3.BoolVal(bool(r))

    def contains(self, cont, item):
        if hasattr(cont, "sym_contains"):
            return cont.sym_contains(self, item)
        if isinstance(cont, SObj):
            fn, owner = self.find_method(cont.cls, "__contains__")
            if fn is None:
                raise PyRaise("TypeError", "not iterable")
            return self.call_fn(fn, [cont, item], owner)
        if isinstance(cont, (list, tuple)):
            alts = []
            for x in cont:
                r = self.eq(item, x)
                if r is True:
                    return True
                if r is False:
                    continue
                alts.append(r.t)
            if not alts:
                return False
            return SBool(z3.Or(alts))
        if isinstance(cont, dict):
            if isinstance(item, (str, int, type(None), tuple)):
                return item in cont
            if isinstance(item, BStr):
                alts = [bstr_eq(item, k_) for k_ in cont if isinstance(k_, str)]
                return SBool(z3.Or(alts)) if alts else False
            if isinstance(item, StrId):
                alts = [item.t == StrId.code(k_) for k_ in cont if isinstance(k_, str)]
                return SBool(z3.Or(alts)) if alts else False
            raise Unsupported("dict membership of " + type(item).__name__)
        if isinstance(cont, str):
            if isinstance(item, str):
                return item in cont
            if isinstance(item, BStr):
                return SBool(bstr_in_const(item, cont))
            raise PyRaise("TypeError", "in <str> requires str")
        if isinstance(cont, BStr):
            if isinstance(item, str):
                return SBool(const_in_bstr(item, cont))
            raise Unsupported("BStr in BStr")
        if isinstance(cont, SymSeq):
            from .builtins import seq_index_model

            pos = seq_index_model(self, cont, item)
            return SBool(pos >= 0)
        if cont is None or is_num(cont):
            raise PyRaise("TypeError", "argument not iterable")
        raise Unsupported("in " + type(cont).__name__)

    # ------------------------------------------------------------------ attribute / subscript
    def e_Attribute(self, e, env, cls):
        return self.getattr(self.eval(e.value, env, cls), e.attr)

    def getattr(self, o, attr):
        if o is None:
            raise PyRaise("AttributeError", "None." + attr)
        if hasattr(o, "sym_getattr"):
            return o.sym_getattr(self, attr)
        if isinstance(o, SObj):
            if attr in o.fields:
                return o.fields[attr]
            if attr in self.abstract and attr not in ("__eq__",):
                return Bound(o.cls, attr, o)
            fn, owner = self.find_method(o.cls, attr)
            if fn is not None:
                if self._is_property(fn):
                    return self.call_fn(fn, [o], owner)
                return Bound(o.cls, attr, o)
            c, owner = self.find_const(o.cls, attr)
            if c is not None:
                return self.eval(c, {}, owner)
            if attr == "__dict__":
                return o.fields
            raise PyRaise("AttributeError", f"{o.cls}.{attr}")
        if isinstance(o, SRef):
            sch = o.schema
            if attr not in sch.fields:
                if attr in self.abstract:
                    return Bound(None, attr, o)
                raise Unsupported(f"field {attr} not in schema {sch.name}")
            owners = sch.owners.get(attr)
            if owners is not None:
                if not self.branch(sch.isinst(o.t, owners)):
                    raise PyRaise("AttributeError", f"<{sch.name}>.{attr}")
            spec = sch.fields[attr]
            kind = spec[0]
            f = sch.fn[attr]
            if kind == "bool":
                return SBool(f(o.t))
            if kind == "int":
                return SNum(f(o.t), True)
            if kind == "real":
                return SNum(f(o.t), False)
            if kind == "str":
                return StrId(f(o.t))
            if kind == "ref":
                return SRef(f(o.t), spec[1] or sch)
            if kind in ("optref", "optint", "optreal", "optstr"):
                if getattr(self, "pure", 0):
                    # branch-free context: decide if the assumptions do, otherwise hand out a value that can only be tested for None
                    t_ok, f_ok = self.feasible(f[0](o.t)), self.feasible(z3.Not(f[0](o.t)))
                    if t_ok and f_ok:
                        return OptionalValue(f[0](o.t))
                    if not t_ok:
                        return None
                elif not self.branch(f[0](o.t)):
                    return None
                if kind == "optref":
                    return SRef(f[1](o.t), spec[1] or sch)
                if kind == "optint":
                    return SNum(f[1](o.t), True)
                if kind == "optreal":
                    return SNum(f[1](o.t), False)
                return StrId(f[1](o.t))
            if kind == "seq":
                return SymSeq.of_refs(f[0](o.t), f[1](o.t), spec[1] or sch)
            if kind == "custom":
                return f(self, o)
        if isinstance(o, ClassRef):
            c, owner = self.find_const(o.name, attr)
            if c is not None:
                return self.eval(c, {}, owner)
            if attr in self.abstract:  # Class.method(...) of a method under an assumed/separately proved contract
                return Closure(None, None, None, ("abstract", attr))
            fn, owner = self.find_method(o.name, attr)
            if fn is not None:
                return Closure(fn, None, owner, "static")
            raise Unsupported(f"class attr {o.name}.{attr}")
        if isinstance(o, ModRef):
            from .builtins import module_attr

            return module_attr(self, o.name, attr)
        return PyMethod(o, attr)

    def e_Subscript(self, e, env, cls):
        o = self.eval(e.value, env, cls)
        if isinstance(e.slice, ast.Slice):
            lo = self.eval(e.slice.lower, env, cls) if e.slice.lower else None
            hi = self.eval(e.slice.upper, env, cls) if e.slice.upper else None
            if e.slice.step is not None:
                raise Unsupported("slice step")
            return self.getslice(o, lo, hi)
        return self.getitem(o, self.eval(e.slice, env, cls))

    def getslice(self, o, lo, hi):
        if hasattr(o, "sym_getslice"):
            return o.sym_getslice(self, lo, hi, None)
        if isinstance(o, BStr):
            if (lo is None or (isinstance(lo, int) and lo >= 0)) and (hi is None or (isinstance(hi, int) and hi >= 0)):
                return bstr_slice(o, lo, hi)
            if lo is None or isinstance(lo, int) and lo == 0:
                if isinstance(hi, SNum):
                    # s[:k], 0 <= k
                    k = z3.If(hi.t < 0, z3.IntVal(0), z3.If(hi.t > o.length, o.length, hi.t))
                    if self.branch(hi.t < 0):
                        raise Unsupported("negative symbolic slice bound")
                    return bstr_substr(o, z3.IntVal(0), k)
                if isinstance(hi, int) and hi < 0:
                    n = -hi
                    newlen = z3.If(o.length >= n, o.length - n, z3.IntVal(0))
                    return bstr_substr(o, z3.IntVal(0), newlen)
            raise Unsupported("bstr slice")
        if isinstance(o, SymSeq):
            def t(x):
                if x is None:
                    return None
                tt, isint = num_term(x)
                return tt

            return o.slice(t(lo), t(hi))
        if isinstance(o, (list, tuple, str)):
            if isinstance(lo, SNum) or isinstance(hi, SNum):
                raise Unsupported("symbolic slice of concrete sequence")
            return o[lo:hi]
        if o is None:
            raise PyRaise("TypeError", "None not subscriptable")
        raise Unsupported("slice of " + type(o).__name__)

    def getitem(self, o, i):
        if hasattr(o, "sym_getitem"):
            return o.sym_getitem(self, i)
        if isinstance(o, SObj):
            fn, owner = self.find_method(o.cls, "__getitem__")
            if fn is None:
                raise PyRaise("TypeError", f"{o.cls} not subscriptable")
            return self.call_fn(fn, [o, i], owner)
        if isinstance(o, (SymSeq, SymList)):
            it, isint = num_term(i)
            if self.branch(z3.Or(it < -o.length, it >= o.length)):
                raise PyRaise("IndexError")
            if self.branch(it < 0):
                it = it + o.length
            return o.at(it) if isinstance(o, SymSeq) else o.get(it)
        if isinstance(o, BStr):
            if isinstance(i, int):
                if i < 0:
                    n = -i
                    if self.branch(o.length < n):
                        raise PyRaise("IndexError")
                    return bstr_index_char(o, o.length - n)
                if self.branch(o.length <= i):
                    raise PyRaise("IndexError")
                return BStr([o.chars[i]], z3.IntVal(1)) if i < o.cap else BStr([z3.IntVal(0)], z3.IntVal(1))
            it, _ = num_term(i)
            if self.branch(z3.Or(it < -o.length, it >= o.length)):
                raise PyRaise("IndexError")
            if self.branch(it < 0):
                it = it + o.length
            return bstr_index_char(o, it)
        if isinstance(o, (list, tuple, str)):
            if isinstance(i, bool):
                i = int(i)
            if isinstance(i, int):
                try:
                    return o[i]
                except IndexError:
                    raise PyRaise("IndexError")
            if isinstance(i, SNum) and i.is_int and not isinstance(o, str):
                n = len(o)
                if self.branch(z3.Or(i.t < -n, i.t >= n)):
                    raise PyRaise("IndexError")
                for j in range(-n, n):
                    if self.branch(i.t == j):
                        return o[j]
                raise PathEnd()
            raise PyRaise("TypeError", "indices must be integers")
        if isinstance(o, dict):
            if isinstance(i, (str, int, tuple, type(None), Fraction)):
                try:
                    return o[i]
                except KeyError:
                    raise PyRaise("KeyError", str(i))
            if isinstance(i, BStr):
                for k_ in o:
                    if isinstance(k_, str) and self.branch(bstr_eq(i, k_)):
                        return o[k_]
                raise PyRaise("KeyError")
            if isinstance(i, StrId):
                for k_ in o:
                    if isinstance(k_, str) and self.branch(i.t == StrId.code(k_)):
                        return o[k_]
                raise PyRaise("KeyError")
            if isinstance(i, SNum):
                for k_ in o:
                    if is_conc_num(k_) and self.truthy(self.eq(i, k_)):
                        return o[k_]
                raise PyRaise("KeyError")
            raise Unsupported("dict key " + type(i).__name__)
        if o is None or is_num(o) or isinstance(o, (bool, SBool)):
            raise PyRaise("TypeError", f"{kind_of(o)} not subscriptable")
        raise Unsupported("getitem on " + type(o).__name__)

    # ------------------------------------------------------------------ comprehensions
    def e_GeneratorExp(self, e, env, cls):
        return GenExp(e, env, cls)

    def comp_iter(self, gens, env, cls, emit):
        g = gens[0]
        if g.is_async:
            raise Unsupported("async comprehension")
        it = self.eval(g.iter, env, cls)
        if isinstance(it, tuple) and it and it[0] == "enumerate":
            it = [(it[2] + i, x) for i, x in enumerate(self.iterate(it[1]))]
        for item in self.iterate(it):
            env2 = dict(env)
            self.assign(g.target, item, env2, cls)
            if all(self.truthy(self.eval(c, env2, cls)) for c in g.ifs):
                if len(gens) > 1:
                    self.comp_iter(gens[1:], env2, cls, emit)
                else:
                    emit(env2)

    def e_ListComp(self, e, env, cls):
        # comprehension over a sequence of symbolic length with a pure element expression -> lazy SymSeq
        if len(e.generators) == 1 and not e.generators[0].ifs:
            g = e.generators[0]
            it = self.eval(g.iter, env, cls)
            if isinstance(it, SymSeq):
                if hasattr(it, "sym_before_map"):
                    it.sym_before_map(self)  # contract hook: the element function may raise for some element (assumed contract of the callee)
                return self.lazy_map(e.elt, g.target, it, env, cls)
            out = []
            if isinstance(it, tuple) and it and it[0] == "enumerate":
                it = [(it[2] + i, x) for i, x in enumerate(self.iterate(it[1]))]
            for item in self.iterate(it):
                env2 = dict(env)
                self.assign(g.target, item, env2, cls)
                out.append(self.eval(e.elt, env2, cls))
            return out
        if len(e.generators) == 1 and e.generators[0].ifs:
            g = e.generators[0]
            it = self.eval(g.iter, env, cls)
            if isinstance(it, SymSeq):
                return self.lazy_filter(e.elt, g.target, g.ifs, it, env, cls)
        out = []
        self.comp_iter(e.generators, env, cls, lambda env2: out.append(self.eval(e.elt, env2, cls)))
        return out

    def lazy_filter(self, elt, target, conds, seq, env, cls):
        """[elt for x in seq if conds] over a sequence of symbolic length: the result is the subsequence of the matching
        elements, introduced by its defining property (an order-preserving index map idx onto exactly the matching positions).
        The conditions must be branch-free and side-effect free."""
        eng = self
        I_ = z3.IntSort()
        L = z3.FreshInt("flen")
        idx = z3.Function(f"fidx!{L}", I_, I_)
        inv = z3.Function(f"finv!{L}", I_, I_)

        def pred(jt):
            env2 = dict(env)
            eng.assign(target, seq.at(jt), env2, cls)
            npc, ndec = len(eng.pc), eng.dpos
            terms = []
            for c in conds:
                v = eng.pure_bool(c, env2, cls)
                if len(eng.pc) != npc or eng.dpos != ndec:
                    raise Unsupported("filter condition over symbolic sequence is not branch-free")
                terms.append(v.t if isinstance(v, SBool) else z3.BoolVal(bool(v)) if isinstance(v, bool) or v is None else None)
                if terms[-1] is None:
                    raise Unsupported("filter condition is not boolean-valued")
            return z3.And(terms)

        i, k, j = z3.FreshInt("fi"), z3.FreshInt("fk"), z3.FreshInt("fj")
        n = seq.length
        self.assume(z3.And(L >= 0, L <= z3.If(n > 0, n, 0)))
        self.assume(z3.ForAll([i], z3.Implies(z3.And(0 <= i, i < L), z3.And(0 <= idx(i), idx(i) < n, pred(idx(i))))))
        self.assume(z3.ForAll([i, k], z3.Implies(z3.And(0 <= i, i < k, k < L), idx(i) < idx(k))))
        self.assume(z3.ForAll([j], z3.Implies(z3.And(0 <= j, j < n, pred(j)), z3.And(0 <= inv(j), inv(j) < L, idx(inv(j)) == j))))
        out = self.lazy_map(elt, target, SymSeq(L, lambda t: seq.at(idx(t))), env, cls)
        out.filter_of = (seq, idx, L, pred)
        return out

    def pure_bool(self, e, env, cls):
        """boolean expression -> SBool/bool without forking (and/or/not are combined as terms; a leaf may only branch on what
        the operands to its left decide - Python's short-circuit evaluation: 'isinstance(x, M) and x.attr')"""
        self.pure = getattr(self, "pure", 0) + 1
        try:
            return self._pure_bool(e, env, cls)
        finally:
            self.pure -= 1

    def _pure_bool(self, e, env, cls):
        if isinstance(e, ast.BoolOp):
            vs, npc = [], len(self.pc)
            try:
                for x in e.values:
                    v = self._pure_bool(x, env, cls)
                    vs.append(v)
                    t = v.t if isinstance(v, SBool) else z3.BoolVal(bool(v))
                    self.pc.append(t if isinstance(e.op, ast.And) else z3.Not(t))  # what the operands to the right may rely on
            finally:
                del self.pc[npc:]
            if all(isinstance(v, bool) or v is None for v in vs):
                return all(vs) if isinstance(e.op, ast.And) else any(vs)
            ts = [v.t if isinstance(v, SBool) else z3.BoolVal(bool(v)) for v in vs]
            return SBool(z3.And(ts) if isinstance(e.op, ast.And) else z3.Or(ts))
        if isinstance(e, ast.UnaryOp) and isinstance(e.op, ast.Not):
            v = self._pure_bool(e.operand, env, cls)
            return SBool(z3.Not(v.t)) if isinstance(v, SBool) else (not v)
        v = self.eval(e, env, cls)
        if isinstance(v, (SBool, bool)) or v is None:
            return v
        if hasattr(v, "sym_truth_term"):
            return SBool(v.sym_truth_term(self))
        raise Unsupported("pure_bool of " + type(v).__name__)

    def lazy_map(self, elt, target, seq, env, cls):
        eng = self

        def at(i):
            env2 = dict(env)
            eng.assign(target, seq.at(i), env2, cls)
            npc, ndec = len(eng.pc), eng.dpos
            v = eng.eval(elt, env2, cls)
            if len(eng.pc) != npc or eng.dpos != ndec:
                raise Unsupported("comprehension body over symbolic sequence is not branch-free")
            return v

        return SymSeq(seq.length, at)

    def e_SetComp(self, e, env, cls):
        from .builtins import _set

        return _set(self, self.e_ListComp(ast.ListComp(elt=e.elt, generators=e.generators), env, cls))

    def e_DictComp(self, e, env, cls):
        out = {}

        def emit(env2):
            k = self.eval(e.key, env2, cls)
            if not isinstance(k, (str, int, tuple, type(None))):
                raise Unsupported("dict comprehension with symbolic key")
            out[k] = self.eval(e.value, env2, cls)

        self.comp_iter(e.generators, env, cls, emit)
        return out

    def iterate(self, v):
        if isinstance(v, (list, tuple, range)):
            return list(v)
        if isinstance(v, dict):
            return list(v.keys())
        if isinstance(v, str):
            return list(v)
        if isinstance(v, GenExp):
            return self.e_ListComp(ast.ListComp(elt=v.node.elt, generators=v.node.generators), v.env, v.cls)
        if isinstance(v, BStr):
            raise Unsupported("for over symbolic string (use any/all)")
        if isinstance(v, (SymSeq, SymList)):
            raise Unsupported("concrete iteration over symbolic-length sequence")
        if hasattr(v, "sym_iter"):
            return v.sym_iter(self)
        if v is None or is_num(v) or isinstance(v, (bool, SBool)):
            raise PyRaise("TypeError", f"{kind_of(v)} object is not iterable")
        if isinstance(v, SObj):
            raise PyRaise("TypeError", f"{v.cls} object is not iterable")
        raise Unsupported("iterate " + type(v).__name__)

    # ------------------------------------------------------------------ calls
    def e_Call(self, e, env, cls):
        # super().method(...)
        if (
            isinstance(e.func, ast.Attribute)
            and isinstance(e.func.value, ast.Call)
            and isinstance(e.func.value.func, ast.Name)
            and e.func.value.func.id == "super"
        ):
            args, kw = self.eval_args(e, env, cls)
            for base in self.bases.get(cls, []):
                fn, owner = self.find_method(base, e.func.attr)
                if fn is not None:
                    return self.call_fn(fn, [env["self"]] + args, owner, kw)
            return None
        f = self.eval(e.func, env, cls)
        args, kw = self.eval_args(e, env, cls)
        return self.apply(f, args, kw, e)

    def eval_args(self, e, env, cls):
        args = []
        for a in e.args:
            if isinstance(a, ast.Starred):
                args += list(self.iterate(self.eval(a.value, env, cls)))
            else:
                args.append(self.eval(a, env, cls))
        kw = {}
        for k in e.keywords:
            if k.arg is None:
                d = self.eval(k.value, env, cls)
                kw.update(d)
            else:
                kw[k.arg] = self.eval(k.value, env, cls)
        return args, kw

    def apply(self, f, args, kw=None, node=None):
        kw = kw or {}
        from .builtins import call_class, modfn, pymethod

        if isinstance(f, Closure):
            if isinstance(f.mod, tuple) and f.mod[0] == "abstract":
                return self.abstract[f.mod[1]](self, None, list(args), kw)
            if isinstance(f.node, ast.Lambda):
                env2 = dict(f.env)
                a = f.node.args
                params = [x.arg for x in a.args]
                if a.vararg:
                    env2[a.vararg.arg] = tuple(args[len(params) :])
                for p, v in zip(params, args):
                    env2[p] = v
                return self.eval(f.node.body, env2, f.cls)
            if f.node.name in self.abstract and f.mod == "module":
                return self.abstract[f.node.name](self, None, list(args), kw)
            return self.call_fn(f.node, list(args), f.cls, kw, closure_env=f.env)
        if isinstance(f, Bound):
            if f.name in self.abstract:
                return self.abstract[f.name](self, f.obj, list(args), kw)
            return self.call_method(f.cls, f.name, f.obj, args, kw)
        if isinstance(f, ClassRef):
            return call_class(self, f.name, args, kw)
        if isinstance(f, ModFn):
            return modfn(self, f.mod, f.name, args, kw)
        if isinstance(f, PyMethod):
            return pymethod(self, f.obj, f.name, args, kw)
        if callable(f):
            return f(self, *args, **kw)
        if f is None:
            raise PyRaise("TypeError", "None not callable")
        raise Unsupported("call of " + type(f).__name__ + (" " + ast.unparse(node.func) if node else ""))
