"""Bounded stand-ins (label B): run-time contracts on the REAL functions under /venv/bin/python over a
stated finite family.  Never counted as proved.  Each harness is /verif/bounded/<script>.py and prints one
JSON object on its last stdout line:
  {evaluations, distinct_nontrivial, rule, samples, exhaustive, failures:[{id,key,detail,cex}], assumptions:[...]}
Cache isolation (DESIGN 2.6): HOME is a scratch dir; harnesses that load models copy the YAML files into
$HOME/.osaca/data so that models are rebuilt by the current /repo code instead of stale pickles."""
import json
import os
import shutil
import subprocess
import tempfile

from .runner import Unit, REPO, VERIF, VENV_PY


def run_bounded(script, tier, seed, timeout, extra_args=()):
    home = tempfile.mkdtemp(prefix="pyvc_home_")
    try:
        env = dict(os.environ)
        env.update(HOME=home, PYTHONPATH=REPO + os.pathsep + VERIF, OSACA_REPO=REPO, PYTHONDONTWRITEBYTECODE="1",
                   PYTHONWARNINGS="ignore", OSACA_VERIF="1")
        cmd = [VENV_PY, os.path.join(VERIF, "bounded", script + ".py"), "--tier", tier, "--seed", str(seed)] + list(extra_args)
        p = subprocess.run(cmd, capture_output=True, text=True, timeout=timeout, env=env, cwd=REPO)
        lines = [l for l in p.stdout.strip().split("\n") if l.startswith("{")]
        if not lines:
            return dict(status="crash", reason=f"harness {script} gave no verdict (rc={p.returncode}): {p.stderr[-1500:]}", obligations=[])
        r = json.loads(lines[-1])
        obls = []
        for i, f in enumerate(r.get("failures", [])):
            obls.append(dict(id=f.get("id") or f"{script}/failure#{i}", status="failed", key=f.get("key"), detail=f.get("detail"),
                             cex=f.get("cex"), replayed=True, label="B", backend="runtime-contract", time=0))
        if r.get("evaluations", 0) == 0:
            return dict(status="crash", reason=f"harness {script} evaluated nothing", obligations=[])
        r["obligations"] = obls
        return r
    finally:
        shutil.rmtree(home, ignore_errors=True)


def bounded_unit(uid, script, functions=(), timeout=900, extra_args=(), decisive=False):
    def fn(tier, seed):
        return run_bounded(script, tier, seed, timeout - 30, extra_args)

    return Unit(uid, fn, "B", functions, decisive=decisive, timeout=timeout, kind="bounded")
