"""B stand-in for C08 (and the history half of C18): the REAL parser + ArchSemantics.add_semantics on a curated vocabulary
x shipped models (quick: zen2, hsw, a64fx, v2; thorough: all non-empty models) compared with an INDEPENDENT recomputation of
the statement from the plain YAML of the model (ruamel safe load, own entry lookup with contracts/spec_matcher.py):
own entry -> its data; no own entry but a register form -> register form + load/store micro-ops of the addressing mode and
register type (+ multipliers), latency + load latency, throughput = max(reg throughput, busiest data port), not unknown;
neither -> unknown flags, zero pressure, zero latency.  Every kernel is analysed twice with the same model object and the
model is deep-compared with its state after loading (a composition must not change the model)."""
import copy, os, sys
sys.path.insert(0, os.path.dirname(os.path.abspath(__file__)))
from common import args, isolate_models, Report, REPO
from contracts import spec_matcher as S
A = args()
MODELS = {"x86": ["zen2", "hsw"], "aarch64": ["a64fx", "v2"]}
if A.tier == "thorough":
    MODELS = {"x86": ["zen1", "zen2", "zen3", "zen4", "snb", "ivb", "hsw", "icl", "icx", "spr"], "aarch64": ["a64fx", "tx2", "n1", "a72", "tsv110", "m1", "v2"]}
isolate_models([m for v in MODELS.values() for m in v])
from ruamel.yaml import YAML
from osaca.parser import get_parser
from osaca.semantics import MachineModel, ArchSemantics
from osaca.parser.register import RegisterOperand
from osaca.parser.memory import MemoryOperand
from osaca.parser.immediate import ImmediateOperand
from osaca.parser.identifier import IdentifierOperand
from osaca.parser.condition import ConditionOperand
from osaca.parser.prefetch import PrefetchOperand

R = Report("curated vocabulary (memory operand as load / store / read-modify-write, register forms, unknown mnemonics) x models; each analysed twice; distinct = distinct (model, line)", exhaustive=True)
VOCAB = {
    "x86": ["addq %rax, 8(%rbx)", "addq 8(%rbx), %rax", "add 8(%rbx), %rax", "vaddpd (%rax,%rcx,8), %ymm0, %ymm1", "vmulpd 16(%rsi), %xmm1, %xmm2", "movq %rax, (%rbx)",
            "sub (%rax), %rbx", "addq (%rax), %rbx", "xorq %rbx, (%rax)", "vmaskmovdqu (%rcx), %xmm2", "foo %rax, 8(%rbx)", "incq 8(%rax)", "vfmadd231pd (%rdx), %ymm2, %ymm3",
            "cmpq $1, 8(%rax)", "addq %rax, %rbx", "vaddpd %ymm0, %ymm1, %ymm2", "imulq 8(%rsi,%rdi,4), %rax", "vdivsd (%rax), %xmm1, %xmm2", "orl %ecx, 4(%rdx)", "vaddps (%rax), %zmm1, %zmm2",
            "addq (%rsi), %rdi", "addq %rcx, (%rdx)", "subq $8, (%rsp)", "bar 8(%rbx), %rax",
            # indexed stores / read-modify-write (table rows with and without an index register differ on some models)
            "addq %rax, 8(%rbx,%rcx,8)", "movq %rax, (%rbx,%rcx,8)", "vmovapd %ymm0, 16(%rax,%rdx,4)", "addq (%rax,%rbx), %rcx", "movq %rdx, 8(,%rax,8)"],
    "aarch64": ["ldr x1, [x2, #8]", "str q0, [x1], #16", "ldp d0, d1, [x3]", "fmla v0.2d, v1.2d, v2.2d", "ld1d {z0.d}, p0/z, [x0, x1, lsl #3]", "st1d {z0.d}, p0, [x0]",
                "ldr q1, [x2, x3, lsl #4]", "foo x1, [x2]", "str x1, [x2, #8]", "ldr d0, [x1, #16]!", "stp q0, q1, [x2]", "ldur d3, [x4, #-8]", "ldrsw x5, [x6, x7, lsl #2]", "stur q1, [x0, #-16]",
                "add x1, x2, x3", "ld1 {v0.2d, v1.2d}, [x1]", "st1 {v0.4s}, [x2], #16", "ldnp q0, q1, [x1]", "prfm pldl1keep, [x1, #256]"],
}


class NS:
    def __init__(self, **kw):
        self.__dict__.update(kw)


def yaml_operand(o):
    """plain-YAML operand dict -> attribute object (independent of MachineModel.operand_to_class)"""
    c = o.get("class")
    if c == "register":
        return ("reg", NS(name=o.get("name"), prefix=o.get("prefix"), shape=o.get("shape")))
    if c == "memory":
        g = lambda k: (o[k].get("name") or o[k].get("prefix")) if isinstance(o.get(k), dict) else o.get(k)
        return ("mem", NS(base=g("base"), offset=o.get("offset"), index=g("index"), scale=o.get("scale"), pre_indexed=o.get("pre_indexed", False), post_indexed=o.get("post_indexed", False),
                          dst=o.get("dst"), src=o.get("src")))
    if c == "immediate":
        return ("imm", NS(imd_type=o.get("imd")))
    if c == "identifier":
        return ("ident", NS())
    if c == "condition":
        return ("cond", NS(ccode=str(o.get("ccode")).upper()))
    if c == "prfop":
        return ("prf", NS())
    return ("other", NS())


def kind(off):
    return None if off is None else "id" if isinstance(off, IdentifierOperand) else "imd"


def agrees(eo, p, isa):
    k, e = eo
    if isinstance(p, dict):  # wildcard standing for the memory operand
        return k == "reg"
    if isinstance(p, RegisterOperand):
        return k == "reg" and (S.x86_reg_agrees(e.name, p) if isa == "x86" else S.a64_reg_agrees(e, p))
    if isinstance(p, MemoryOperand):
        return k == "mem" and (S.x86_mem_agrees(e, p, kind(p.offset)) if isa == "x86" else S.a64_mem_agrees(e, p, kind(p.offset)))
    if isinstance(p, ImmediateOperand):
        if p.identifier is not None and isa == "aarch64":
            return k == "ident"
        return k == "imm" and (e.imd_type == "int" if isa == "x86" else S.imm_agrees_a64(e.imd_type, p.imd_type, p.value is not None))
    if isinstance(p, IdentifierOperand):
        return k == "ident"
    if isinstance(p, ConditionOperand):
        return k == "cond" and (e.ccode == "*" or e.ccode == p.ccode)
    if isinstance(p, PrefetchOperand):
        return k == "prf"
    return False


class YModel:
    def __init__(self, arch):
        self.d = YAML(typ="safe").load(open(os.path.join(REPO, "osaca", "data", arch + ".yml")))
        self.isa = self.d["isa"].lower()
        self.forms = {}
        for f in self.d["instruction_forms"]:
            names = f["name"] if isinstance(f["name"], list) else [f["name"]]
            for n in names:
                self.forms.setdefault(n.upper(), []).append(f)
        # alias entries are appended after the others by the loader: keep file order for non-alias, aliases last
        self.ports = self.d["ports"]

    def lookup(self, name, ops):
        for f in self.forms.get(name.upper(), []):
            eos = [yaml_operand(o) for o in (f.get("operands") or [])]
            if len(eos) == len(ops) and all(agrees(e, p, self.isa) for e, p in zip(eos, ops)):
                return f
        return None

    def lookup_fallback(self, mn, ops):
        f = self.lookup(mn, ops)
        if f is None and self.isa == "x86" and mn[-1] in "bswlqt":
            f = self.lookup(mn[:-1], ops)
        if f is None and self.isa == "aarch64" and "." in mn:
            f = self.lookup(mn[: mn.index(".")], ops)
        return f

    def avg(self, uops, mult=1.0):
        out = [0.0] * len(self.ports)
        if isinstance(uops, dict):
            uops = uops[0]
        for cyc, ports in uops or []:
            for p in ports:
                out[self.ports.index(p)] += cyc / len(ports) * mult
        return out


def expected(ym, k):
    """-> dict(uops, pressure, tp, lat, lwl, unknown(tp, lt)) per the statement"""
    isa = ym.isa
    zero = [0.0] * len(ym.ports)
    ops = k.operands
    own = ym.lookup_fallback(k.mnemonic, ops)
    if own is not None:
        tp, lat = own.get("throughput"), own.get("latency")
        return dict(kind="own", uops=own.get("port_pressure"), pressure=ym.avg(own.get("port_pressure")), tp=tp if tp is not None else 0.0, lat=lat if lat is not None else 0.0,
                    lwl=lat if lat is not None else 0.0, unk=(tp is None, lat is None))
    so = k.semantic_operands
    loads = [o for o in so["source"] + so["src_dst"] if isinstance(o, MemoryOperand)]
    stores = [o for o in so["destination"] + so["src_dst"] if isinstance(o, MemoryOperand)]
    unknown = dict(kind="unknown", uops=None, pressure=zero, tp=0.0, lat=0.0, lwl=0.0, unk=(True, True))
    if not loads and not stores:
        return unknown
    sub = [({"*": "*"} if isinstance(o, MemoryOperand) else o) for o in ops]
    regf = ym.lookup_fallback(k.mnemonic, sub)
    if regf is None:
        return unknown
    pos = next(i for i, o in enumerate(ops) if isinstance(o, MemoryOperand))
    eo = yaml_operand(regf["operands"][pos])[1]
    rtype = (("gpr" if eo.name not in ("xmm", "ymm", "zmm", "mm") else eo.name) if isa == "x86" else eo.prefix)
    mem_ok = (lambda row, m: S.x86_mem_agrees(yaml_operand(dict(row, **{"class": "memory"}))[1], m, kind(m.offset))) if isa == "x86" else \
             (lambda row, m: S.a64_mem_agrees(yaml_operand(dict(row, **{"class": "memory"}))[1], m, kind(m.offset)))
    uops = list(regf.get("port_pressure") or [])
    data = list(zero)
    if loads:
        rows = [r for r in ym.d.get("load_throughput", []) if mem_ok(r, loads[0])]
        typed = [r for r in rows if r.get("dst") is not None and r.get("dst") == rtype]
        # the statement: load micro-ops "for its addressing mode and register type": a row typed for this register type, else a row
        # that holds for every register type (no dst), else - only rows for other types - the first row
        untyped = [r for r in rows if r.get("dst") is None]
        lu = (typed[0] if typed else untyped[0] if untyped else rows[0])["port_pressure"] if rows else ym.d["load_throughput_default"]
        mult = (ym.d.get("load_throughput_multiplier") or {}).get(rtype, 1) if "load_throughput_multiplier" in ym.d else 1
        data = [a + b for a, b in zip(data, ym.avg(lu, mult))]
        uops += list(lu)
    if stores:
        # the statement: store micro-ops "for its addressing mode and register type": a row typed for this register type, else a
        # row for the addressing mode that holds for every register type (no src), else the default
        shape = [r for r in ym.d.get("store_throughput", []) if mem_ok(r, stores[0])]
        rows = [r for r in shape if r.get("src") is not None and r.get("src") == rtype] or [r for r in shape if r.get("src") is None]
        su = rows[0]["port_pressure"] if rows else ym.d["store_throughput_default"]
        if isa == "aarch64" and not [o for o in so["destination"] if isinstance(o, MemoryOperand)] and all(o.post_indexed or o.pre_indexed for o in so["src_dst"] if isinstance(o, MemoryOperand)):
            su = []
        mult = (ym.d.get("store_throughput_multiplier") or {}).get(rtype, 1) if "store_throughput_multiplier" in ym.d else 1
        data = [a + b for a, b in zip(data, ym.avg(su, mult))]
        uops += list(su)
    tp, lat = regf.get("throughput"), regf.get("latency")
    lat0 = lat if lat is not None else 0.0
    ll = (ym.d.get("load_latency") or {}).get(rtype) or 0
    return dict(kind="composed", uops=uops, pressure=[a + b for a, b in zip(ym.avg(regf.get("port_pressure")), data)], tp=max(max(data), tp if tp is not None else 0.0),
                lat=lat0 + (ll if loads else 0), lwl=lat0, unk=(tp is None, lat is None))


def norm_uops(u):
    if u is None:
        return None
    if isinstance(u, dict):
        u = u[0] if 0 in u else list(u.values())[0]
    return sorted((float(c), tuple(p)) for c, p in u)


def snap(v, depth=0):
    if isinstance(v, dict):
        return {str(k): snap(x, depth + 1) for k, x in v.items() if k != "instruction_forms_dict"}
    if isinstance(v, (list, tuple)):
        return [snap(x, depth + 1) for x in v]
    if hasattr(v, "__dict__"):
        return {"__cls__": type(v).__name__, **{k: snap(x, depth + 1) for k, x in v.__dict__.items()}}
    return v


for isa, archs in MODELS.items():
    parser = get_parser(isa)
    for arch in archs:
        mm = MachineModel(arch=arch)
        ym = YModel(arch)
        before = snap(mm._data)
        sem = ArchSemantics(mm)
        results = {}
        for rnd_ in (1, 2):
            for line in VOCAB[isa]:
                desc = dict(arch=arch, line=line, analysis_no=rnd_)
                try:
                    k = parser.parse_file(line + "\n")[0]
                    ArchSemantics(mm).add_semantics([k]) if rnd_ == 2 else sem.add_semantics([k])
                except Exception as e:
                    R.case((arch, line), sample=desc)
                    # (the snb divider port 'DIV' is the recorded C15 data finding; any other crash is reported under its own key)
                    key = "compose:snb:port-DIV" if (arch == "snb" and "Port 'DIV' not in port list" in repr(e)) else f"C08:crash:{arch}:{line}"
                    R.fail("C08/compose/crash", key, f"{arch} {line!r}: analysis raised {e!r}", desc)
                    continue
                got = dict(uops=norm_uops(k.port_uops), pressure=list(k.port_pressure), tp=k.throughput, lat=k.latency, lwl=k.latency_wo_load,
                           unk=("tp_unknown" in k.flags, "lt_unknown" in k.flags))
                if rnd_ == 2:
                    if got != results.get(line):
                        R.fail("C08/compose/second-analysis-differs", f"C08:history:{arch}:{line}", f"{arch} {line!r}: second analysis in the same process gives {got}, first gave {results.get(line)}", desc)
                    continue
                results[line] = got
                exp = expected(ym, k)
                R.case((arch, line), nontrivial=exp["kind"] != "own", sample=dict(arch=arch, line=line, expected=exp["kind"]))
                bad = []
                if exp["kind"] != "unknown" and norm_uops(exp["uops"]) != got["uops"]:
                    bad.append(f"micro-ops {got['uops']} != {norm_uops(exp['uops'])}")
                if len(got["pressure"]) != len(exp["pressure"]) or any(abs(a - b) > 1e-9 for a, b in zip(got["pressure"], exp["pressure"])):
                    bad.append(f"pressure {[round(x, 4) for x in got['pressure']]} != {[round(x, 4) for x in exp['pressure']]}")
                for fld in ("tp", "lat", "lwl"):
                    if abs(float(got[fld]) - float(exp[fld])) > 1e-9:
                        bad.append(f"{fld} {got[fld]} != {exp[fld]}")
                if got["unk"] != exp["unk"]:
                    bad.append(f"unknown flags (tp, lt) {got['unk']} != {exp['unk']}")
                if bad:
                    R.fail("C08/compose/" + exp["kind"], f"C08:{exp['kind']}:{arch}:{line}", f"{arch} {line!r} ({exp['kind']}): " + "; ".join(bad)[:600], desc)
        after = snap(mm._data)
        if after != before:
            diff = [k_ for k_ in before if before[k_] != after.get(k_)]
            R.fail("C08/compose/model-mutated", f"C18:model-mutated:{arch}", f"{arch}: the machine model changed while analysing (keys {diff})", dict(arch=arch))
R.done()
