"""B stand-in for C20: run-time contract on the real import_benchmark_output + MachineModel.dump.

Family (exhaustive within the bound): every documented single operand code and every m-code over all subsets of
the ISA's address letters (canonical order, quick; + reversed order, thorough), measurements at
1/n * {0.94, 0.951, 1, 1.049, 1.06} (n = 1..10) and k * {0.949, 0.951, 1, 1.049, 1.051} (k in 1,2,3,4,7,10,20,50),
ibench files with TP/LT in both orders and with one of them missing, asmbench files with a corrupted block at
every block position.  The emitted stream is parsed as plain YAML and compared with an independent reference."""
import io, itertools, os, sys, tempfile, warnings
from fractions import Fraction
sys.path.insert(0, os.path.dirname(os.path.abspath(__file__)))
from common import args, isolate_models, Report

A = args()
warnings.simplefilter("ignore")
isolate_models(["zen1", "n1"])
import osaca.db_interface as dbi
from ruamel.yaml import YAML

R = Report("operand codes x measurements x file layouts as stated in the module docstring; distinct = distinct (isa, code, tp, lt, layout)", exhaustive=True)


def ref_tp(v):
    v = Fraction(v)
    for n in range(1, 11):
        if Fraction(95, 100) / n <= v <= Fraction(105, 100) / n:
            return float(round(Fraction(1, n), 5))
    return None


def ref_lt(v):
    v = Fraction(v)
    k = round(v)
    if abs(v - k) <= Fraction(5, 100) * k:
        return float(k)
    return None


def ref_operand(code, isa):
    if code == "i":
        return {"class": "immediate", "imd": "int"}
    if isa == "x86":
        if code == "r":
            return {"class": "register", "name": "gpr"}
        if code in ("x", "y", "z"):
            return {"class": "register", "name": code + "mm"}
    else:
        if code in tuple("wxbhsdq"):
            return {"class": "register", "prefix": code}
        if code[0] == "v":
            return {"class": "register", "prefix": "v", "shape": code[1:] or "d"}
    assert code[0] == "m"
    d = {"class": "memory", "base": ("gpr" if isa == "x86" else "x") if "b" in code[1:] else None,
         "offset": "imd" if "o" in code[1:] else None, "index": "gpr" if "i" in code[1:] else None,
         "scale": 8 if "s" in code[1:] else 1}
    if isa == "aarch64":
        d["pre_indexed"] = "r" in code[1:]
        d["post_indexed"] = "p" in code[1:]
    return d


def codes(isa):
    letters = "bois" if isa == "x86" else "boisrp"
    singles = ["r", "x", "y", "z", "i"] if isa == "x86" else ["i"] + list("wxbhsdq") + ["v", "vb", "vh", "vs", "vd"]
    mems = []
    for n in range(len(letters) + 1):
        for c in itertools.combinations(letters, n):
            mems.append("m" + "".join(c))
            if A.tier == "thorough" and n > 1:
                mems.append("m" + "".join(reversed(c)))
    return singles, mems


TPS = [(n, f) for n in range(1, 11) for f in ("0.94", "0.951", "1", "1.049", "1.06")]
LTS = [(k, f) for k in (1, 2, 3, 4, 7, 10, 20, 50) for f in ("0.949", "0.951", "1", "1.049", "1.051")]


def fmt(fr):
    return "%.6f" % float(fr)


def run_import(arch, kind, text, raw=False):
    with tempfile.NamedTemporaryFile("w", suffix=".dat", delete=False) as f:
        f.write(text)
        path = f.name
    try:
        out = io.StringIO()
        err = io.StringIO()
        old = sys.stderr
        sys.stderr = err
        try:
            dbi.import_benchmark_output(arch, kind, path, output=out)
        finally:
            sys.stderr = old
        data = YAML(typ="safe").load(out.getvalue())
        if raw:
            return data["instruction_forms"]
        return {e["mnemonic"]: e for e in data["instruction_forms"] if str(e.get("mnemonic", "")).startswith("vt")}
    finally:
        os.unlink(path)


def check_entry(tag, got, name, ops, isa, tp, lt, ctx):
    key = f"{isa}:{tag}"
    if got is None:
        R.fail(f"C20/import/{tag}/missing", key, f"imported form {name} not emitted ({ctx})", dict(ctx=ctx))
        return
    want_ops = [ref_operand(c, isa) for c in ops]
    if got.get("operands") != want_ops:
        R.fail(f"C20/import/{tag}/operands", key, f"{name}: operands {got.get('operands')} != documented decoding {want_ops}", dict(ctx=ctx))
    if got.get("throughput") != tp:
        R.fail(f"C20/import/{tag}/throughput", key, f"{name}: throughput {got.get('throughput')} != {tp} ({ctx})", dict(ctx=ctx))
    if got.get("latency") != lt:
        R.fail(f"C20/import/{tag}/latency", key, f"{name}: latency {got.get('latency')} != {lt} ({ctx})", dict(ctx=ctx))


for isa, arch in (("x86", "zen1"), ("aarch64", "n1")):
    singles, mems = codes(isa)
    allcodes = singles + mems
    # ---------------- ibench: one file with many forms; forms cycle through codes x measurements
    forms = []
    meas = list(itertools.zip_longest(TPS, LTS))
    nforms = max(len(allcodes), len(TPS), len(LTS))
    for i in range(nforms):
        c1 = allcodes[i % len(allcodes)]
        c2 = allcodes[(i * 7 + 3) % len(allcodes)]
        n, f = TPS[i % len(TPS)]
        k, g = LTS[i % len(LTS)]
        tpv = Fraction(1, n) * Fraction(f)
        ltv = Fraction(k) * Fraction(g)
        layout = ("tp-lt", "lt-tp", "tp-only", "lt-only")[i % 4] if i >= len(allcodes) // 2 else "tp-lt"
        # names: mostly neutral, some whose mnemonic contains the letters of the measurement tags
        name = f"vt{i}" if i % 7 else ("vtFCVTPS", "vtMULTx", "vtTPLT", "vtltp")[(i // 7) % 4] + str(i)
        forms.append((name, [c1, c2], tpv, ltv, layout))
    lines = ["Using frequency 2.50GHz.", ""]
    for name, ops, tpv, ltv, layout in forms:
        tpl = f"{name}-{'_'.join(ops)}-TP: {fmt(tpv)} (clock cycles)    [DEBUG - result: 0.007813]"
        ltl = f"{name}-{'_'.join(ops)}-LT:    {fmt(ltv)} (clock cycles)    [DEBUG - result: 1.000000]"
        lines += {"tp-lt": [tpl, ltl], "lt-tp": [ltl, tpl], "tp-only": [tpl], "lt-only": [ltl]}[layout]
    got = run_import(arch, "ibench", "\n".join(lines) + "\n")
    for name, ops, tpv, ltv, layout in forms:
        tp = ref_tp(fmt(tpv)) if layout != "lt-only" else None
        lt = ref_lt(fmt(ltv)) if layout != "tp-only" else None
        R.case((isa, "ibench", tuple(ops), fmt(tpv), fmt(ltv), layout), sample=dict(isa=isa, form=name + "-" + "_".join(ops), tp=fmt(tpv), lt=fmt(ltv), layout=layout))
        check_entry("ibench", got.get(name), name, ops, isa, tp, lt, dict(isa=isa, bench="ibench", ops=ops, tp=fmt(tpv), lt=fmt(ltv), layout=layout))
    extra = set(got) - {f[0] for f in forms}
    if extra:
        R.fail("C20/import/ibench/invented", f"{isa}:ibench", f"entries not in the benchmark file were emitted: {sorted(extra)[:5]}")
    # the TP and the LT line of a form need not be neighbours: all TP lines first, then all LT lines in another order
    # ("the TP and LT lines of one ibench form are merged into one entry")
    sep = [f for f in forms[:12] if f[4] in ("tp-lt", "lt-tp")]
    lines = ["Using frequency 2.50GHz.", ""] + [f"{n_}-{'_'.join(o_)}-TP: {fmt(t_)} (clock cycles)    [DEBUG - result: 0.007813]" for n_, o_, t_, l_, _ in sep]
    lines += [f"{n_}-{'_'.join(o_)}-LT:    {fmt(l_)} (clock cycles)    [DEBUG - result: 1.000000]" for n_, o_, t_, l_, _ in reversed(sep)]
    got = run_import(arch, "ibench", "\n".join(lines) + "\n")
    for name, ops, tpv, ltv, layout in sep:
        R.case((isa, "ibench-separated", tuple(ops), fmt(tpv), fmt(ltv)), sample=dict(isa=isa, form=name, layout="TP block, then LT block"))
        check_entry("ibench", got.get(name), name, ops, isa, ref_tp(fmt(tpv)), ref_lt(fmt(ltv)), dict(isa=isa, bench="ibench", ops=ops, tp=fmt(tpv), lt=fmt(ltv), layout="separated"))
    # ---------------- several forms of ONE mnemonic in one file (as real ibench output has them): a new mnemonic, and a
    # mnemonic the target model already knows; every imported form must be emitted
    pairs = [("x", "x"), ("y", "y"), ("x", "mb"), ("r", "r")] if isa == "x86" else [("d", "d"), ("s", "s"), ("x", "x"), ("q", "mb")]
    known = ("vaddpd", [("x", "x", "x"), ("y", "y", "y")]) if isa == "x86" else ("fadd", [("d", "d", "d"), ("s", "s", "s")])
    for mnem, opsets, tag in (("vtsame", pairs, "same-mnemonic"), ("VTUPPER", pairs, "same-mnemonic-upper"), (known[0], known[1], "existing-mnemonic")):
        lines = ["Using frequency 2.50GHz."]
        want = []
        for j, ops in enumerate(opsets):
            n, k = (1, 2, 4, 5)[j % 4], (3, 4, 6, 7)[j % 4]
            lines += [f"{mnem}-{'_'.join(ops)}-TP: {fmt(Fraction(1, n))} (clock cycles)    [DEBUG - result: 0.007813]",
                      f"{mnem}-{'_'.join(ops)}-LT:    {fmt(Fraction(k))} (clock cycles)    [DEBUG - result: 1.000000]"]
            want.append((ops, float(round(Fraction(1, n), 5)), float(k)))
        entries = run_import(arch, "ibench", "\n".join(lines) + "\n", raw=True)
        imported = [e for e in entries if str(e.get("mnemonic", "")).lower() == mnem.lower()]
        for ops, tp, lt in want:
            R.case((isa, tag, ops), sample=dict(isa=isa, form=mnem + "-" + "_".join(ops)))
            wops = [ref_operand(c, isa) for c in ops]
            hit = [e for e in imported if e.get("operands") == wops]
            if not hit:
                key_ = "C20:existing-mnemonic:x86" if (tag == "same-mnemonic-upper" and isa == "x86") else f"C20:{tag}:{isa}"
                R.fail(f"C20/import/{tag}/missing", key_, f"imported form {mnem}-{'_'.join(ops)} is not in the emitted model ({len(imported)} forms of that mnemonic emitted)", dict(isa=isa, form=mnem, ops=ops))
            elif (hit[0].get("throughput"), hit[0].get("latency")) != (tp, lt):
                R.fail(f"C20/import/{tag}/values", f"C20:{tag}-values:{isa}", f"{mnem}-{'_'.join(ops)}: emitted (tp, lt) = {(hit[0].get('throughput'), hit[0].get('latency'))}, measured {(tp, lt)}", dict(isa=isa, form=mnem, ops=ops))
    # ---------------- asmbench: blocks of 4 lines, corruption at each block position
    blocks = []
    for i in range(12):
        c1 = allcodes[(i * 5) % len(allcodes)]
        n, f = TPS[(i * 11) % len(TPS)]
        k, g = LTS[(i * 3) % len(LTS)]
        blocks.append((f"vt{i}", [c1, allcodes[(i * 3 + 1) % len(allcodes)]], Fraction(1, n) * Fraction(f), Fraction(k) * Fraction(g)))
    # file endings: closing empty line of the last block missing / one extra empty line: all blocks are imported
    for ending in ("no-closing-line", "extra-empty-line"):
        text = []
        for name, ops, tpv, ltv in blocks[:3]:
            text += [f"{name}-{'_'.join(ops)}", f"Latency: {fmt(ltv)} cy", f"Throughput: {fmt(tpv)} cy", ""]
        text = text[:-1] if ending == "no-closing-line" else text + [""]
        R.case((isa, "asmbench-ending", ending), sample=dict(isa=isa, bench="asmbench", ending=ending))
        try:
            got = run_import(arch, "asmbench", "\n".join(text) + "\n")
            for name, ops, tpv, ltv in blocks[:3]:
                check_entry("asmbench", got.get(name), name, ops, isa, ref_tp(fmt(tpv)), ref_lt(fmt(ltv)), dict(isa=isa, bench="asmbench", ending=ending))
        except Exception as e:
            R.fail("C20/import/asmbench/crash", f"{isa}:asmbench-ending", f"asmbench file with {ending}: import raised {e!r}")
    # a measurement of exactly 0 is a number like any other (a zero-latency move): the block is well-formed, every block is imported
    text = []
    for j, (name, ops, tpv, ltv) in enumerate(blocks[:4]):
        text += [f"{name}-{'_'.join(ops)}", "Latency: 0.00 cy" if j == 1 else f"Latency: {fmt(ltv)} cy", f"Throughput: {fmt(tpv)} cy", ""]
    R.case((isa, "asmbench-zero-latency"), sample=dict(isa=isa, bench="asmbench", kind="zero-latency"))
    try:
        got = run_import(arch, "asmbench", "\n".join(text) + "\n")
        for j, (name, ops, tpv, ltv) in enumerate(blocks[:4]):
            check_entry("asmbench", got.get(name), name, ops, isa, ref_tp(fmt(tpv)), 0.0 if j == 1 else ref_lt(fmt(ltv)), dict(isa=isa, bench="asmbench", kind="zero-latency", block=j))
    except Exception as e:
        R.fail("C20/import/asmbench/crash", f"{isa}:asmbench-zero-latency", f"asmbench file with 'Latency: 0.00 cy': import raised {e!r}")
    # kinds of corruption of one block: text on the separator line, the throughput line missing (separator kept), a
    # measurement that is no number, latency and throughput lines interchanged (statement: a malformed block stops the
    # import at that block without affecting earlier entries)
    def block_lines(name, ops, tpv, ltv, kind):
        lines = [f"{name}-{'_'.join(ops)}", f"Latency: {fmt(ltv)} cy", f"Throughput: {fmt(tpv)} cy", ""]
        if kind == "garbage-separator":
            lines[3] = "garbage"
        elif kind == "throughput-line-missing":
            lines = [lines[0], lines[1], ""]
        elif kind == "not-a-number":
            lines[1] = "Latency: n/a cy"
        elif kind == "lines-interchanged":
            lines[1], lines[2] = lines[2], lines[1]
        elif kind == "unknown-operand-code":
            lines[0] = f"{name}-{ops[0]}_qq7"
        elif kind == "latency-nan":
            lines[1] = "Latency: nan cy"
        elif kind == "throughput-inf":
            lines[2] = "Throughput: inf cy"
        elif kind == "no-operand-part":
            lines[0] = name
        return lines

    # further kinds: an operand code outside the naming convention (the block cannot be decoded: malformed); a measurement that is a
    # float but no number (nan / inf: either the block counts as malformed, or the form is emitted with that measurement MISSING -
    # "recorded as missing rather than invented"); a name without operand part (documented as optional: either an entry without
    # operands or a malformed block).  Whatever is chosen, the import must not crash and earlier entries must be emitted.
    kinds = ["garbage-separator", "throughput-line-missing", "not-a-number", "lines-interchanged", "unknown-operand-code", "latency-nan", "throughput-inf", "no-operand-part"]
    EITHER = {"latency-nan": "lt", "throughput-inf": "tp", "no-operand-part": "ops"}
    plan = [(None, None)] + [(b, "garbage-separator") for b in range(len(blocks) if A.tier == "thorough" else 5)] + [(b, k) for k in kinds[1:] for b in ((0, 2, 11) if A.tier != "thorough" else range(len(blocks)))]
    for bad, kind in plan:
        text = []
        for j, (name, ops, tpv, ltv) in enumerate(blocks):
            text += block_lines(name, ops, tpv, ltv, kind if j == bad else None)
        try:
            got = run_import(arch, "asmbench", "\n".join(text) + "\n")
        except Exception as e:
            R.case((isa, "asmbench", bad, kind), sample=dict(isa=isa, bench="asmbench", bad_block=bad, kind=kind))
            R.fail("C20/import/asmbench/crash", f"{isa}:asmbench-malformed:{kind}", f"asmbench file whose block {bad} is malformed ({kind}): import raised {e!r} instead of stopping at that block", dict(isa=isa, bad_block=bad, kind=kind))
            continue
        bad_key = blocks[bad][0] if bad is not None else None
        for j, (name, ops, tpv, ltv) in enumerate(blocks):
            R.case((isa, "asmbench", bad, j, kind), sample=dict(isa=isa, bench="asmbench", bad_block=bad, form=name))
            if bad is not None and kind in EITHER and bad_key in got:
                # the block was taken as well-formed: then every block is imported, this one with the questionable part missing
                want_tp, want_lt, want_ops = ref_tp(fmt(tpv)), ref_lt(fmt(ltv)), ops
                if j == bad:
                    want_tp, want_lt, want_ops = (None if EITHER[kind] == "tp" else want_tp), (None if EITHER[kind] == "lt" else want_lt), ([] if EITHER[kind] == "ops" else ops)
                check_entry("asmbench", got.get(name), name, want_ops, isa, want_tp, want_lt, dict(isa=isa, bench="asmbench", ops=want_ops, bad_block=bad, kind=kind))
            elif bad is not None and j >= bad:
                if name in got:
                    R.fail("C20/import/asmbench/not-stopped", f"{isa}:asmbench", f"block {j} imported although block {bad} is malformed")
            else:
                check_entry("asmbench", got.get(name), name, ops, isa, ref_tp(fmt(tpv)), ref_lt(fmt(ltv)),
                            dict(isa=isa, bench="asmbench", ops=ops, tp=fmt(tpv), lt=fmt(ltv), bad_block=bad))
R.done()
