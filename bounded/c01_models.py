"""B stand-in for C01 on SYNTHETIC MODEL FILES through the real pipeline (loader -> parser -> add_semantics -> balancing):
random port models with overlapping / nested / disjoint micro-op port sets, multi-character port names, forms with alternative
port assignments, load/store tables with defaults and register-type multipliers; kernels of register and memory forms (load,
store); 0, 1 and 2 balancing passes (the CLI runs two).  Per instruction the statement's clauses are checked against the
micro-ops the instruction carries: nothing negative, nothing on a port no micro-op may use, the values add up to the micro-ops'
cycles with the load / store share scaled by the multiplier of the register type, every port set carries the cycles of the micro-ops
confined to it (exactly for uniform scheduling, up to 0.01 cycles per micro-op after balancing).  A crash of the analysis is a failure.
Complements c01_optimal.py, which builds the instruction objects by hand and therefore never meets multipliers or composed forms.
usage: c01_models.py --tier T --seed S"""
import itertools, os, random, sys, tempfile
sys.path.insert(0, os.path.dirname(os.path.abspath(__file__)))
from common import args, isolate_models, Report, REPO

A = args()
isolate_models([])
sys.path.insert(0, REPO)
from osaca.parser import ParserX86ATT
from osaca.semantics import ArchSemantics, MachineModel

PORTS = ["P0", "P1", "P2", "P3", "L0", "L1", "ST"]
ALU = PORTS[:4]
HEADER = """osaca_version: 0.5.0
micro_architecture: Synthetic
arch_code: SYN
isa: x86
hidden_loads: %(hidden)s
load_latency: {gpr: 4.0, mm: 4.0, xmm: 4.0, ymm: 4.0}
%(mult)s
load_throughput: []
load_throughput_default: [[1, ['L0', 'L1']]]
store_throughput: []
store_throughput_default: [[1, ['L0', 'L1']], [1, ['ST']]]
ports: %(ports)s
instruction_forms:
"""
REGS = {"gpr": ["%rax", "%rbx", "%rcx"], "ymm": ["%ymm1", "%ymm2", "%ymm3"]}


def uops_text(u):
    return "[" + ", ".join("[%s, [%s]]" % (c, ", ".join("'%s'" % p for p in ps)) for c, ps in u) + "]"


def gen_model(rnd, tmp, idx, with_mult):
    forms, spec = [], {}
    for i in range(6):
        rt = rnd.choice(["gpr", "gpr", "ymm"])

        def one():
            return [(rnd.choice([1, 1, 2, 3, 4]), rnd.sample(ALU, rnd.randint(1, 3))) for _ in range(rnd.randint(1, 2))]

        alts = [one()] if rnd.random() < 0.7 else [one(), one()]
        name = "op%d" % i
        pp = uops_text(alts[0]) if len(alts) == 1 else "{" + ", ".join("%d: %s" % (k, uops_text(a)) for k, a in enumerate(alts)) + "}"
        forms.append("- name: %s\n  operands:\n  - class: register\n    name: %s\n  - class: register\n    name: %s\n  throughput: 1.0\n  latency: 1.0\n  port_pressure: %s\n" % (name, rt, rt, pp))
        spec[name] = (rt, alts)
    mult = {"gpr": 1.0, "xmm": 1.0, "ymm": 2.0}
    mtxt = ("load_throughput_multiplier: {gpr: 1.0, xmm: 1.0, ymm: 2.0}\nstore_throughput_multiplier: {gpr: 1.0, xmm: 1.0, ymm: 2.0}" if with_mult else "")
    path = os.path.join(tmp, "syn%d.yml" % idx)
    # every model lists the ports in its own order (all models share the arch_code: nothing may be keyed by it)
    order = rnd.sample(PORTS, len(PORTS))
    with open(path, "w") as f:
        # (a model may leave hidden_loads without a value, as ivb.yml / snb.yml do: not specified = no hidden loads)
        f.write(HEADER % dict(hidden=("false", "~")[idx % 3 == 2], mult=mtxt, ports="[" + ", ".join("'%s'" % p for p in order) + "]") + "".join(forms))
    return path, spec, (mult if with_mult else {"gpr": 1.0, "ymm": 1.0}), order


def gen_kernel(rnd, spec):
    lines, meta = [], []
    for _ in range(rnd.randint(1, 5)):
        name = rnd.choice(sorted(spec))
        rt, alts = spec[name]
        r = REGS[rt]
        kind = rnd.choice(["reg", "reg", "load", "store"])
        if kind == "reg":
            lines.append("%s %s, %s" % (name, rnd.choice(r), rnd.choice(r)))
        elif kind == "load":
            lines.append("%s (%%rsi), %s" % (name, rnd.choice(r)))
        else:
            lines.append("%s %s, (%%rdi)" % (name, rnd.choice(r)))
        meta.append((name, kind))
    return lines, meta


def clauses(form, name, kind, spec, mult, passes, order):
    """violated clauses of the statement for one analysed instruction"""
    rt, alts = spec[name]
    uops = form.port_uops if not isinstance(form.port_uops, dict) else list(form.port_uops.values())[0]
    uops = [(c, [p for p in ps]) for c, ps in uops]
    n_data = {"reg": 0, "load": 1, "store": 2}[kind]
    n_reg = len(uops) - n_data
    regpart = [(c, sorted(ps)) for c, ps in uops[:n_reg]]
    out = []
    if regpart not in [[(c, sorted(ps)) for c, ps in a] for a in alts]:
        out.append(("own-uops", "micro-ops %s are none of the form's alternatives %s" % (uops, alts)))
        return out
    scaled = [(c, ps) for c, ps in uops[:n_reg]] + [(c * mult[rt], ps) for c, ps in uops[n_reg:]]
    pp = dict(zip(order, form.port_pressure))
    tol = 1e-6 if passes == 0 else 0.01 * len(uops) + 1e-6
    used = sorted({p for _, ps in scaled for p in ps})
    if any(v < -1e-9 for v in pp.values()):
        out.append(("negative", "negative pressure %s" % pp))
    if any(abs(v) > 1e-9 for p, v in pp.items() if p not in used):
        out.append(("foreign-port", "pressure %s on a port none of its micro-ops %s may use" % (pp, uops)))
    total = sum(c for c, _ in scaled)
    if abs(sum(pp.values()) - total) > tol:
        out.append(("sum", "pressure sums to %.4f, micro-ops (load/store share x %s) take %.4f cycles: %s / %s" % (sum(pp.values()), mult[rt], total, pp, uops)))
    for r in range(1, len(used) + 1):
        for sub in itertools.combinations(used, r):
            need = sum(c for c, ps in scaled if set(ps) <= set(sub))
            if sum(pp[p] for p in sub) < need - tol:
                out.append(("hall", "ports %s carry %.3f but micro-ops confined to them need %.3f: %s / %s" % ("/".join(sub), sum(pp[p] for p in sub), need, pp, uops)))
                return out
    return out


def main():
    R = Report("synthetic model files (6 forms: 1-2 micro-ops on 1-3 of 4 ports, 30% with two alternative assignments; load/store defaults; with and without register-type multipliers) x random kernels of 1-5 register / load / store forms x {0, 1, 2} balancing passes, through loader, parser and add_semantics; distinct = distinct (model, kernel, passes)", exhaustive=False)
    rnd = random.Random(1000 + A.seed)
    tmp = tempfile.mkdtemp(prefix="c01_models_")
    n_models, n_kernels = (12, 25) if A.tier != "thorough" else (60, 60)
    try:
        for mi in range(n_models):
            path, spec, mult, order = gen_model(rnd, tmp, mi, with_mult=(mi % 2 == 1))
            mm = MachineModel(path_to_yaml=path)
            for _ in range(n_kernels):
                lines, meta = gen_kernel(rnd, spec)
                for passes in (0, 1, 2):
                    desc = dict(model=open(path).read()[open(path).read().find("instruction_forms"):], kernel=lines, passes=passes, multipliers=(mi % 2 == 1))
                    R.case((mi, tuple(lines), passes), sample=dict(kernel=lines, passes=passes, multipliers=(mi % 2 == 1)))
                    try:
                        k = ParserX86ATT().parse_file("\n".join(lines) + "\n")
                        sem = ArchSemantics(mm)
                        sem.add_semantics(k)
                        for _p in range(passes):
                            sem.assign_optimal_throughput(k)
                    except Exception as e:
                        R.fail("C01/models/crash", "models:crash:passes=%d:%s" % (passes, type(e).__name__), "analysis of %s with %d balancing pass(es) raised %r" % (lines, passes, e), desc)
                        continue
                    for f, (name, kind) in zip(k, meta):
                        for what, detail in clauses(f, name, kind, spec, mult, passes, order):
                            # the second pass is known to break the Hall clause for overlapping micro-op port sets (known_findings.json)
                            key = "optimal:second-pass:overlapping-uops" if (passes == 2 and what == "hall") else "models:%s:passes=%d" % (what, passes)
                            R.fail("C01/models/" + what, key, "%s (%s, %d passes): %s" % (f.line.strip(), kind, passes, detail), desc)
    finally:
        import shutil
        shutil.rmtree(tmp, ignore_errors=True)
    R.done()


main()
