"""B stand-in for C09 / C10: render -> parse round trip as a run-time postcondition of the REAL parse_line / parse_file.
usage: c09_roundtrip.py --tier T --seed S (x86|aarch64)

Family (exhaustive within the bound): every operand form of the ISA (see forms_*()) in every operand position of 1..4 (5)
operand instructions with the other positions held at a fixed register; every pair of forms for 2-operand
instructions (thorough); x 6 layouts (tabs, no space after comma, spaces before comma, trailing comment, leading blanks,
mixed).  Files: such lines interleaved with blank / comment / label / directive lines for the numbering clause."""
import os, random, sys
sys.path.insert(0, os.path.dirname(os.path.abspath(__file__)))
from common import args, Report
from osaca.parser import get_parser
from osaca.parser.register import RegisterOperand
from osaca.parser.memory import MemoryOperand
from osaca.parser.immediate import ImmediateOperand
from osaca.parser.identifier import IdentifierOperand
from osaca.parser.condition import ConditionOperand

A = args()
ISA = (A.rest or ["x86"])[0]
PROP = "C09" if ISA == "x86" else "C10"
parser = get_parser(ISA)
R = Report(f"{ISA}: operand forms x positions x layouts (+ all pairs in the thorough tier), files with interleaved non-instruction lines; distinct = distinct rendered line", exhaustive=True)
rnd = random.Random(A.seed)


# ---------------------------------------------------------------- expected-operand descriptions: (text, checker)
def reg_x86(name):
    return ("%" + name, lambda o: isinstance(o, RegisterOperand) and o.name == name)


def imm_x86(text, value):
    return ("$" + text, lambda o: isinstance(o, ImmediateOperand) and o.value == value and type(o.value) is int)


def mem_x86(disp, base, index, scale):
    """disp: None | (text, value); base/index: register name or None; scale: None (omitted) | 1,2,4,8"""
    inner = ""
    if base or index:
        inner = "(" + ("%" + base if base else "") + ("," + "%" + index if index else "") + ("," + str(scale) if scale is not None else "") + ")"
    text = (disp[0] if disp else "") + inner

    def chk(o):
        if not isinstance(o, MemoryOperand):
            return False
        okd = (o.offset is None) if disp is None else (isinstance(o.offset, ImmediateOperand) and o.offset.value == disp[1])
        okb = (o.base is None) if base is None else (isinstance(o.base, RegisterOperand) and o.base.name == base)
        oki = (o.index is None) if index is None else (isinstance(o.index, RegisterOperand) and o.index.name == index)
        return okd and okb and oki and o.scale == (scale if scale is not None else 1)

    return (text, chk)


def forms_x86():
    regs = []
    for fam in (("rax", "eax", "ax", "al", "ah"), ("rbx", "ebx", "bx", "bl"), ("rcx", "ecx", "cl"), ("rdx", "edx", "dx"), ("rsp", "esp", "sp", "spl"), ("rbp", "ebp", "bp", "bpl"),
                ("rsi", "esi", "sil"), ("rdi", "edi", "di", "dil"), ("r8", "r8d", "r8w", "r8b"), ("r15", "r15d", "r15w", "r15b"), ("r12", "r13d", "r9w", "r10b", "r11", "r14")):
        regs += [reg_x86(n) for n in fam]
    for v in "xyz":
        regs += [reg_x86(f"{v}mm{i}") for i in (0, 1, 15, 16, 31)]
    imms = [imm_x86("0", 0), imm_x86("1", 1), imm_x86("-1", -1), imm_x86("255", 255), imm_x86("-128", -128), imm_x86("0x0", 0), imm_x86("0xff", 255), imm_x86("-0x10", -16),
            imm_x86("9223372036854775807", 2**63 - 1), imm_x86("0xffffffffffffffff", 2**64 - 1), imm_x86("0xABCdef", 0xABCDEF), imm_x86("0XFF", 255)]
    mems = []
    disps = [None, ("16", 16), ("-8", -8), ("0x40", 64), ("-0x10", -16), ("0", 0)]
    for d in disps:
        for base in (None, "rax", "r13"):
            for index in (None, "rbx", "r9"):
                for scale in (None, 1, 2, 4, 8):
                    if not base and not index:
                        continue
                    if scale is not None and not index:
                        continue
                    mems.append(mem_x86(d, base, index, scale))
    # displacement only (absolute address; a negative absolute address is not meaningful and not generated)
    mems += [mem_x86(d, None, None, None) for d in (("16", 16), ("4096", 4096), ("0x40", 64), ("0x601040", 0x601040), ("0", 0))]
    return regs, imms, mems


def reg_a64(prefix, num, shape=None, lanes=None, index=None, pred=None):
    text = f"{prefix}{num}"
    if shape:
        text += "." + (lanes or "") + shape
    if index is not None:
        text += f"[{index}]"
    if pred:
        text += "/" + pred

    def chk(o):
        return (isinstance(o, RegisterOperand) and o.prefix == prefix.lower() and str(o.name) == str(num) and (o.shape or None) == (shape.lower() if shape else None)
                and (o.lanes or None) == lanes and (None if o.index is None else str(o.index)) == (None if index is None else str(index))
                and (o.predication or None) == (pred.lower() if pred else None))

    return (text, chk)


def imm_a64(text, value, typ="int"):
    def chk(o):
        if not isinstance(o, ImmediateOperand):
            return False
        if typ == "int":
            return o.value == value and type(o.value) is int and o.imd_type == "int"
        return o.imd_type == typ

    return (text, chk)


def mem_a64(base, off=None, index=None, shift=None, pre=False, post=None):
    """base: (prefix, name); off: (text, value); index: (prefix, name); shift: (op, n); post: (text, value)"""
    bt = base[0] + base[1] if base[1] not in ("sp",) else "sp"
    text = "[" + bt
    if off:
        text += ", " + off[0]
    if index:
        text += ", " + index[0] + index[1]
        if shift:
            text += f", {shift[0]} #{shift[1]}" if shift[1] is not None else f", {shift[0]}"
    text += "]"
    if pre:
        text += "!"
    if post:
        text += ", " + post[0]

    def chk(o):
        if not isinstance(o, MemoryOperand):
            return False
        okb = isinstance(o.base, RegisterOperand) and o.base.prefix == base[0] and o.base.name == base[1]
        oko = (o.offset is None) if off is None else (isinstance(o.offset, ImmediateOperand) and o.offset.value == off[1])
        oki = (o.index is None) if index is None else (isinstance(o.index, RegisterOperand) and o.index.prefix == index[0] and o.index.name == index[1])
        want_scale = 2 ** shift[1] if shift and shift[1] is not None else 1
        okp = bool(o.pre_indexed) == pre and ((not o.post_indexed) if post is None else (isinstance(o.post_indexed, dict) and o.post_indexed.get("value") == post[1]))
        return okb and oko and oki and o.scale == want_scale and okp

    return (text, chk)


def forms_a64():
    regs = []
    for p in "xwbhsdq":
        regs += [reg_a64(p, n) for n in (0, 1, 17, 30)]
    regs += [reg_a64("X", 3), reg_a64("W", 29), reg_a64("D", 31)]
    for p in "vz":
        regs += [reg_a64(p, 5, "d", "2"), reg_a64(p, 31, "s", "4"), reg_a64(p, 0, "b", "16"), reg_a64(p, 7, "h", "8"), reg_a64(p, 2, "d")]
    regs += [reg_a64("v", 4, "d", None, 1), reg_a64("v", 9, "s", None, 3), reg_a64("z", 3, "s"), reg_a64("z", 30, "d"), reg_a64("p", 1, pred="m"), reg_a64("p", 2, pred="z"),
             reg_a64("p", 3, "b"), reg_a64("p", 0),
             # 128-bit element shape (pmull v0.1q, ...; SVE z0.q) and upper-case shape letters
             reg_a64("v", 6, "q", "1"), reg_a64("z", 8, "q"), reg_a64("v", 10, "D", "2"), reg_a64("v", 11, "q", None, 0)]
    imms = [imm_a64("#5", 5), imm_a64("5", 5), imm_a64("#-3", -3), imm_a64("#0x10", 16), imm_a64("#0", 0), imm_a64("#4095", 4095), imm_a64("#0xff", 255), imm_a64("#-0x8", -8),
            imm_a64("#1.5", None, "double"), imm_a64("#2.0e+0", None, "double"), imm_a64("#1.0f", None, "float"),
            # exponent without sign, upper-case exponent letter and upper-case hexadecimal prefix are legal GNU as spellings
            imm_a64("#1.0e3", None, "double"), imm_a64("#2.5E-1", None, "double"), imm_a64("#0XFF", 255), imm_a64("#0X1f", 31)]
    mems = []
    for base in (("x", "1"), ("x", "29"), ("x", "sp")):
        mems.append(mem_a64(base))
        for off in (("#16", 16), ("16", 16), ("#-8", -8), ("#0x20", 32), ("#0", 0)):
            mems.append(mem_a64(base, off))
            mems.append(mem_a64(base, off, pre=True))
        for post in (("#16", 16), ("#-32", -32), ("#0x8", 8)):
            mems.append(mem_a64(base, post=post))
        for index in (("x", "2"), ("w", "3")):
            mems.append(mem_a64(base, index=index))
            for shift in (("lsl", 0), ("lsl", 1), ("lsl", 2), ("lsl", 3), ("lsl", 4), ("sxtw", 2), ("uxtw", 3), ("sxtw", 0)):
                mems.append(mem_a64(base, index=index, shift=shift))
            # the extends of the index register's own width, with and without amount
            for shift in ((("sxtx", 3), ("uxtx", 2), ("sxtx", None)) if index[0] == "x" else (("sxtw", None), ("uxtw", None))):
                mems.append(mem_a64(base, index=index, shift=shift))
    return regs, imms, mems


LAYOUTS = [
    lambda m, ops, c: m + " " + ", ".join(ops),
    lambda m, ops, c: "\t" + m + "\t" + ",".join(ops),
    lambda m, ops, c: "    " + m + "   " + " , ".join(ops),
    lambda m, ops, c: m + " " + ", ".join(ops) + "  " + c + " some trailing comment 123",
    lambda m, ops, c: "\t\t" + m + " " + ",\t".join(ops) + "\t" + c + "x",
    lambda m, ops, c: " " + m + "\t" + ", ".join(ops) + " ",
    # comments are free text: characters outside ASCII (names, units, paths in compiler annotations) must not matter
    lambda m, ops, c: m + " " + ", ".join(ops) + " " + c + " caf\u00e9 \u00b5s \u2192 x",
]
CM = "#" if ISA == "x86" else "//"


def check_line(mnem, ops, layout, what):
    text = LAYOUTS[layout](mnem, [o[0] for o in ops], CM)
    R.case(text, sample=dict(line=text))
    try:
        f = parser.parse_line(text, 7)
    except Exception as e:
        R.fail(f"{PROP}/roundtrip/rejected", f"{PROP}:rejected:{what}", f"line {text!r} is not parsed: {e!r}", dict(line=text))
        return
    bad = []
    if f.mnemonic != mnem:
        bad.append(f"mnemonic {f.mnemonic!r} != {mnem!r}")
    if f.line != text or f.line_number != 7:
        bad.append(f"line/line_number not verbatim: {f.line!r}/{f.line_number}")
    if f.label is not None or f.directive is not None:
        bad.append("also classified as label/directive")
    got = f.operands or []
    if len(got) != len(ops):
        bad.append(f"{len(ops)} operands written, {len(got)} parsed: {got}")
    else:
        for i, (o, g) in enumerate(zip(ops, got)):
            try:
                ok = o[1](g)
            except Exception as e:
                ok = False
            if not ok:
                bad.append(f"operand {i + 1} {o[0]!r} recovered as {g}")
    if bad:
        R.fail(f"{PROP}/roundtrip/operands", f"{PROP}:operands:{what}", f"{text!r}: " + "; ".join(bad)[:500], dict(line=text))


def split_ops(rest):
    """split an operand string at top-level commas (not inside braces / brackets)"""
    out, depth, cur = [], 0, ""
    for ch in rest:
        if ch in "{[":
            depth += 1
        if ch in "}]":
            depth -= 1
        if ch == "," and depth == 0:
            out.append(cur.strip())
            cur = ""
        else:
            cur += ch
    out.append(cur.strip())
    return out


def main():
    if ISA == "x86":
        regs, imms, mems = forms_x86()
        fixed = reg_x86("rdx")
        label = (".L10", lambda o: isinstance(o, IdentifierOperand) and o.name == ".L10")
        mn = {0: "ret", 1: "incq", 2: "vaddpd", 3: "vfmadd231pd", 4: "vpternlogd"}
        maxops = 4
        # labels as written: also such that start like a register / condition / segment name
        xlabels = [".L10", "main", "rax_loop", "r8_x", "xmm0_l", "k1_lab", "ne_loop", "st_loop", "cl_loop", "bpl_x", "rip_l", "_start", "foo.bar", ".LBB0_12", "L$1"]
        for lay in range(len(LAYOUTS)):
            check_line("jne", [label], lay, "label")
            check_line("ret", [], lay, "noops")
            for nm in xlabels:
                lb = (nm, (lambda nm: (lambda o: isinstance(o, IdentifierOperand) and o.name == nm))(nm))
                for mnem in ("jne", "jmp", "call"):
                    check_line(mnem, [lb], lay, "label")
        allforms = [("reg", f) for f in regs] + [("imm", f) for f in imms] + [("mem", f) for f in mems]
        for kind, f in allforms:
            for n in range(1, maxops + 1):
                for pos in range(n):
                    if kind == "imm" and pos == n - 1 and n > 1:
                        continue  # an immediate is never the AT&T destination
                    ops = [fixed] * n
                    ops[pos] = f
                    for lay in (range(len(LAYOUTS)) if n == 2 else (pos % len(LAYOUTS),)):
                        check_line(mn[n], ops, lay, kind)
        pairs = [(a, b) for a in regs[::3] + imms + mems[::7] for b in regs[::5] + mems[::9]]
    else:
        regs, imms, mems = forms_a64()
        fixed = reg_a64("x", 9)
        label = (".L10", lambda o: isinstance(o, IdentifierOperand) and o.name == ".L10")
        cond = [(c, (lambda c: (lambda o: isinstance(o, ConditionOperand) and o.ccode == c.upper()))(c)) for c in ("eq", "ne", "lt", "GE", "hi")]
        mn = {1: "br", 2: "mov", 3: "add", 4: "madd", 5: "ccmpx"}
        # labels as written: also such that start like a condition code, a register, a shift keyword (a label that IS a
        # condition code or register name is ambiguous in the syntax and not generated)
        alabels = [".L10", "main", "le_loop", "ne.1", ".eq_done", "eq1", "mi_", "lt.loop", "vs_x", "hi5", "al_loop", "x_loop", "x1_loop", "w0loop", "sp_fix",
                   "v0_loop", "loop_eq", "cs.l", "ge_", "Le_loop", "NE_x", "d1_", "q_", "p0_lab", "lsl_lab", "sxtw_l", "asr.x", "uxtb_1", "ror_", "mul_vl", "_start", ".LBB0_12"]
        w1, imm3 = reg_a64("w", 1), imms[0]
        for lay in range(len(LAYOUTS)):
            check_line("b.ne", [label], lay, "label")
            check_line("ret", [], lay, "noops")
            for c in cond:
                check_line("csel", [fixed, fixed, fixed, c], lay, "cond")
            for nm in alabels:
                lb = (nm, (lambda nm: (lambda o: isinstance(o, IdentifierOperand) and o.name == nm))(nm))
                check_line("b.ne", [lb], lay, "label")
                check_line("b", [lb], lay, "label")
                check_line("cbz", [fixed, lb], lay, "label")
                check_line("tbz", [w1, imm3, lb], lay, "label")
                check_line("adr", [fixed, lb], lay, "label")
            # register lists that are not the first operand: members spliced in place
            for text, want in (("tbl v0.16b, {v1.16b, v2.16b}, v3.16b", ["0", "1", "2", "3"]), ("tbx v0.8b, {v4.16b - v6.16b}, v3.8b", ["0", "4", "5", "6", "3"]),
                               ("splice z0.s, p0, {z1.s, z2.s}", ["0", "0", "1", "2"]), ("tbl v9.16b, {v30.16b, v31.16b}, v8.16b", ["9", "30", "31", "8"])):
                mnem, rest = text.split(" ", 1)
                t = LAYOUTS[lay](mnem, split_ops(rest), CM)
                R.case(t, sample=dict(line=t))
                try:
                    f = parser.parse_line(t, 7)
                    names = [str(o.name) for o in f.operands if isinstance(o, RegisterOperand)]
                    if names != want or len(f.operands) != len(want):
                        R.fail(f"{PROP}/roundtrip/reglist-position", f"{PROP}:reglist-position", f"{t!r}: operands {names}, expected {want}", dict(line=t))
                except Exception as e:
                    R.fail(f"{PROP}/roundtrip/rejected", f"{PROP}:rejected:reglist", f"{t!r}: {e!r}", dict(line=t))
            # register lists and ranges
            for text, n_members, first in (("{v0.2d, v1.2d}", 2, 0), ("{v4.4s - v7.4s}", 4, 4), ("{v0.d, v1.d}[1]", 2, 0), ("{z1.s}", 1, 1), ("{v30.16b-v31.16b}", 2, 30),
                                           ("{v8.4s - v11.4s}", 4, 8), ("{v9.2d-v10.2d}", 2, 9), ("{z7.s - z10.s}", 4, 7), ("{v30.4s - v1.4s}", 4, 30), ("{v31.8h-v0.8h}", 2, 31)):
                t = LAYOUTS[lay]("ld1", [text, "[x1]"], CM)
                R.case(t, sample=dict(line=t))
                try:
                    f = parser.parse_line(t, 7)
                    regs_ = [o for o in f.operands if isinstance(o, RegisterOperand)]
                    names = [str(o.name) for o in regs_]
                    if names != [str((first + i) % 32) for i in range(n_members)] or len(f.operands) != n_members + 1 or not isinstance(f.operands[-1], MemoryOperand):
                        R.fail(f"{PROP}/roundtrip/reglist", f"{PROP}:reglist", f"{t!r}: members {names}, expected {[first + i for i in range(n_members)]} + memory operand", dict(line=t))
                    if "[1]" in text and any(str(o.index) != "1" for o in regs_):
                        R.fail(f"{PROP}/roundtrip/reglist-index", f"{PROP}:reglist-index", f"{t!r}: element index not carried to the members: {[o.index for o in regs_]}", dict(line=t))
                    if "[0]" in text.replace("[1]", "[0]") and False:
                        pass
                except Exception as e:
                    R.fail(f"{PROP}/roundtrip/rejected", f"{PROP}:rejected:reglist", f"{t!r}: {e!r}", dict(line=t))
            t0 = LAYOUTS[lay]("ld2", ["{v4.d, v5.d}[0]", "[x1]"], CM)
            R.case(t0)
            try:
                f = parser.parse_line(t0, 7)
                idx = [o.index for o in f.operands if isinstance(o, RegisterOperand)]
                if [str(i) for i in idx] != ["0", "0"]:
                    R.fail(f"{PROP}/roundtrip/reglist-index", f"{PROP}:reglist-index", f"{t0!r}: element index 0 not carried to the members: {idx}", dict(line=t0))
            except Exception as e:
                R.fail(f"{PROP}/roundtrip/rejected", f"{PROP}:rejected:reglist", f"{t0!r}: {e!r}", dict(line=t0))
        allforms = [("reg", f) for f in regs] + [("imm", f) for f in imms]
        for kind, f in allforms:
            for n in range(1, 6):
                for pos in range(n):
                    if kind == "imm" and pos == 0 and n > 1:
                        continue  # an immediate is never the AArch64 destination
                    if kind == "imm" and n == 1:
                        continue
                    ops = [fixed] * n
                    ops[pos] = f
                    for lay in (range(len(LAYOUTS)) if n == 2 else (pos % len(LAYOUTS),)):
                        check_line(mn[n], ops, lay, kind)
        for f in mems:  # memory operand last (valid AArch64 operand order)
            for n in (2, 3):
                ops = [fixed] * (n - 1) + [f]
                for lay in range(len(LAYOUTS)):
                    check_line("ldr" if n == 2 else "ldp", ops, lay, "mem")
        pairs = [(a, b) for a in regs[::4] for b in regs[::6] + imms + mems[::5]]
    if A.tier == "thorough":
        for a, b in pairs:
            for lay in range(len(LAYOUTS)):
                check_line(mn[2] if ISA == "x86" else "ldr", [a, b], lay, "pair")
    # ---------------------------------------------------------------- files: numbering, verbatim text, classification
    inst = ["addq %rax, %rbx", "vmovapd (%r15,%rax), %ymm0", "jne .L10"] if ISA == "x86" else ["add x1, x2, x3", "ldr q0, [x1, x2]", "b.ne .L10"]
    other = {"comment": [CM + " only a comment", CM, CM + " gr\u00f6\u00dfe \u00b5s"], "label": [".L10:", "main:", ".LBB0_1: " + CM + " with comment", ".L.str.1:", ".L_2__STRING.0:", "..B1.4:", "1:", "42: " + CM + " local numeric label"], "directive": [".p2align 4", ".byte 100,103,144", ".text"],
             "blank": ["", "   ", "\t"]}
    for fi in range(60 if A.tier != "thorough" else 600):
        lines, kinds = [], []
        for _ in range(rnd.randint(1, 12)):
            k = rnd.choice(["inst", "inst", "comment", "label", "directive", "blank", "blank"])
            l_ = rnd.choice(inst if k == "inst" else other[k])
            if k != "blank":  # verbatim text includes leading / trailing blanks and tabs of the line
                l_ = rnd.choice(["", "", "  ", "\t"]) + l_ + rnd.choice(["", "", " ", "\t", "  \t"])
            lines.append(l_)
            kinds.append(k)
        text = "\n".join(lines)
        if rnd.random() < 0.5:
            text += "\n"
        start = rnd.choice([0, 0, 10])
        R.case(("file", text, start), sample=dict(file=lines, start_line=start))
        try:
            parsed = parser.parse_file(text, start) if start else parser.parse_file(text)
        except Exception as e:
            R.fail(f"{PROP}/file/crash", f"{PROP}:file-crash", f"parse_file raised {e!r} on {lines}", dict(file=lines))
            continue
        want = [(i + 1 + start, l, k) for i, (l, k) in enumerate(zip(lines, kinds)) if l.strip() != ""]
        got = [(p.line_number, p.line) for p in parsed]
        if got != [(n, l) for n, l, _ in want]:
            R.fail(f"{PROP}/file/numbering", f"{PROP}:numbering", f"parse_file gives (line_number, text) {got}, file has {[(n, l) for n, l, _ in want]}", dict(file=lines, start_line=start))
            continue
        for p, (n, l, k) in zip(parsed, want):
            cls = {"inst": p.mnemonic is not None, "label": p.label is not None, "directive": p.directive is not None,
                   "comment": p.comment is not None and p.mnemonic is None and p.label is None and p.directive is None}
            exclusive = sum([p.mnemonic is not None, p.label is not None, p.directive is not None]) <= 1
            if not cls[k] or not exclusive:
                R.fail(f"{PROP}/file/classification", f"{PROP}:classification:{k}", f"line {l!r} ({k}) classified as mnemonic={p.mnemonic!r} label={p.label!r} directive={p.directive} comment={p.comment!r}", dict(line=l))
    R.done()


main()
