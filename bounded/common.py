"""helpers for bounded harnesses (run under /venv/bin/python with isolated HOME)"""
import argparse, json, os, shutil, sys

REPO = os.environ.get("OSACA_REPO", "/repo")

def args():
    ap = argparse.ArgumentParser()
    ap.add_argument("--tier", default="quick"); ap.add_argument("--seed", type=int, default=0)
    ap.add_argument("rest", nargs="*")
    return ap.parse_args()

def isolate_models(archs=(), isas=("x86", "aarch64")):
    """copy the YAMLs into $HOME/.osaca/data (first entry of utils.DATA_DIRS) so the current loader code
    rebuilds the models (pickle caches keyed by YAML hash would otherwise mask code changes)"""
    d = os.path.join(os.path.expanduser("~"), ".osaca", "data")
    os.makedirs(os.path.join(d, "isa"), exist_ok=True)
    src = os.path.join(REPO, "osaca", "data")
    for a in archs:
        shutil.copy(os.path.join(src, a + ".yml"), os.path.join(d, a + ".yml"))
    for i in isas:
        shutil.copy(os.path.join(src, "isa", i + ".yml"), os.path.join(d, "isa", i + ".yml"))
    return d

class Report:
    def __init__(self, rule, exhaustive=False):
        self.r = dict(evaluations=0, distinct_nontrivial=0, rule=rule, samples=[], exhaustive=exhaustive, failures=[], assumptions=[])
        self.seen = set()
        self.per_key = {}
    def case(self, key, nontrivial=True, sample=None):
        self.r["evaluations"] += 1
        if nontrivial and key not in self.seen:
            self.seen.add(key); self.r["distinct_nontrivial"] += 1
        if sample is not None and len(self.r["samples"]) < 8:
            self.r["samples"].append(sample)
    def fail(self, id, key, detail, cex=None):
        # at most 3 reports per key (a key names one failing input class), so that one root cause cannot crowd out others
        n = self.per_key.get(key, 0)
        self.per_key[key] = n + 1
        if n < 3 and len(self.r["failures"]) < 150:
            self.r["failures"].append(dict(id=f"{id}#{len(self.r['failures'])}", key=key, detail=detail, cex=cex))
    def assume(self, s): self.r["assumptions"].append(s)
    def done(self):
        self.r["failures_per_key"] = dict(self.per_key)
        print(json.dumps(self.r, default=str)); sys.stdout.flush()
