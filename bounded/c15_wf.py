"""C15: exhaustive evaluation of the data-structure invariant wf_model on EVERY entry of every shipped model that is non-empty
in the working tree and of both ISA databases, loaded through the current loader (isolated HOME, YAML copies) - exhaustive,
not sampled (quick: all models; the CLI costing of one synthesised instruction per entry is the thorough tier).
 * micro-op list (or each alternative) = list of [cycles >= 0, non-empty port collection], all ports in the model's list
 * throughput / latency absent or non-negative numbers
 * load/store throughput tables and their defaults equally well-formed
 * costing (MachineModel.average_port_pressure) of every well-formed entry does not raise
 * --db-check: the counts of forms lacking throughput / latency / port pressure reported by the REAL sanity_check equal an
   independent count over the plain YAML (ruamel safe load)"""
import glob, io, numbers, os, re, sys
sys.path.insert(0, os.path.dirname(os.path.abspath(__file__)))
from common import args, isolate_models, Report, REPO
A = args()
data_dir = os.path.join(REPO, "osaca", "data")
MODELS = sorted(os.path.basename(f)[:-4] for f in glob.glob(os.path.join(data_dir, "*.yml")) if os.path.getsize(f) > 0)
isolate_models(MODELS)
from ruamel.yaml import YAML
from osaca.semantics import MachineModel
from osaca.db_interface import sanity_check

R = Report("every instruction form of every non-empty shipped model + both ISA databases + load/store tables; distinct = distinct (model, mnemonic, operand pattern)", exhaustive=True)


def wf_uops(u, ports):
    """-> list of problems of one micro-op list"""
    bad = []
    if not isinstance(u, (list, tuple)):
        return [f"micro-op list is {type(u).__name__}"]
    for x in u:
        if not (isinstance(x, (list, tuple)) and len(x) == 2):
            bad.append(f"micro-op {x!r} is not a [cycles, ports] pair")
            continue
        c, ps = x
        if not isinstance(c, numbers.Real) or isinstance(c, bool) or c < 0:
            bad.append(f"cycles {c!r}")
        if not isinstance(ps, (list, tuple, str)) or len(ps) == 0:
            bad.append(f"port collection {ps!r}")
            continue
        for p in ps:
            if p not in ports:
                bad.append(f"unknown port {p!r}")
    return bad


def wf_number(v):
    return v is None or (isinstance(v, numbers.Real) and not isinstance(v, bool) and v >= 0)


for arch in MODELS:
    try:
        mm = MachineModel(arch=arch)
    except Exception as e:
        R.case((arch, "load"))
        R.fail("C15/wf/load", f"C15:load:{arch}", f"model {arch} does not load: {e!r}")
        continue
    ports = list(mm["ports"])
    if len(set(ports)) != len(ports) or not all(isinstance(p, str) for p in ports):
        R.fail("C15/wf/ports", f"C15:ports:{arch}", f"{arch}: port list {ports}")
    for name, entries in mm["instruction_forms_dict"].items():
        for e in entries:
            key = (arch, name, tuple(repr(o) for o in e.operands))
            pp = e.port_pressure
            probs = []
            if pp is not None:
                alts = list(pp.values()) if isinstance(pp, dict) else [pp]
                for u in alts:
                    probs += wf_uops(u, ports)
            if not wf_number(e.throughput):
                probs.append(f"throughput {e.throughput!r}")
            if not wf_number(e.latency):
                probs.append(f"latency {e.latency!r}")
            R.case(key, nontrivial=pp is not None, sample=dict(arch=arch, mnemonic=name, uops=repr(pp)[:60]))
            cls = "unknown-port" if any("unknown port" in p for p in probs) else "malformed"
            if probs:
                tag = sorted(set(re.findall(r"unknown port ('[^']*')", " ".join(probs))))
                R.fail(f"C15/wf/{cls}", f"C15:{cls}:{arch}:{','.join(tag) if tag else name}", f"{arch} {name} {[getattr(o, 'name', None) or getattr(o, 'prefix', None) for o in e.operands]}: " + "; ".join(probs)[:300],
                       dict(arch=arch, mnemonic=name))
            elif pp is not None:
                try:
                    v = mm.average_port_pressure(pp)
                    if len(v) != len(ports) or any(x < 0 for x in v):
                        R.fail("C15/wf/costing", f"C15:costing:{arch}:{name}", f"{arch} {name}: average_port_pressure gives {v}")
                except Exception as ex_:
                    R.fail("C15/wf/costing", f"C15:costing:{arch}:{name}", f"{arch} {name}: well-formed entry cannot be costed: {ex_!r}")
    for tab in ("load_throughput", "store_throughput"):
        for row in mm.get(tab, []) or []:
            probs = wf_uops(row[1], ports)
            R.case((arch, tab, repr(row[0])), sample=dict(arch=arch, table=tab))
            if probs:
                R.fail("C15/wf/table", f"C15:table:{arch}:{tab}", f"{arch} {tab} row {row[0]}: " + "; ".join(probs)[:300])
        d = mm.get(tab + "_default")
        if d is not None:
            probs = wf_uops(d, ports)
            R.case((arch, tab + "_default"))
            if probs:
                R.fail("C15/wf/table-default", f"C15:table-default:{arch}:{tab}", f"{arch} {tab}_default {d!r}: " + "; ".join(probs)[:300])
    ll = mm.get("load_latency") or {}
    for k_, v in ll.items():
        if not wf_number(v):
            R.fail("C15/wf/load-latency", f"C15:load-latency:{arch}", f"{arch} load_latency[{k_}] = {v!r}")
    # ---- --db-check counters vs an independent count over the plain YAML
    y = YAML(typ="safe").load(open(os.path.join(data_dir, arch + ".yml")))
    forms = []
    for f in y["instruction_forms"]:
        names = f["name"] if isinstance(f["name"], list) else [f["name"]]
        forms += [f] * len(names)
    want = (sum(1 for f in forms if f.get("throughput") is None), sum(1 for f in forms if f.get("latency") is None), sum(1 for f in forms if f.get("port_pressure") is None), len(forms))
    out = io.StringIO()
    R.case((arch, "db-check"), sample=dict(arch=arch, db_check=want))
    try:
        sanity_check(arch, verbose=False, output_file=out)
        txt = out.getvalue()
        m = [re.search(r"\((\d+)/(\d+)\) of instruction forms have no " + w, txt) for w in ("throughput value", "latency value", "port pressure assignment")]
        got = tuple(int(x.group(1)) for x in m) + (int(m[0].group(2)),)
        if got != want:
            R.fail("C15/db-check/counts", f"C15:db-check:{arch}", f"{arch} --db-check reports (no tp, no lat, no pp, total) = {got}, the model file has {want}")
    except Exception as ex_:
        R.fail("C15/db-check/crash", f"C15:db-check-crash:{arch}", f"{arch}: sanity_check raised {ex_!r}")
# ---- --db-check reports the numbers of the model FILE also after the model was used for something else in this process
# (an import into an in-memory copy, written to a stream, must not change what a later db-check of the same arch counts)
import tempfile
import osaca.db_interface as dbi
for arch in [a for a in ("tx2", "zen1") if a in MODELS]:
    isa_ops = "x_x" if arch == "tx2" else "r_r"
    with tempfile.NamedTemporaryFile("w", suffix=".dat", delete=False) as f_:
        f_.write(f"Using frequency 2.50GHz.\nvtdbchk-{isa_ops}-TP: 0.500000 (clock cycles)    [DEBUG - result: 0.0]\nvtdbchk-{isa_ops}-LT:    3.000000 (clock cycles)    [DEBUG - result: 1.0]\n")
    R.case((arch, "db-check-after-import"), sample=dict(arch=arch, sequence="db-check, import, db-check"))
    try:
        counts = []
        for step in range(2):
            out = io.StringIO()
            sanity_check(arch, verbose=False, output_file=out)
            m = [re.search(r"\((\d+)/(\d+)\) of instruction forms have no " + w, out.getvalue()) for w in ("throughput value", "latency value", "port pressure assignment")]
            counts.append(tuple(int(x.group(1)) for x in m) + (int(m[0].group(2)),))
            if step == 0:
                dbi.import_benchmark_output(arch, "ibench", f_.name, output=io.StringIO())
        if counts[0] != counts[1]:
            R.fail("C15/db-check/after-import", f"C15:db-check-after-import:{arch}", f"{arch}: --db-check counted {counts[0]}, after an import into a copy of the model (same process) {counts[1]}; the file did not change")
    except Exception as ex_:
        R.fail("C15/db-check/after-import-crash", f"C15:db-check-after-import:{arch}", f"{arch}: db-check / import / db-check in one process raised {ex_!r}")
    finally:
        os.unlink(f_.name)
# ---- costing through the analysis pipeline: one synthesised instruction per entry (quick: entries with alternative port
# assignments + every 25th entry; thorough: every entry)
from synth import synth
from osaca.parser import InstructionForm, get_parser
from osaca.semantics import ArchSemantics, KernelDG
from osaca.frontend import Frontend
import io as _io
for arch in MODELS:
    try:
        mm = MachineModel(arch=arch)
    except Exception:
        continue
    isa = mm.get_ISA()
    sem = ArchSemantics(mm)
    parser = get_parser(isa)
    fe = Frontend(arch=arch)
    n = 0
    for name, entries in mm["instruction_forms_dict"].items():
        for e in entries:
            n += 1
            alt = isinstance(e.port_pressure, dict)
            if A.tier != "thorough" and not alt and n % 25:
                continue
            ops = [synth(o, isa) for o in e.operands]
            if any(o is None for o in ops) or e.port_pressure is None:
                continue
            probs = []
            for u in (list(e.port_pressure.values()) if alt else [e.port_pressure]):
                probs += wf_uops(u, list(mm["ports"]))
            if probs:
                continue  # malformed entries are reported above
            for fixed in (False, True):
                f = InstructionForm(mnemonic=name.lower(), operands=ops, line=name.lower() + " <synthesised>", line_number=1)
                R.case(("cost", arch, name, tuple(repr(o) for o in e.operands), fixed), nontrivial=alt, sample=dict(arch=arch, cost=name, fixed=fixed))
                try:
                    sem.add_semantics([f])
                    if not fixed:
                        sem.assign_optimal_throughput([f])
                        sem.assign_optimal_throughput([f])
                    dg = KernelDG([f], parser, mm, sem, timeout=-1)
                    fe.full_analysis([f], dg, ignore_unknown=True)
                    fe.full_analysis_dict([f], dg)
                except Exception as ex_:
                    import traceback
                    R.fail("C15/cost/crash", f"C15:cost-crash:{arch}:{name}", f"{arch} {name} ({'--fixed' if fixed else 'optimal'}): analysing an instruction that matches the form raised {ex_!r} {traceback.format_exc()[-200:]}", dict(arch=arch, mnemonic=name))
for isa in ("x86", "aarch64"):
    try:
        im = MachineModel(path_to_yaml=os.path.join(os.path.expanduser("~"), ".osaca", "data", "isa", isa + ".yml"))
        n = 0
        for name, entries in im["instruction_forms_dict"].items():
            for e in entries:
                n += 1
                R.case(("isa", isa, name, tuple(repr(o) for o in e.operands)), nontrivial=False)
                for o in list(e.operands) + list(e.hidden_operands or []):
                    if isinstance(o, dict):
                        R.fail("C15/wf/isa-operand", f"C15:isa-operand:{isa}:{name}", f"isa/{isa} {name}: operand of unknown class {o}")
                    # the registers inside a memory operand (e.g. the hidden stack access of push / pop) are converted as well:
                    # a raw mapping left behind makes the dependency analysis fail with AttributeError
                    for part in ("base", "index"):
                        v = getattr(o, part, None)
                        if isinstance(v, dict):
                            R.fail("C15/wf/isa-operand", f"C15:isa-operand-part:{isa}:{name}", f"isa/{isa} {name}: {part} of a memory operand left as a raw mapping {dict(v)}")
                if e.operation is not None and not isinstance(e.operation, str):
                    R.fail("C15/wf/isa-operation", f"C15:isa-operation:{isa}:{name}", f"isa/{isa} {name}: operation {e.operation!r}")
    except Exception as ex_:
        R.fail("C15/wf/isa-load", f"C15:isa-load:{isa}", f"ISA database {isa} does not load: {ex_!r}")
R.done()
