"""B stand-in for C11 on the real code:
(1) reduce_to_section on generated files = prologue + start marker + body + end marker + epilogue: every marker style (byte
    markers on one / several .byte lines, OSACA-BEGIN/END comments), both ISAs, prologue/epilogue/body drawn from a vocabulary
    incl. decoy look-alikes (other value, other register, other mnemonic, other bytes, mov without bytes, bytes without mov):
    the selected kernel must be exactly the body lines.
(2) osaca.get_line_range vs. a reference expansion for generated --lines strings (numbers, a-b, a:b, mixed).
(3) end-to-end inspect(): marked file / same file with --lines naming the body / file with only the body lines give identical
    per-instruction and summary numbers; inserting comment, label, directive and blank lines inside the kernel changes nothing
    but line numbers (seeded noise patterns)."""
import io, itertools, os, random, sys, tempfile
sys.path.insert(0, os.path.dirname(os.path.abspath(__file__)))
from common import args, isolate_models, Report

A = args()
isolate_models(["zen2", "tx2"])
import osaca.osaca as O
from osaca.parser import get_parser
from osaca.semantics import reduce_to_section
from ruamel.yaml import YAML

R = Report("(1) marker files: styles x ISAs x prologue/body/epilogue incl. decoys; (2) --lines strings; (3) three input variants + noise insertion; distinct = distinct generated file / string", exhaustive=False)
rnd = random.Random(A.seed)

MARK = {
    "x86": {
        "byte1": (["movl $111, %ebx", ".byte 100,103,144"], ["movl $222, %ebx", ".byte 100,103,144"]),
        "byte3": (["movl      $111, %ebx # OSACA START", ".byte     100", ".byte     103", ".byte     144"], ["mov $222, %ebx", ".byte 100", ".byte 103", ".byte 144"]),
        "comment": (["# OSACA-BEGIN"], ["# OSACA-END"]),
    },
    "aarch64": {
        "byte1": (["mov x1, #111", ".byte 213,3,32,31"], ["mov x1, #222", ".byte 213,3,32,31"]),
        "byte4": (["mov x1, #111 // START", ".byte 213", ".byte 3", ".byte 32", ".byte 31"], ["mov x1, #222", ".byte 213", ".byte 3", ".byte 32", ".byte 31"]),
        "comment": (["// OSACA-BEGIN"], ["// OSACA-END"]),
    },
}
BODY = {
    "x86": ["vmovapd (%r15,%rax), %ymm0", "vaddpd %ymm0, %ymm1, %ymm1", "addq $32, %rax", "cmpq %rax, %rbx", "jne .L10", "vmulpd 8(%rsi), %ymm2, %ymm3", "movq %rcx, 16(%rdx)"],
    "aarch64": ["ldr q0, [x1, x2]", "fadd v1.2d, v0.2d, v1.2d", "add x2, x2, #16", "cmp x2, x3", "b.ne .L10", "str q1, [x4], #16", "fmla v2.2d, v0.2d, v1.2d"],
}
DECOY = {
    "x86": [["movl $112, %ebx", ".byte 100,103,144"], ["movl $111, %ecx", ".byte 100,103,144"], ["movl $222, %ecx", ".byte 100,103,144"], ["addl $111, %ebx", ".byte 100,103,144"],
            ["movl $111, %ebx", ".byte 100,103,145"], ["movl $111, %ebx", "addq $1, %rax"], [".byte 100,103,144"], ["movl $222, %eax"], ["movq $111, %rbx", ".byte 100,103,144"],
            ["# OSACA-BEGINX"], ["movl $111, %ebx", ".align 16"]],
    "aarch64": [["mov x1, #112", ".byte 213,3,32,31"], ["mov x2, #111", ".byte 213,3,32,31"], ["mov x2, #222", ".byte 213,3,32,31"], ["mov x1, #111", ".byte 213,3,32,30"],
                ["mov x1, #111", "add x1, x1, #1"], [".byte 213,3,32,31"], ["mov w1, #111", ".byte 213,3,32,31"], ["// OSACA-ENDX"], ["add x1, x1, #111", ".byte 213,3,32,31"]],
}
NOISE = {"x86": ["# a comment", ".L77:", ".p2align 4", "", "   ", "#"], "aarch64": ["// a comment", ".L77:", ".p2align 4", "", "   "]}
ARCH = {"x86": "zen2", "aarch64": "tx2"}


def run_cli(code, argv):
    p = O.create_parser()
    with tempfile.NamedTemporaryFile("w", suffix=".s", delete=False) as f:
        f.write(code)
        path = f.name
    yml = path + ".yml"
    try:
        a = p.parse_args(argv + ["--yaml-out", yml, path])
        O.check_arguments(a, p)
        out = io.StringIO()
        O.run(a, output_file=out)
        a.yaml_out.close()
        a.file.close()
        return YAML(typ="unsafe", pure=True).load(open(yml))
    finally:
        for x in (path, yml):
            if os.path.exists(x):
                os.unlink(x)


def numbers(d):
    """per-instruction and summary numbers without line numbers (non-instruction lines dropped)"""
    rows = []
    for k in d["Kernel"]:
        if k["Instruction"] is None:
            continue
        rows.append((" ".join(k["Line"].split()), k["Throughput"], k["Latency"], k["LatencyCP"], k["LatencyLCD"], tuple(sorted(k["PortPressure"].items())), tuple(sorted(k["Flags"]))))
    return rows, d["Summary"]


# ------------------------------------------------------------------ (1) marker search
for isa in ("x86", "aarch64"):
    parser = get_parser(isa)
    styles = MARK[isa]
    n_files = 120 if A.tier != "thorough" else 1200
    for fi in range(n_files):
        style = list(styles)[fi % len(styles)]
        start, end = styles[style]
        pro = [l for _ in range(rnd.randint(0, 4)) for l in rnd.choice([[rnd.choice(BODY[isa])]] + DECOY[isa])]
        epi = [l for _ in range(rnd.randint(0, 4)) for l in rnd.choice([[rnd.choice(BODY[isa])]] + DECOY[isa])]
        body = []
        for _ in range(rnd.randint(0, 6)):
            body += rnd.choice([[rnd.choice(BODY[isa])], [rnd.choice(BODY[isa])], rnd.choice(DECOY[isa]), [rnd.choice(NOISE[isa][:3])]])
        # (a body may begin with a .byte line of its own: the marker consists of exactly its documented bytes)
        # decoys that end in a bare marker-looking tail could merge with the real marker; keep a separator line
        lines = pro + ["nop"] + start + body + end + ["nop"] + epi
        text = "\n".join(lines) + "\n"
        desc = dict(isa=isa, style=style, file=lines)
        R.case(("marker", isa, tuple(lines)), sample=dict(isa=isa, style=style, prologue=len(pro), body=len(body), epilogue=len(epi)))
        try:
            parsed = parser.parse_file(text)
            got = [l.line for l in reduce_to_section(parsed, isa)]
        except Exception as e:
            R.fail("C11/select/crash", f"C11:marker-crash:{isa}", f"reduce_to_section raised {e!r}", desc)
            continue
        want = [l for l in body if l.strip()]
        if got != want:
            R.fail("C11/select/marker", f"C11:marker:{isa}:{style}", f"selected kernel {got} != lines strictly between the markers {want}", desc)

# ------------------------------------------------------------------ (2) --lines expansion
def ref_range(s):
    out = []
    for item in s.split(","):
        for sep in ("-", ":"):
            if sep in item:
                a, b = item.split(sep)
                out += list(range(int(a), int(b) + 1))
                break
        else:
            out.append(int(item))
    return out

for _ in range(300 if A.tier != "thorough" else 5000):
    items = []
    for _ in range(rnd.randint(1, 5)):
        a = rnd.randint(1, 60)
        kind = rnd.choice("nn-:")
        items.append(str(a) if kind == "n" else f"{a}{kind}{a + rnd.randint(0, 12)}")
    s = ",".join(items)
    R.case(("lines", s), sample=dict(lines_arg=s))
    try:
        got = O.get_line_range(s)
    except Exception as e:
        got = repr(e)
    if got != ref_range(s):
        R.fail("C11/select/lines-arg", "C11:lines-arg", f"get_line_range({s!r}) = {got}, expected {ref_range(s)}", dict(lines_arg=s))

# ------------------------------------------------------------------ (3) three variants + noise transparency
for isa in ("x86", "aarch64"):
    arch = ARCH[isa]
    for vi in range(8 if A.tier != "thorough" else 60):
        style = list(MARK[isa])[vi % len(MARK[isa])]
        start, end = MARK[isa][style]
        body = [rnd.choice(BODY[isa]) for _ in range(rnd.randint(2, 6))]
        pro = [rnd.choice(BODY[isa]) for _ in range(rnd.randint(0, 3))] + [""] * rnd.randint(0, 2)
        if vi in (1, 5):  # the kernel sits beyond line 1000 (line numbers are only labels)
            pro = [("# filler" if isa == "x86" else "// filler")] * 1101 + pro
        epi = [rnd.choice(BODY[isa]) for _ in range(rnd.randint(0, 3))]
        marked = pro + start + body + end + epi
        first = len(pro) + len(start) + 1
        desc = dict(isa=isa, arch=arch, style=style, body=body)
        R.case(("variants", isa, tuple(marked)), sample=desc)
        try:
            ref = numbers(run_cli("\n".join(marked) + "\n", ["--arch", arch]))
            v_lines = numbers(run_cli("\n".join(marked) + "\n", ["--arch", arch, "--lines", f"{first}-{first + len(body) - 1}"]))
            v_only = numbers(run_cli("\n".join(body) + "\n", ["--arch", arch]))
            unmarked = pro + body + epi
            v_lines2 = numbers(run_cli("\n".join(unmarked) + "\n", ["--arch", arch, "--lines", ",".join(str(len(pro) + 1 + i) for i in range(len(body)))]))
        except Exception as e:
            import traceback
            R.fail("C11/select/variant-crash", f"C11:variant-crash:{isa}", f"{e!r} {traceback.format_exc()[-300:]}", desc)
            continue
        for nm, v in (("--lines on the marked file", v_lines), ("file with only the kernel lines", v_only), ("--lines (single numbers) on the unmarked file", v_lines2)):
            if v != ref:
                diff = [(a, b) for a, b in zip(ref[0], v[0]) if a != b][:2]
                R.fail("C11/select/variants", f"C11:variants:{isa}", f"{nm} differs from the marked analysis: rows {len(ref[0])} vs {len(v[0])}, first differences {diff}, summary {ref[1]} vs {v[1]}", desc)
        for ni in range(3 if A.tier != "thorough" else 10):
            noisy = []
            for l in body:
                for _ in range(rnd.randint(0, 2)):
                    noisy.append(rnd.choice(NOISE[isa]))
                noisy.append(l)
            if style == "comment":
                noisy_marked = pro + start + noisy + end + epi
            else:
                noisy_marked = pro + start + noisy + end + epi
            R.case(("noise", isa, tuple(noisy_marked)), sample=dict(isa=isa, noisy=noisy))
            try:
                v = numbers(run_cli("\n".join(noisy_marked) + "\n", ["--arch", arch]))
            except Exception as e:
                R.fail("C11/select/noise-crash", f"C11:noise-crash:{isa}", repr(e), dict(desc, noisy=noisy))
                continue
            if v != ref:
                diff = [(a, b) for a, b in zip(ref[0], v[0]) if a != b][:2]
                R.fail("C11/select/noise", f"C11:noise:{isa}", f"inserting non-instruction lines {[x for x in noisy if x not in body]} changed the numbers: {diff} / {ref[1]} vs {v[1]}", dict(desc, noisy=noisy))

# ------------------------------------------------------------------ (3b) forms with ALTERNATIVE port assignments (dict-valued port_pressure in the model)
# the balancing step picks the best alternative for the whole kernel: a non-instruction line anywhere (in particular in front of the
# first instruction, where the whole-file / --lines / marker variants put the loop label) must not change which one is picked
ALT_BODY = ["smlal v0.2d, v1.2s, v2.2s", "smlal2 v7.4s, v1.8h, v2.8h", "dup d3, v4.d[0]", "dup d5, v4.d[1]", "dup d6, v4.d[1]", "fadd v1.2d, v0.2d, v1.2d", "add x2, x2, #16"]
for vi in range(6 if A.tier != "thorough" else 40):
    body = [rnd.choice(ALT_BODY[:2])] + [rnd.choice(ALT_BODY) for _ in range(rnd.randint(1, 5))]
    rnd.shuffle(body)
    desc = dict(isa="aarch64", arch="a64fx", body=body)
    R.case(("alt", tuple(body)), sample=desc)
    try:
        ref = numbers(run_cli("\n".join(body) + "\n", ["--arch", "a64fx"]))
    except Exception as e:
        R.fail("C11/select/variant-crash", "C11:variant-crash:aarch64", repr(e), desc)
        continue
    start, end = MARK["aarch64"]["comment"]
    variants = [("noise line in front of the first instruction", [rnd.choice(NOISE["aarch64"][:3])] + body, []),
                ("noise line after the last instruction", body + [rnd.choice(NOISE["aarch64"][:3])], []),
                ("marked, loop label first", ["mov x9, x9"] + start + [".L5:"] + body + end + ["mov x9, x9"], [])]
    noisy = []
    for l in body:
        noisy += [rnd.choice(NOISE["aarch64"]) for _ in range(rnd.randint(0, 2))] + [l]
    variants.append(("random noise lines", noisy, []))
    for nm, code, extra in variants:
        R.case(("alt-noise", tuple(code)), sample=dict(desc, variant=code))
        try:
            v = numbers(run_cli("\n".join(code) + "\n", ["--arch", "a64fx"] + extra))
        except Exception as e:
            R.fail("C11/select/noise-crash", "C11:noise-crash:aarch64", repr(e), dict(desc, variant=code))
            continue
        if v != ref:
            diff = [(a, b) for a, b in zip(ref[0], v[0]) if a != b][:2]
            R.fail("C11/select/noise", "C11:noise:alternatives", f"{nm} changed the numbers of a kernel with alternative port assignments: {diff} / {ref[1]} vs {v[1]}", dict(desc, variant=code))

# ------------------------------------------------------------------ (3c) non-instruction lines that lift a kernel over the 50-line
# threshold of the multi-process LCD search: the search mode changes, the numbers must not (a ring of 14 dependent adds is longer
# than a worker's section)
ring = ["addq %%r%d, %%r%d" % (8 + (i % 7), 8 + ((i + 1) % 7)) for i in range(7)] + ["vaddpd %%ymm1, %%ymm2, %%ymm%d" % (3 + i % 12) for i in range(38)]  # (no cycles of their own: the ring is the longest LCD)
desc = dict(isa="x86", arch="zen2", body_lines=len(ring))
R.case(("threshold", "ref"), sample=desc)
try:
    ref = numbers(run_cli("\n".join(ring) + "\n", ["--arch", "zen2"]))
    for n_noise in (5, 6, 12):
        noisy = list(ring)
        for i in range(n_noise):
            noisy.insert(1 + 3 * i, "# comment %d" % i)
        R.case(("threshold", n_noise), sample=dict(desc, inserted=n_noise, lines=len(noisy)))
        v = numbers(run_cli("\n".join(noisy) + "\n", ["--arch", "zen2"]))
        if v != ref:
            diff = [(a, b) for a, b in zip(ref[0], v[0]) if a != b][:2]
            R.fail("C11/select/noise", "C11:noise:threshold", f"{n_noise} inserted comment lines ({len(noisy)} lines: multi-process LCD search) changed the numbers: {diff} / {ref[1]} vs {v[1]}", dict(desc, inserted=n_noise))
except Exception as e:
    R.fail("C11/select/noise-crash", "C11:noise-crash:x86", repr(e), desc)
R.done()
