"""B stand-in for C18: seeded call histories in ONE process (random order, repetitions, mixing ISAs, models, --fixed,
--consider-flag-deps, kernels with unknown / memory-composed / alternative-assignment instructions) on the REAL
osaca.osaca.inspect; every report must equal, apart from the timestamp line, the report a FRESH process produces for the
same input, and the machine models held by the process (MachineModel._runtime_cache) must stay equal to a snapshot taken
right after they were loaded.   quick: 3 histories x 14 steps; thorough: 12 histories x 30 steps."""
import io, json, os, random, re, subprocess, sys, tempfile
sys.path.insert(0, os.path.dirname(os.path.abspath(__file__)))
from common import args, isolate_models, Report, REPO
A = args()
isolate_models(["zen2", "hsw", "a64fx", "tx2"])
import osaca.osaca as O
from osaca.semantics import MachineModel

R = Report("call histories over a corpus of (kernel, model, options); distinct = distinct (history, step)", exhaustive=False)
CORPUS = [
    ("x86", "zen2", [], ["addq %rcx, (%rdx)", "addq (%rsi), %rdi", "addq $8, %rsi", "cmpq %rsi, %rax", "jne .L1"]),
    ("x86", "zen2", [], ["addq (%rsi), %rdi", "sub (%rax), %rbx", "vaddpd (%rax,%rcx,8), %ymm0, %ymm1"]),
    ("x86", "zen2", ["--fixed"], ["vaddpd (%rax,%rcx,8), %ymm0, %ymm1", "vaddpd %ymm1, %ymm2, %ymm0", "foo %rax, %rbx"]),
    ("x86", "hsw", [], ["movq %rsi, 8(%rax)", "addq $8, %rax", "movq (%rax), %rdi", "xorq %rbx, (%rax)"]),
    ("x86", "hsw", ["-f"], ["addq $1, %rax", "cmpq %rax, %rbx", "jne .L1", "vmulpd (%rdx), %ymm1, %ymm2"]),
    ("x86", "zen2", ["--ignore-unknown"], ["bar %rax, 8(%rbx)", "addq %rax, 8(%rbx)", "addq 8(%rbx), %rax"]),
    ("aarch64", "a64fx", [], ["smlal v1.2d, v2.2s, v3.2s", "add x1, x1, #1", "ldr x3, [x2], #8", "str x3, [x4, #8]"]),
    ("aarch64", "a64fx", ["--fixed"], ["smlal v1.2d, v2.2s, v3.2s", "sadalp v4.2d, v5.4s", "ldr q0, [x1, x2, lsl #4]"]),
    ("aarch64", "tx2", [], ["ldr d0, [x1, #16]!", "fadd d1, d0, d1", "str d1, [x2], #8", "subs x3, x3, #1", "b.ne .L1"]),
    ("aarch64", "tx2", ["-f"], ["ldp d0, d1, [x3]", "fmla v2.2d, v0.2d, v1.2d", "foo x1, [x2]", "add x3, x3, #16"]),
    # kernels of 50 and more lines take the multi-process search: two of them (and one twice) in one process
    ("x86", "zen2", [], ["addq $1, %%r%d" % (8 + i % 8) for i in range(52)] + ["addq %r8, %r9"]),
    ("aarch64", "tx2", [], ["add x%d, x%d, #1" % (1 + i % 20, 1 + i % 20) for i in range(55)]),
    # no --arch: the micro-architecture is chosen from the ISA detected in the file (default model + the note about it in the report)
    ("x86", None, [], ["vaddpd (%rax,%rcx,8), %ymm0, %ymm1", "addq $8, %rcx", "cmpq %rcx, %rbx", "jne .L1"]),
    ("aarch64", None, [], ["ldr d0, [x1, #16]", "fadd d1, d0, d1", "subs x3, x3, #1", "b.ne .L1"]),
]
ARGV = lambda arch, opts: (["--arch", arch] if arch else []) + opts
DRIVER = r'''
import io, sys
import osaca.osaca as O
p = O.create_parser(); a = p.parse_args(sys.argv[1:]); O.check_arguments(a, p)
out = io.StringIO(); O.run(a, output_file=out); sys.stdout.write(out.getvalue())
'''


def strip_ts(t, path):
    t = re.sub(r"Timestamp:.*", "Timestamp:", t)
    return t.replace(path, "<file>")


def in_process(path, argv):
    p = O.create_parser()
    a = p.parse_args(argv + [path])
    O.check_arguments(a, p)
    out = io.StringIO()
    O.run(a, output_file=out)
    a.file.close()
    return strip_ts(out.getvalue(), path)


def fresh(path, argv):
    env = dict(os.environ)
    r = subprocess.run([sys.executable, "-c", DRIVER] + argv + [path], capture_output=True, text=True, env=env, cwd=REPO, timeout=300)
    if r.returncode != 0:
        return "FRESH-PROCESS-FAILED: " + r.stderr[-400:]
    return strip_ts(r.stdout, path)


def snap(v):
    if isinstance(v, dict):
        return {str(k): snap(x) for k, x in v.items() if k != "instruction_forms_dict"}
    if isinstance(v, (list, tuple)):
        return [snap(x) for x in v]
    if hasattr(v, "__dict__"):
        return {"__cls__": type(v).__name__, **{k: snap(x) for k, x in v.__dict__.items()}}
    return v


tmp = tempfile.mkdtemp()
files, ref = {}, {}
for i, (isa, arch, opts, lines) in enumerate(CORPUS):
    path = os.path.join(tmp, f"k{i}.s")
    open(path, "w").write("\n".join(lines) + "\n")
    files[i] = path
    ref[i] = fresh(path, ARGV(arch, opts))
    if ref[i].startswith("FRESH-PROCESS-FAILED"):
        R.fail("C18/history/fresh-crash", f"C18:fresh-crash:{i}", f"corpus item {i} ({arch} {opts}) crashes in a fresh process: {ref[i][-300:]}")
model_snaps = {}
n_hist, n_steps = (3, 14) if A.tier != "thorough" else (12, 30)
for h in range(n_hist):
    rnd = random.Random(A.seed * 1000 + h)
    history = [rnd.randrange(len(CORPUS)) for _ in range(n_steps)]
    # every history meets both large kernels, one of them twice (process-wide settings made by the multi-process search)
    big = [i for i, c in enumerate(CORPUS) if len(c[3]) >= 50]
    for pos, item in zip((2, n_steps // 2, n_steps - 2), (big[0], big[-1], big[0])):
        history[pos] = item
    if h == 0:
        history = [0, 1, 0, 1, 3, 3, 6, 7, 6, 2, 5, 1, 8, 9][:n_steps]  # read-modify-write first, then the pure load; repeats
    # every history analyses each file without --arch twice (what is reported the first time is reported every time)
    noarch = [i for i, c in enumerate(CORPUS) if c[1] is None]
    history = history + noarch + noarch[::-1]
    for step, ci in enumerate(history):
        isa, arch, opts, lines = CORPUS[ci]
        desc = dict(history=history[: step + 1], step=step, arch=arch, options=opts, kernel=lines)
        R.case((h, step), sample=dict(history_no=h, step=step, item=ci, arch=arch, options=opts))
        try:
            got = in_process(files[ci], ARGV(arch, opts))
        except Exception as e:
            R.fail("C18/history/crash", f"C18:crash:{ci}", f"step {step} of history {history[: step + 1]}: inspect raised {e!r}", desc)
            continue
        if got != ref[ci]:
            gl, rl = got.split("\n"), ref[ci].split("\n")
            diff = next(((a, b) for a, b in zip(gl, rl) if a != b), ("<length>", f"{len(gl)} vs {len(rl)} lines"))
            R.fail("C18/history/report-differs", f"C18:history:{ci}", f"step {step} of history {history[: step + 1]} ({arch} {opts}): report differs from a fresh process; first differing line: {diff[0]!r} vs fresh {diff[1]!r}", desc)
        for path_, data in list(MachineModel._runtime_cache.items()):
            s_ = snap(data)
            if path_ not in model_snaps:
                model_snaps[path_] = s_
            elif s_ != model_snaps[path_]:
                keys = [k for k in s_ if s_[k] != model_snaps[path_].get(k)]
                R.fail("C18/history/model-mutated", f"C18:model-mutated:{os.path.basename(path_)}", f"after step {step} of history {history[: step + 1]} the cached model {os.path.basename(path_)} differs from its state after loading (keys {keys})", desc)
                model_snaps[path_] = s_
R.done()
