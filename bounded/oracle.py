"""Independent reference computations over a parsed kernel with assigned semantics (used by the bounded
harnesses of C03/C04/C05/C06/C11/C14).  Nothing here calls KernelDG or the parsers' dependence predicates:
register overlap comes from contracts/spec_regs.py, address tracking is implemented from the C06 statement."""
from fractions import Fraction
from contracts import spec_regs as S
from osaca.parser.register import RegisterOperand
from osaca.parser.memory import MemoryOperand
from osaca.parser.flag import FlagOperand
from osaca.parser.immediate import ImmediateOperand


def fam(op, isa):
    """architectural family of a register operand"""
    if isa == "x86":
        f = S.x86_family(op.name)
        return ("r", f if f is not None else op.name.lower())
    return ("r", S.a64_class(op.prefix or "x"), str(op.name).lower())


def fullname(op):
    return (op.prefix if op.prefix is not None else "") + op.name


def sem(instr):
    so = instr.semantic_operands
    if so is None:
        return [], [], []
    return list(so["source"]), list(so["destination"]), list(so["src_dst"])


def addr_regs(m):
    out = []
    if m.base is not None:
        out.append(m.base)
    if m.index is not None and isinstance(m.index, RegisterOperand):
        out.append(m.index)
    return out


def indexed(m):
    return bool(m.pre_indexed) or bool(m.post_indexed)


def reads(instr, isa):
    src, dst, sd = sem(instr)
    out = set()
    for o in src + sd:
        if isinstance(o, RegisterOperand):
            out.add(fam(o, isa))
        elif isinstance(o, FlagOperand):
            out.add(("f", o.name))
        elif isinstance(o, MemoryOperand):
            out |= {fam(r, isa) for r in addr_regs(o)}
    for o in dst:
        if isinstance(o, MemoryOperand):
            out |= {fam(r, isa) for r in addr_regs(o)}
    return out


def writes(instr, isa):
    src, dst, sd = sem(instr)
    out = set()
    for o in dst + sd:
        if isinstance(o, RegisterOperand):
            out.add(fam(o, isa))
        elif isinstance(o, FlagOperand):
            out.add(("f", o.name))
    for o in src + dst + sd:
        if isinstance(o, MemoryOperand) and indexed(o) and o.base is not None:
            out.add(fam(o.base, isa))
    return out


# ---------------------------------------------------------------- address tracking (C06 statement)
class Tracker:
    """C06 statement, not the code: per register FAMILY either None (unknown) or (origin family, accumulated constant), relative to
    the register values just before the store executes.  Accounted for: constant add/sub/inc/dec of the full-width register,
    full-width register copies (any number, resolved to the origin), AArch64 add/sub immediate into another register, pre- and
    post-index write-back.  Anything else that writes a register of the family (incl. a narrower view) makes it unknown."""

    def __init__(self, isa):
        self.isa = isa
        self.state = {}

    def get(self, famkey):
        return self.state.get(famkey, (famkey, 0))

    def full_width(self, o):
        if self.isa == "x86":
            n = o.name.lower()
            return n in ("rax", "rbx", "rcx", "rdx", "rsi", "rdi", "rbp", "rsp") or (n.startswith("r") and n[1:].isdigit())
        return (o.prefix or "x").lower() == "x"

    def apply(self, instr):
        """all register effects of `instr` (its memory accesses are evaluated by the caller BEFORE this is applied)"""
        isa = self.isa
        mn = (instr.mnemonic or "").lower()
        ops = instr.operands or []
        src, dst, sd = sem(instr)
        imm = lambda o: o.value if isinstance(o, ImmediateOperand) and isinstance(o.value, int) else None
        reg = lambda o: o if isinstance(o, RegisterOperand) else None
        effect = {}  # family -> ("bump", d) | ("copy", family, d)
        if isa == "x86":
            if mn in ("add", "addq") and len(ops) == 2 and imm(ops[0]) is not None and reg(ops[1]) and self.full_width(ops[1]):
                effect[fam(ops[1], isa)] = ("bump", imm(ops[0]))
            elif mn in ("sub", "subq") and len(ops) == 2 and imm(ops[0]) is not None and reg(ops[1]) and self.full_width(ops[1]):
                effect[fam(ops[1], isa)] = ("bump", -imm(ops[0]))
            elif mn in ("inc", "incq") and len(ops) == 1 and reg(ops[0]) and self.full_width(ops[0]):
                effect[fam(ops[0], isa)] = ("bump", 1)
            elif mn in ("dec", "decq") and len(ops) == 1 and reg(ops[0]) and self.full_width(ops[0]):
                effect[fam(ops[0], isa)] = ("bump", -1)
            elif mn in ("mov", "movq") and len(ops) == 2 and reg(ops[0]) and reg(ops[1]) and self.full_width(ops[0]) and self.full_width(ops[1]):
                effect[fam(ops[1], isa)] = ("copy", fam(ops[0], isa), 0)
        else:
            if mn in ("add", "sub", "adds", "subs") and len(ops) == 3 and reg(ops[0]) and reg(ops[1]) and imm(ops[2]) is not None and self.full_width(ops[0]) and self.full_width(ops[1]):
                effect[fam(ops[0], isa)] = ("copy", fam(ops[1], isa), imm(ops[2]) if mn.startswith("add") else -imm(ops[2]))
            elif mn == "mov" and len(ops) == 2 and reg(ops[0]) and reg(ops[1]) and self.full_width(ops[0]) and self.full_width(ops[1]):
                effect[fam(ops[0], isa)] = ("copy", fam(ops[1], isa), 0)
        wb = {}
        for o in ops:
            if isinstance(o, MemoryOperand) and o.base is not None:
                if o.pre_indexed and isinstance(o.offset, ImmediateOperand) and isinstance(o.offset.value, int):
                    wb[fam(o.base, isa)] = o.offset.value
                elif isinstance(o.post_indexed, dict):
                    wb[fam(o.base, isa)] = o.post_indexed.get("value") if isinstance(o.post_indexed.get("value"), int) else None
        old = dict(self.state)
        getold = lambda k: old.get(k, (k, 0))
        written = [fam(o, isa) for o in dst + sd if isinstance(o, RegisterOperand)]
        for w in written:
            if w in wb:
                continue  # the write-back below is this register's change
            e = effect.get(w)
            if e is None:
                self.state[w] = None
            elif e[0] == "bump":
                s_ = getold(w)
                self.state[w] = None if s_ is None else (s_[0], s_[1] + e[1])
            else:
                s_ = getold(e[1])
                self.state[w] = None if s_ is None else (s_[0], s_[1] + e[2])
        for w, d in wb.items():
            s_ = getold(w)
            self.state[w] = None if (s_ is None or d is None) else (s_[0], s_[1] + d)


def same_location(store_mem, load_mem, tr, isa):
    """True iff load_mem, evaluated with the register state `tr` just before the load executes, is provably the location
    the store wrote (store address = register values before the store + its displacement; a post-indexed access uses the
    base alone)"""
    def off(m):
        if isinstance(m.post_indexed, dict) or m.offset is None:
            return 0
        if isinstance(m.offset, ImmediateOperand) and isinstance(m.offset.value, int):
            return m.offset.value
        return None

    a, b = off(store_mem), off(load_mem)
    if a is None or b is None:
        return False
    delta = b - a
    for part in ("base", "index"):
        ra, rb = getattr(store_mem, part), getattr(load_mem, part)
        if (ra is None) != (rb is None):
            return False
        if ra is None:
            continue
        if fullname(ra).lower() != fullname(rb).lower() and not (tr.full_width(ra) and tr.full_width(rb)):
            return False  # different views of a register: not provably the same address
        st = tr.get(fam(rb, isa))
        if st is None or st[0] != fam(ra, isa):
            return False
        scale = 1
        if part == "index":
            if store_mem.scale != load_mem.scale:
                return False
            scale = load_mem.scale
        delta += st[1] * scale
    return delta == 0


# ---------------------------------------------------------------- reference dependency relation
def ref_edges(kernel, isa, model, flag_deps=False, mem=True):
    """{(i, j): set of admissible weights} over kernel indices; register/flag RAW + store->load"""
    edges = {}
    fwd = (model.get("store_to_load_forward_latency", 0) or 0) if model is not None else 0
    pidx = model.get("p_index_latency", 1) if model is not None else 1

    def w_plain(a):
        return a.latency if a.latency_wo_load is None else a.latency_wo_load

    for i, a in enumerate(kernel):
        src, dst, sd = sem(a)
        for d in dst + sd:
            if isinstance(d, RegisterOperand) or (isinstance(d, FlagOperand) and flag_deps):
                key = fam(d, isa) if isinstance(d, RegisterOperand) else ("f", d.name)
                wb = isinstance(d, RegisterOperand) and (bool(d.pre_indexed) or bool(d.post_indexed))
                for j in range(i + 1, len(kernel)):
                    b = kernel[j]
                    if key in reads(b, isa):
                        edges.setdefault((i, j), set()).add(pidx if wb else w_plain(a))
                    if key in writes(b, isa):
                        break
            elif isinstance(d, MemoryOperand) and mem:
                tr = Tracker(isa)
                tr.apply(a)  # the store's own register effects (pre-/post-index write-back) are seen by what follows
                for j in range(i + 1, len(kernel)):
                    b = kernel[j]
                    bs, bd, bsd = sem(b)
                    # the load's address is formed from the register values BEFORE the load's own register writes
                    if any(isinstance(o, MemoryOperand) and same_location(d, o, tr, isa) for o in bs + bsd):
                        edges.setdefault((i, j), set()).add(w_plain(a) + fwd)
                    if any(isinstance(o, MemoryOperand) and o == d for o in bd + bsd):
                        break  # "a later store to the same operand ends the search"
                    tr.apply(b)
    return edges


def load_stage(instr):
    """latency of the separately modelled load stage, or None"""
    if "performs_load" in instr.flags and "is_load_instruction" not in instr.flags:
        return instr.latency - instr.latency_wo_load
    return None


def ref_critical_path(kernel, edges):
    """longest chain: sum of edge weights (+ a leading load stage) + execution latency (without load stage) of the
    last instruction.  returns (length, best_end_index)"""
    n = len(kernel)
    best_in = [0.0] * n  # longest accumulated weight ending at i (before i executes)
    for i in range(n):
        ls = load_stage(kernel[i])
        best_in[i] = max(best_in[i], ls if ls is not None else 0.0)
        for (a, b), ws in edges.items():
            pass
    order = sorted(edges)
    for j in range(n):
        ls = load_stage(kernel[j])
        cand = [ls if ls is not None else 0.0]
        for (a, b), ws in edges.items():
            if b == j:
                cand.append(best_in[a] + max(ws))
        best_in[j] = max(cand)
    total = [best_in[i] + (kernel[i].latency_wo_load if kernel[i].latency_wo_load is not None else kernel[i].latency) for i in range(n)]
    m = max(total) if total else 0.0
    return m, total


def ref_lcds(kernel, isa, model, flag_deps=False):
    """cycles that start at an instruction in iteration 1 and return to it in iteration 2, each once:
    {frozenset of (line, weight) pairs -> latency}"""
    n = len(kernel)
    doubled = list(kernel) + list(kernel)
    e = ref_edges(doubled, isa, model, flag_deps)
    succ = {}
    for (a, b), ws in e.items():
        succ.setdefault(a, []).append((b, max(ws)))
    found = {}
    for root in range(n):
        target = root + n
        stack = [(root, [(root, None)])]
        # enumerate all paths root -> target (ids strictly increase, so they are simple)
        def dfs(node, path, lat):
            if node == target:
                key = tuple(sorted((kernel[x % n].line_number, w) for x, w in path))
                found[key] = lat
                return
            for nxt, w in succ.get(node, []):
                if nxt <= target:
                    dfs(nxt, path + [(node, w)], lat + w)
        dfs(root, [], 0.0)
    return found
