"""B stand-in for C13 (and the report half of C04/C05): run-time contract on the REAL osaca.osaca.inspect.
The text report is parsed back (column positions taken from its header line) and every cell is compared with the
machine-readable output (--yaml-out, parsed as plain data) at the shown precision; summary row vs. Summary;
LCD list vs. KernelDG.get_loopcarried_dependencies(); X marks / missing-data warning / totals vs. --ignore-unknown;
arch and length warnings vs. the CLI arguments.
Family: shipped examples + test kernels of each ISA + generated kernels (unknown mnemonics, zero-pressure
instructions, port sums >= 10 and >= 100, alternative port assignments, two LCDs of equal latency, zero-latency
LCD members) x models (quick: zen2, hsw / a64fx, tx2; thorough: all shipped non-empty models) x {--fixed, optimal}
x {--ignore-unknown or not} x {--arch given or not}.   usage: c13_report.py --tier T --seed S [C13|C05]"""
import glob, io, os, re, sys, tempfile
from multiprocessing import Pool
sys.path.insert(0, os.path.dirname(os.path.abspath(__file__)))
from common import args, isolate_models, Report, REPO

A = args()
MODE = (A.rest or ["C13"])[0]
X86 = ["zen2", "hsw"]
A64 = ["a64fx", "tx2"]
if A.tier == "thorough":
    X86 = ["zen1", "zen2", "zen3", "zen4", "snb", "ivb", "hsw", "icl", "icx", "spr"]
    A64 = ["a64fx", "tx2", "n1", "a72", "tsv110", "m1", "v2"]
DEFAULTS = {"x86": "spr", "aarch64": "v2"}  # default model per ISA (must be a model of that ISA; compared with DEFAULT_ARCHS)
isolate_models(sorted(set(X86 + A64 + list(DEFAULTS.values()))))
import osaca.osaca as O
from ruamel.yaml import YAML

GEN = {
    "x86": [
        ["addq $1, %rax", "addq %rax, %rbx", "vaddpd %ymm0, %ymm1, %ymm0"],
        ["foobar %rax, %rbx", "addq $1, %rax"],
        ["foobar %rax, %rbx", "bazqux %rcx, %rdx", "addq $1, %rax"],
        ["addq %rbx, %rax", "addq %rax, %rbx"],
        ["vaddpd %xmm1, %xmm0, %xmm2", "vmovapd %xmm2, %xmm0", "addq $1, %rax"],
        ["vdivsd %xmm1, %xmm2, %xmm3", "addq $1, %rax", "addq %rax, %rbx"],
        ["vmulpd (%rax), %ymm1, %ymm2"] * 12 + ["addq $8, %rax"],
        ["vdivpd %ymm1, %ymm2, %ymm3"] * 30,
        ["jmp .L1", "addq $1, %rax"],
        [".L1:", "# comment only", "addq $1, %rax", ".align 16", "subq $1, %rbx", "jne .L1"],
        # an unknown line next to forms whose model entry lacks only ONE of throughput / latency (zen1 sqrtsd, pop; ivb/hsw forms)
        ["vaddpd %xmm1, %xmm0, %xmm2", "sqrtsd %xmm3, %xmm4", "foobar %rax, %rbx", "popq %rax", "addq $1, %rax"],
        ["sqrtsd %xmm3, %xmm4", "rcpss %xmm1, %xmm2", "addq $1, %rax"],
        # no-arch + large unmarked file: both warnings are due at once
    ],
    "aarch64": [
        ["add x1, x1, #1", "add x2, x1, x2", "fadd d0, d1, d0"],
        ["foobar x1, x2", "add x1, x1, #1"],
        ["smlal v1.2d, v2.2s, v3.2s", "add x1, x1, #1"],
        ["smlal v1.2d, v2.2s, v3.2s", "sadalp v4.2d, v5.4s", "sadalp v4.2d, v5.4s", "sshll v6.2d, v7.2s, #0"],
        ["add x1, x2, x1", "add x2, x1, x2"],
        ["ldr x1, [x2], #8", "add x3, x3, x1"],
        ["fdiv d0, d1, d2"] * 25,
        ["fmla v0.2d, v1.2d, v2.2d"] * 14 + ["add x1, x1, #1"],
        [".L1:", "// comment only", "add x1, x1, #1", "b.ne .L1"],
        # an unknown line next to forms whose model entry lacks only the latency (ret on a64fx/tx2/m1/v2, fmov on tx2/n1)
        ["frobnicate x3, x4", "add x1, x1, #1", "subs x2, x2, #1", "fmov d1, d2", "ret"],
    ],
}


def corpus(isa):
    out = []
    pats = {"x86": ["tests/test_files/kernel_x86.s", "tests/test_files/kernel_x86_memdep.s", "tests/test_files/triad_x86_iaca.s", "examples/*/*.zen.*.s", "examples/*/*.csx.*.s"],
            "aarch64": ["tests/test_files/kernel_aarch64.s", "tests/test_files/kernel_aarch64_memdep.s", "tests/test_files/kernel_aarch64_sve.s", "tests/test_files/triad_arm_iaca.s", "examples/*/*.tx2.*.s"]}[isa]
    files = []
    for p in pats:
        files += sorted(glob.glob(os.path.join(REPO, p)))
    files = [f for f in dict.fromkeys(files) if not f.endswith(".copy.s") and "long_LCD" not in f]
    if A.tier != "thorough":
        files = files[:6]
    for f in files:
        out.append((os.path.relpath(f, REPO), open(f).read()))
    for i, k in enumerate(GEN[isa]):
        out.append((f"generated-{isa}-{i}", "\n".join(k) + "\n"))
    return out


def run_cli(code, argv):
    p = O.create_parser()
    with tempfile.NamedTemporaryFile("w", suffix=".s", delete=False) as f:
        f.write(code)
        path = f.name
    yml = path + ".yml"
    try:
        a = p.parse_args(argv + ["--yaml-out", yml, path])
        O.check_arguments(a, p)
        out = io.StringIO()
        O.run(a, output_file=out)
        a.yaml_out.close()
        a.file.close()
        data = YAML(typ="unsafe", pure=True).load(open(yml))
        return out.getvalue(), data
    finally:
        for x in (path, yml):
            if os.path.exists(x):
                os.unlink(x)


def parse_header(line):
    """-> list of (name, start, end) cells for ports, then CP and LCD"""
    cells = []
    i = 5
    assert line[i] == "|", line
    i += 1
    while i < len(line):
        j = i
        while j < len(line) and line[j] in " ":
            j += 1
        if j < len(line) and line[j] == "|":  # empty cell = the double separator before CP
            i = j + 1
            continue
        k = j
        while k < len(line) and line[k] not in "|":
            if line[k] == "-" and line[k - 1] == " " and k + 1 < len(line) and line[k + 1] == " ":
                break
            k += 1
        cells.append((line[i:k].strip(), i, k))
        i = k + 1
    return cells


def shown(cell):
    cell = cell.strip()
    if cell == "":
        return None, 0
    dec = len(cell.split(".")[1]) if "." in cell else 0
    return float(cell), dec


def agree(txt_val, dec, real_val):
    return abs(round(float(real_val), dec) - txt_val) < 10 ** (-dec) / 2 + 1e-9 or f"{float(real_val):.{dec}f}" == f"{txt_val:.{dec}f}"


def check_case(case):
    name, code, isa, arch, fixed, ignore, give_arch = case
    fails = []
    desc = dict(file=name, arch=arch, fixed=fixed, ignore_unknown=ignore, arch_given=give_arch)
    argv = (["--arch", arch] if give_arch else []) + (["--fixed"] if fixed else []) + (["--ignore-unknown"] if ignore else [])
    try:
        text, d = run_cli(code, argv)
    except Exception as e:
        import traceback
        return [("crash", f"inspect raised {e!r}: {traceback.format_exc()[-400:]}", desc)], False
    lines = text.split("\n")
    kern = d["Kernel"]
    ports = d["Target"]["Ports"]
    nontrivial = any(k["Instruction"] for k in kern)
    # ---- warnings
    has_arch_w = "WARNING: No micro-architecture was specified" in text
    if has_arch_w != (not give_arch) or ("ArchWarning" in d["Warnings"]) != (not give_arch):
        fails.append(("arch-warning", f"arch warning text={has_arch_w} dict={'ArchWarning' in d['Warnings']} but --arch given={give_arch}", desc))
    if not give_arch and d["Target"]["Name"].lower() != DEFAULTS[isa]:
        fails.append(("default-arch", f"no --arch: model {d['Target']['Name']} used, documented default for {isa} is {DEFAULTS[isa]}", desc))
    n_parsed = len([l for l in code.split("\n") if l.strip()])
    marked = ("OSACA-BEGIN" in code) or ("$111" in code and "ebx" in code) or ("#111" in code and "x1" in code)
    want_len_w = (not marked) and len(kern) == n_parsed and len(kern) > 100
    has_len_w = "WARNING: You are analyzing a large amount of instruction forms" in text
    if has_len_w != want_len_w or ("LengthWarning" in d["Warnings"]) != want_len_w:
        fails.append(("length-warning", f"length warning text={has_len_w} dict={'LengthWarning' in d['Warnings']} expected={want_len_w} ({len(kern)} lines analysed)", desc))
    # ---- table
    try:
        hi = next(i for i, l in enumerate(lines) if l.startswith("     |") and "CP" in l and "LCD" in l)
    except StopIteration:
        return fails + [("no-table", "combined table header not found", desc)], nontrivial
    cells = parse_header(lines[hi])
    pcells = cells[:-2]
    if [c[0] for c in pcells] != list(ports) or [c[0] for c in cells[-2:]] != ["CP", "LCD"]:
        fails.append(("header", f"table columns {[c[0] for c in cells]} != model ports {ports} + CP, LCD", desc))
        return fails, nontrivial
    rows = {}
    r = hi + 2
    while r < len(lines) and re.match(r"^\s*\d+ \|", lines[r]):
        rows[int(lines[r][:4])] = lines[r]
        r += 1
    unknown = [k for k in kern if "tp_unknown" in k["Flags"]]
    cp_total = lcd_max = 0.0
    lcd_col = {}
    for k in kern:
        row = rows.get(k["LineNumber"])
        if row is None:
            fails.append(("row-missing", f"line {k['LineNumber']} not in the table", desc))
            continue
        for (pname, s, e) in pcells:
            v, dec = shown(row[s:e])
            real = k["PortPressure"][pname]
            if v is None:
                if abs(real) > 1e-12:
                    fails.append(("pressure-cell", f"line {k['LineNumber']} port {pname}: blank cell but value {real}", desc))
            elif not agree(v, dec, real):
                fails.append(("pressure-cell", f"line {k['LineNumber']} port {pname}: shown {row[s:e].strip()} vs {real}", desc))
        (_, s, e), (_, s2, e2) = cells[-2], cells[-1]
        cpv, dec = shown(row[s:e])
        if cpv is None:
            if abs(k["LatencyCP"]) > 1e-12:
                fails.append(("cp-cell", f"line {k['LineNumber']}: blank CP cell but LatencyCP {k['LatencyCP']}", desc))
        else:
            cp_total += cpv
            if not agree(cpv, dec, k["LatencyCP"]):
                fails.append(("cp-cell", f"line {k['LineNumber']}: CP cell {cpv} vs LatencyCP {k['LatencyCP']}", desc))
        lv, dec = shown(row[s2:e2])
        if lv is not None:
            lcd_col[k["LineNumber"]] = lv
        if (lv if lv is not None else 0.0) != float(k["LatencyLCD"]) and not (lv is not None and agree(lv, dec, k["LatencyLCD"])):
            fails.append(("lcd-cell", f"line {k['LineNumber']}: LCD cell {lv} vs LatencyLCD {k['LatencyLCD']}", desc))
        rest = row[e2 + 1:]
        mark = rest[:3]
        if k["Instruction"] is not None and (("X" in mark) != ("tp_unknown" in k["Flags"])):
            fails.append(("x-mark", f"line {k['LineNumber']}: X mark {'X' in mark} vs tp_unknown flag {'tp_unknown' in k['Flags']}", desc))
    # ---- summary / missing-data branch
    warn = re.search(r"WARNING: The performance data for (\d+) instructions is missing", text)
    tail = lines[r:r + 3]
    summ = next((l for l in tail if l.startswith("     ") and l.strip() and re.match(r"^[\s\d.]+$", l)), None)
    if unknown and not ignore:
        if not warn or int(warn.group(1)) != len(unknown):
            fails.append(("missing-warning", f"{len(unknown)} lines lack data, warning says {warn.group(1) if warn else None}", desc))
        if summ is not None:
            fails.append(("totals-despite-missing", "summary totals printed although data is missing and --ignore-unknown not given", desc))
        if "UnknownInstrWarning" not in d["Warnings"]:
            fails.append(("missing-warning-dict", "UnknownInstrWarning missing in machine-readable output", desc))
    else:
        if warn:
            fails.append(("missing-warning", "missing-data warning shown although it should not be", desc))
        if summ is None:
            fails.append(("no-summary", "summary row not found", desc))
        else:
            for (pname, s, e) in pcells:
                v, dec = shown(summ[s:e])
                real = d["Summary"]["PortPressure"].get(pname, 0.0)
                if (v is None and abs(real) > 1e-12) or (v is not None and not agree(v, dec, real)):
                    fails.append(("summary-port", f"summary port {pname}: shown {summ[s:e].strip()!r} vs {real}", desc))
            nums = summ[pcells[-1][2]:].split()
            if len(nums) != 2 or abs(float(nums[0]) - d["Summary"]["CriticalPath"]) > 1e-9 or abs(float(nums[1]) - d["Summary"]["LCD"]) > 1e-9:
                fails.append(("summary-cp-lcd", f"summary CP/LCD {nums} vs {d['Summary']['CriticalPath']}/{d['Summary']['LCD']}", desc))
            if len(nums) == 2 and abs(float(nums[0]) - cp_total) > 1e-6:
                fails.append(("cp-total", f"CP total {nums[0]} != sum of the CP column {cp_total}", desc))
    # ---- column sums of the dict = summary (C01 totals clause on real models)
    for pname in ports:
        col = round(sum(k["PortPressure"][pname] for k in kern if k["Throughput"] != 0.0), 2)
        if any(k["Throughput"] != 0.0 for k in kern) and abs(col - d["Summary"]["PortPressure"][pname]) > 1e-9:
            fails.append(("summary-vs-columns", f"port {pname}: Summary {d['Summary']['PortPressure'][pname]} != column sum {col}", desc))
    # ---- LCD list vs LCD figure vs LCD column
    li = next((i for i, l in enumerate(lines) if l.startswith("Loop-Carried Dependencies Analysis Report")), None)
    lcds = []
    if li is not None:
        for l in lines[li + 2:]:
            m = re.match(r"^\s*(\d+) \|\s*([\d.]+) \| (.*)\| (\[.*\])\s*$", l)
            if m:
                lcds.append((int(m.group(1)), float(m.group(2)), eval(m.group(4))))
    fig = max([x[1] for x in lcds], default=0.0)
    if abs(fig - d["Summary"]["LCD"]) > 1e-9:
        fails.append(("lcd-figure", f"Summary.LCD {d['Summary']['LCD']} != maximum of the LCD list {fig}", desc))
    if lcds:
        best = [x for x in lcds if abs(x[1] - fig) < 1e-9]
        if not any(set(x[2]) == set(lcd_col) for x in best):
            fails.append(("lcd-column", f"LCD column marks lines {sorted(lcd_col)}, no longest LCD has exactly these members ({[x[2] for x in best]})", desc))
        if abs(sum(lcd_col.values()) - fig) > 1e-6:
            fails.append(("lcd-column-sum", f"LCD column sums to {sum(lcd_col.values())}, LCD figure {fig}", desc))
    elif lcd_col:
        fails.append(("lcd-column", "LCD column marked although no LCD is listed", desc))
    return (fails, nontrivial, lcds, dict(d["Summary"]))


def lcd_reference(case):
    """LCD list of the report vs the analysis objects (same inputs, direct API)"""
    name, code, isa, arch, fixed, ignore, give_arch = case
    from osaca.parser import get_parser
    from osaca.semantics import MachineModel, ArchSemantics, KernelDG, reduce_to_section
    mm = MachineModel(arch=arch)
    p = get_parser(isa)
    k = reduce_to_section(p.parse_file(code), isa)
    sem = ArchSemantics(mm)
    sem.add_semantics(k)
    if not fixed:
        sem.assign_optimal_throughput(k)
        sem.assign_optimal_throughput(k)
    dg = KernelDG(k, p, mm, sem, timeout=-1)
    return sorted((sorted(x.line_number for x, _ in v["dependencies"]), v["latency"]) for v in dg.get_loopcarried_dependencies().values())


def dict_first(case):
    """the machine-readable output asked for FIRST on a fresh analysis (no text report before it, as a library user does):
    every LatencyCP must be the line's contribution to the critical path of THIS analysis and add up to Summary.CriticalPath"""
    name, code, isa, arch, fixed, ignore, give_arch = case
    from osaca.parser import get_parser
    from osaca.semantics import MachineModel, ArchSemantics, KernelDG, reduce_to_section
    from osaca.frontend import Frontend
    mm = MachineModel(arch=arch)
    p = get_parser(isa)
    k = reduce_to_section(p.parse_file(code), isa)
    sem = ArchSemantics(mm)
    sem.add_semantics(k)
    dg = KernelDG(k, p, mm, sem, timeout=-1)
    d = Frontend(arch=arch).full_analysis_dict(k, dg)
    cp = {x.line_number: x.latency_cp for x in dg.get_critical_path()}
    fails = []
    rows = {r["LineNumber"]: r for r in d["Kernel"]}
    for ln, r in rows.items():
        if abs(float(r["LatencyCP"]) - float(cp.get(ln, 0.0))) > 1e-9:
            fails.append(("dict-first-cp", f"fresh analysis, dict output first: line {ln} LatencyCP {r['LatencyCP']} but its contribution to the critical path is {cp.get(ln, 0.0)}", dict(file=name, arch=arch)))
            break
    if abs(float(d["Summary"]["CriticalPath"]) - sum(float(v) for v in cp.values())) > 1e-9:
        fails.append(("dict-first-cp-total", f"Summary.CriticalPath {d['Summary']['CriticalPath']} != sum of the contributions {sum(cp.values())}", dict(file=name, arch=arch)))
    return fails


def main():
    R = Report("corpus kernels x models x {--fixed, optimal} x {--ignore-unknown} x {--arch given}; distinct = distinct (file, model, options) containing at least one instruction", exhaustive=False)
    if {k: v.lower() for k, v in O.DEFAULT_ARCHS.items()} != DEFAULTS:
        R.fail("C13/report/default-archs", "C13:default-archs", f"DEFAULT_ARCHS {O.DEFAULT_ARCHS} != documented {DEFAULTS}")
    cases = []
    for isa, archs in (("x86", X86), ("aarch64", A64)):
        for name, code in corpus(isa):
            for arch in archs:
                for fixed in (False, True):
                    for ignore in (False, True):
                        # thorough: every model; the option combinations other than the default one only on the models of the
                        # quick tier and on generated kernels (keeps the sweep within the time limit)
                        if A.tier == "thorough" and (fixed or ignore) and arch not in ("zen2", "hsw", "a64fx", "tx2") and not name.startswith("generated"):
                            continue
                        cases.append((name, code, isa, arch, fixed, ignore, True))
            cases.append((name, code, isa, DEFAULTS[isa], False, False, False))
    big = "\n".join(["addq $1, %rax"] * 101) + "\n"
    cases.append(("generated-large-unmarked", big, "x86", "zen2", True, False, True))
    cases.append(("generated-large-marked", "# OSACA-BEGIN\n" + big + "# OSACA-END\n", "x86", "zen2", True, False, True))
    cases.append(("generated-large-unmarked-no-arch", big, "x86", DEFAULTS["x86"], True, False, False))  # both warnings at once
    # "more than 100 PARSED lines": 90 instructions + 15 label / comment / directive lines are 105 parsed lines; 100 instructions are not
    mixed = "\n".join("\n".join(["addq $1, %rax"] * 6 + [(".L%d:" % i) if i % 3 == 0 else ("# note %d" % i) if i % 3 == 1 else ".p2align 4"]) for i in range(15)) + "\n"
    cases.append(("generated-large-unmarked-mixed-lines", mixed, "x86", "zen2", True, False, True))
    cases.append(("generated-exactly-100-lines", "\n".join(["addq $1, %rax"] * 100) + "\n", "x86", "zen2", True, False, True))
    cases.append(("generated-large-unmarked-no-arch-a64", "\n".join(["add x1, x1, #1"] * 120) + "\n", "aarch64", DEFAULTS["aarch64"], True, False, False))
    for isa, archs in (("x86", X86), ("aarch64", A64)):  # warm the model caches sequentially (see dg_oracle.py)
        for arch in archs + [DEFAULTS[isa]]:
            try:
                run_cli(GEN[isa][0][0] + "\n", ["--arch", arch])
            except Exception:
                pass
    from concurrent.futures import ProcessPoolExecutor  # non-daemonic workers: the analysis itself may fork (>= 50 lines)
    with ProcessPoolExecutor(min(16, os.cpu_count() or 4)) as pool:
        results = list(pool.map(check_case, cases, chunksize=4))
    for case, res in zip(cases, results):
        fails, nontrivial = res[0], res[1]
        R.case((case[0], case[3], case[4], case[5], case[6]), nontrivial=nontrivial, sample=dict(file=case[0], arch=case[3], fixed=case[4], ignore_unknown=case[5], arch_given=case[6]))
        if len(res) > 2 and case[6] and not case[5]:
            try:
                ref = lcd_reference(case)
                got = sorted((sorted(m), lat) for _, lat, m in res[2])
                if ref != got:
                    fails.append(("lcd-list", f"LCD list of the report {got} != get_loopcarried_dependencies() {ref}", dict(file=case[0], arch=case[3])))
            except Exception as e:
                pass
        if case[0].startswith("generated") and case[6] and case[4] and not case[5] and len(case[1]) < 2000:
            try:
                fails += dict_first(case)
            except Exception as e:
                fails.append(("dict-first-crash", f"full_analysis_dict on a fresh analysis raised {e!r}", dict(file=case[0], arch=case[3])))
        for what, detail, desc in fails:
            if MODE == "C05" and not what.startswith("lcd"):
                continue
            R.fail(f"{MODE}/report/{what}", f"{MODE}:{what}:{case[0]}:{case[3]}", detail, desc)
    R.done()


main()
