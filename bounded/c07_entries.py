"""B stand-in for C07 (data half): for every entry of every shipped model (quick: zen1, zen2, tx2, n1, a72, a64fx; thorough: all
non-empty models + both ISA databases) the instruction synthesised from the entry's own operand pattern is looked up with the
REAL MachineModel.get_instruction: it must be found, and the entry returned must be the first entry in file order (under the
upper-cased mnemonic) whose pattern the reference matcher (contracts/spec_matcher.py, executed natively) accepts.
Models are re-loaded from copies of the YAML files with isolated HOME, so the current loader code is exercised."""
import os, sys
sys.path.insert(0, os.path.dirname(os.path.abspath(__file__)))
from common import args, isolate_models, Report
from contracts import spec_matcher as S
A = args()
MODELS = ["zen1", "zen2", "tx2", "n1", "a72", "a64fx"]
if A.tier == "thorough":
    MODELS = ["zen1", "zen2", "zen3", "zen4", "snb", "ivb", "hsw", "icl", "icx", "spr", "tx2", "n1", "a72", "a64fx", "tsv110", "m1", "v2"]
isolate_models(MODELS)
MODELS = MODELS + ["isa/x86", "isa/aarch64"]  # the ISA semantic databases are looked up with the same matcher
from osaca.semantics import MachineModel
from osaca.parser.register import RegisterOperand
from osaca.parser.memory import MemoryOperand
from osaca.parser.immediate import ImmediateOperand
from osaca.parser.identifier import IdentifierOperand
from osaca.parser.condition import ConditionOperand
from osaca.parser.prefetch import PrefetchOperand

R = Report("every instruction form of the listed models: instruction synthesised from the entry's own pattern; distinct = distinct (model, mnemonic, pattern)", exhaustive=True)
from synth import synth, NOT_CLASSES, X86_SAMPLE


def kind(off):
    return None if off is None else "id" if isinstance(off, IdentifierOperand) else "imd"


def ref_agrees(e, p, isa):
    if isinstance(p, RegisterOperand):
        if not isinstance(e, RegisterOperand):
            return False
        return S.x86_reg_agrees(e.name, p) if isa == "x86" else S.a64_reg_agrees(e, p)
    if isinstance(p, MemoryOperand):
        if not isinstance(e, MemoryOperand):
            return False
        return S.x86_mem_agrees(e, p, kind(p.offset)) if isa == "x86" else S.a64_mem_agrees(e, p, kind(p.offset))
    if isinstance(p, ImmediateOperand):
        if not isinstance(e, ImmediateOperand):
            return False
        return e.imd_type == "int" if isa == "x86" else S.imm_agrees_a64(e.imd_type, p.imd_type, p.value is not None)
    if isinstance(p, IdentifierOperand):
        return isinstance(e, IdentifierOperand)
    if isinstance(p, ConditionOperand):
        return isinstance(e, ConditionOperand) and (e.ccode == "*" or e.ccode == p.ccode)
    if isinstance(p, PrefetchOperand):
        return isinstance(e, PrefetchOperand)
    return False


for arch in MODELS:
    mm = MachineModel(arch=arch)
    isa = mm.get_ISA()
    by_name = mm["instruction_forms_dict"]
    for name, entries in by_name.items():
        for e in entries:
            ops = [synth(o, isa) for o in e.operands]
            key = (arch, name, tuple(repr(o) for o in e.operands))
            if any(o is None for o in ops):
                R.case(key, nontrivial=False)
                R.fail("C07/entries/unreachable-class", f"C07:not-a-class:{arch}", f"{arch} {name}: operand pattern uses a register class that no parsed register has ({[getattr(o, 'name', None) or getattr(o, 'prefix', None) for o in e.operands]})", dict(arch=arch, mnemonic=name))
                continue
            R.case(key, sample=dict(arch=arch, mnemonic=name, operands=len(ops)))
            try:
                got = mm.get_instruction(name.lower(), ops)
            except Exception as ex_:
                R.fail("C07/entries/crash", f"C07:crash:{arch}", f"{arch} {name}: get_instruction raised {ex_!r}", dict(arch=arch, mnemonic=name))
                continue
            want = next((c for c in entries if len(c.operands) == len(ops) and all(ref_agrees(a, b, isa) for a, b in zip(c.operands, ops))), None)
            if got is None:
                R.fail("C07/entries/not-found", f"C07:not-found:{arch}", f"{arch} {name}: instruction written with the entry's own operand kinds is reported unknown", dict(arch=arch, mnemonic=name, pattern=[repr(o) for o in e.operands][:4]))
            elif got is not want:
                R.fail("C07/entries/wrong-entry", f"C07:wrong-entry:{arch}", f"{arch} {name}: lookup returned entry #{entries.index(got)}, the first entry accepted by the reference matcher is #{entries.index(want) if want in entries else None}", dict(arch=arch, mnemonic=name))
R.done()
