"""B stand-in for C07 (data half): for every entry of every shipped model (quick: zen1, zen2, tx2, n1, a72, a64fx; thorough: all
non-empty models + both ISA databases) the instruction synthesised from the entry's own operand pattern is looked up with the
REAL MachineModel.get_instruction: it must be found, and the entry returned must be the first entry in file order (under the
upper-cased mnemonic) whose pattern the reference matcher (contracts/spec_matcher.py, executed natively) accepts.
Models are re-loaded from copies of the YAML files with isolated HOME, so the current loader code is exercised."""
import os, sys
sys.path.insert(0, os.path.dirname(os.path.abspath(__file__)))
from common import args, isolate_models, Report
from contracts import spec_matcher as S
A = args()
MODELS = ["zen1", "zen2", "tx2", "n1", "a72", "a64fx"]
if A.tier == "thorough":
    MODELS = ["zen1", "zen2", "zen3", "zen4", "snb", "ivb", "hsw", "icl", "icx", "spr", "tx2", "n1", "a72", "a64fx", "tsv110", "m1", "v2"]
isolate_models(MODELS)
MODELS = MODELS + ["isa/x86", "isa/aarch64"]  # the ISA semantic databases are looked up with the same matcher
from osaca.semantics import MachineModel
from osaca.parser.register import RegisterOperand
from osaca.parser.memory import MemoryOperand
from osaca.parser.immediate import ImmediateOperand
from osaca.parser.identifier import IdentifierOperand
from osaca.parser.condition import ConditionOperand
from osaca.parser.prefetch import PrefetchOperand

R = Report("every instruction form of the listed models: instruction synthesised from the entry's own pattern; distinct = distinct (model, mnemonic, pattern)", exhaustive=True)
from synth import synth, NOT_CLASSES, X86_SAMPLE


def kind(off):
    return None if off is None else "id" if isinstance(off, IdentifierOperand) else "imd"


def ref_agrees(e, p, isa):
    if isinstance(p, RegisterOperand):
        if not isinstance(e, RegisterOperand):
            return False
        return S.x86_reg_agrees(e.name, p) if isa == "x86" else S.a64_reg_agrees(e, p)
    if isinstance(p, MemoryOperand):
        if not isinstance(e, MemoryOperand):
            return False
        return S.x86_mem_agrees(e, p, kind(p.offset)) if isa == "x86" else S.a64_mem_agrees(e, p, kind(p.offset))
    if isinstance(p, ImmediateOperand):
        if not isinstance(e, ImmediateOperand):
            return False
        return e.imd_type == "int" if isa == "x86" else S.imm_agrees_a64(e.imd_type, p.imd_type, p.value is not None)
    if isinstance(p, IdentifierOperand):
        return isinstance(e, IdentifierOperand)
    if isinstance(p, ConditionOperand):
        return isinstance(e, ConditionOperand) and (e.ccode == "*" or e.ccode == p.ccode)
    if isinstance(p, PrefetchOperand):
        return isinstance(e, PrefetchOperand)
    return False


from collections import defaultdict
from ruamel.yaml import YAML


def same_scalar(a, b):
    if isinstance(a, str) and isinstance(b, str):
        return a.lower() == b.lower()
    return a == b and type(a) is type(b) or (a in (None, False) and b in (None, False))


def reg_pattern(v):
    """a base/index pattern of a table entry: a class name or a dict {name|prefix: ...} or None / '*'"""
    if isinstance(v, dict):
        return v.get("name") or v.get("prefix")
    return v


def fidelity(raw, loaded):
    """problems of one loaded operand pattern against the plain-YAML operand it was loaded from"""
    cls = {"register": RegisterOperand, "memory": MemoryOperand, "immediate": ImmediateOperand, "identifier": IdentifierOperand,
           "condition": ConditionOperand, "prfop": PrefetchOperand}.get(raw.get("class"))
    if cls is None:
        return []
    if not isinstance(loaded, cls):
        return [f"class {raw.get('class')} loaded as {type(loaded).__name__}"]
    bad = []
    if cls is RegisterOperand:
        for k in ("name", "prefix", "shape"):
            if k in raw and not same_scalar(raw[k], getattr(loaded, k)):
                bad.append(f"{k}: {raw[k]!r} loaded as {getattr(loaded, k)!r}")
    if cls is MemoryOperand:
        for k in ("base", "index"):
            lv = getattr(loaded, k)
            lv = (lv.name or lv.prefix) if isinstance(lv, RegisterOperand) else lv
            if not same_scalar(reg_pattern(raw.get(k)), lv):
                bad.append(f"{k}: {raw.get(k)!r} loaded as {lv!r}")
        for k in ("offset", "scale"):
            lv = getattr(loaded, k)
            if not same_scalar(raw.get(k), lv) and not (isinstance(lv, (ImmediateOperand, IdentifierOperand)) and raw.get(k) in ("imd", "id")):
                bad.append(f"{k}: {raw.get(k)!r} loaded as {lv!r}")
        for k in ("pre_indexed", "post_indexed"):
            if not same_scalar(raw.get(k, False), getattr(loaded, k)):
                bad.append(f"{k}: {raw.get(k, False)!r} loaded as {getattr(loaded, k)!r}")
    if cls is ImmediateOperand and not same_scalar(raw.get("imd"), loaded.imd_type):
        bad.append(f"imd: {raw.get('imd')!r} loaded as {loaded.imd_type!r}")
    if cls is ConditionOperand and not same_scalar(raw.get("ccode"), loaded.ccode):
        bad.append(f"ccode: {raw.get('ccode')!r} loaded as {loaded.ccode!r}")
    return bad


for arch in MODELS:
    mm = MachineModel(arch=arch)
    isa = mm.get_ISA()
    by_name = mm["instruction_forms_dict"]
    # ---- loader fidelity: per mnemonic the loaded entries are the file's entries IN FILE ORDER (alias lists expanded in place)
    # with the operand patterns as written ("the first matching entry in file order supplies the data")
    ypath = os.path.join(os.path.expanduser("~"), ".osaca", "data", arch + ".yml")
    raw = YAML(typ="safe").load(open(ypath))
    want_by_name = defaultdict(list)
    for f in raw["instruction_forms"]:
        for nm in (f["name"] if isinstance(f["name"], list) else [f["name"]]):
            want_by_name[nm.upper()].append(f)
    for name, wl in want_by_name.items():
        ll = by_name.get(name, [])
        R.case(("loader", arch, name), nontrivial=len(wl) > 1, sample=dict(arch=arch, loader=name, entries=len(wl)))
        if len(ll) != len(wl):
            R.fail("C07/loader/entry-count", f"C07:loader-count:{arch}", f"{arch} {name}: {len(wl)} entries in the file, {len(ll)} after loading", dict(arch=arch, mnemonic=name))
            continue
        for i, (f, e) in enumerate(zip(wl, ll)):
            rops = f.get("operands") or []
            if len(rops) != len(e.operands):
                R.fail("C07/loader/file-order", f"C07:loader-order:{arch}", f"{arch} {name}: entry #{i} in file order has {len(rops)} operands, loaded entry #{i} has {len(e.operands)} (entries reordered?)", dict(arch=arch, mnemonic=name))
                break
            probs = [p_ for ro, lo in zip(rops, e.operands) for p_ in fidelity(ro, lo)]
            same_data = (f.get("throughput"), f.get("latency")) == (e.throughput, e.latency)
            if probs or not same_data:
                what = "; ".join(probs[:3]) or f"throughput/latency {(f.get('throughput'), f.get('latency'))} vs {(e.throughput, e.latency)} (entries reordered?)"
                R.fail("C07/loader/" + ("pattern" if probs else "file-order"), f"C07:loader-{'pattern' if probs else 'order'}:{arch}", f"{arch} {name} entry #{i}: {what}", dict(arch=arch, mnemonic=name))
                break
    for name, entries in by_name.items():
        for e in entries:
            ops = [synth(o, isa) for o in e.operands]
            key = (arch, name, tuple(repr(o) for o in e.operands))
            if any(o is None for o in ops):
                R.case(key, nontrivial=False)
                R.fail("C07/entries/unreachable-class", f"C07:not-a-class:{arch}", f"{arch} {name}: operand pattern uses a register class that no parsed register has ({[getattr(o, 'name', None) or getattr(o, 'prefix', None) for o in e.operands]})", dict(arch=arch, mnemonic=name))
                continue
            R.case(key, sample=dict(arch=arch, mnemonic=name, operands=len(ops)))
            try:
                got = mm.get_instruction(name.lower(), ops)
            except Exception as ex_:
                R.fail("C07/entries/crash", f"C07:crash:{arch}", f"{arch} {name}: get_instruction raised {ex_!r}", dict(arch=arch, mnemonic=name))
                continue
            want = next((c for c in entries if len(c.operands) == len(ops) and all(ref_agrees(a, b, isa) for a, b in zip(c.operands, ops))), None)
            if got is None:
                R.fail("C07/entries/not-found", f"C07:not-found:{arch}", f"{arch} {name}: instruction written with the entry's own operand kinds is reported unknown", dict(arch=arch, mnemonic=name, pattern=[repr(o) for o in e.operands][:4]))
            elif got is not want:
                R.fail("C07/entries/wrong-entry", f"C07:wrong-entry:{arch}", f"{arch} {name}: lookup returned entry #{entries.index(got)}, the first entry accepted by the reference matcher is #{entries.index(want) if want in entries else None}", dict(arch=arch, mnemonic=name))
R.done()
