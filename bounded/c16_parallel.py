"""B stand-in for C16: (1) the partition of roots produced by the REAL check_for_loopcarried_dep (multiprocessing replaced by
synchronous stubs) for all klen in 50..130 x workers in {1,2,3,5,7,16,17,64,200} (exhaustive in that range);
(2) real processes: for kernels of 50..66 lines (an 8-link ring, a 2-cycle across distant lines, self-cycles; AArch64) the
parallel search with cpu_count patched to {1,2,3,5,16,80} and seeded random / reversed delays per worker (completion order
perturbed) returns exactly the result of the sequential search (threshold patched), and
two runs of the report differ only in the timestamp line."""
import os, sys, io
sys.path.insert(0, os.path.dirname(os.path.abspath(__file__)))
sys.path.insert(0, os.path.join(os.path.dirname(os.path.abspath(__file__)), "..", "replay"))
from common import args, isolate_models, Report
A = args()
isolate_models(["tx2", "zen2"])
R = Report("(1) klen 50..130 x 9 worker counts, partition probe; (2) real processes on kernels of 50..66 lines x 6 worker counts; distinct = distinct (klen, workers)", exhaustive=False)
from replay import probe as more

for klen in range(50, 131):
    for n in (1, 2, 3, 5, 7, 16, 17, 64, 200):
        secs = more.partition_probe(klen, n)
        flat = [i for s in secs for i in s]
        R.case(("probe", klen, n), sample=dict(klen=klen, workers=n, sections=[len(s) for s in secs][:8]))
        if flat != list(range(klen)) or len(secs) != n:
            R.fail("C16/partition", f"C16:partition", f"klen={klen} workers={n}: {len(flat)} of {klen} roots handed out, sections {[len(s) for s in secs]}", dict(klen=klen, n=n))

import osaca.semantics.kernel_dg as K
from osaca.parser import get_parser
from osaca.semantics import MachineModel, ArchSemantics, KernelDG
mm = MachineModel(arch="tx2"); parser = get_parser("aarch64"); sem = ArchSemantics(mm)

def kernel_text(klen):
    """an 8-link ring through lines 1..8 (longer than a worker's chunk when there are many workers), a 2-cycle whose members
    lie far apart (different workers' chunks), and one independent self-cycle per remaining line"""
    lines = [f"add x{i + 1}, x{i}, #1" for i in range(7)] + ["add x0, x7, #1"]
    free = [f"x{r}" for r in (8, 9, 11, 12, 13, 14, 15, 16, 17, 18, 19, 21, 22, 23, 24, 25, 26, 27, 28)]
    for i in range(8, klen):
        if i == 10:
            lines.append("add x10, x20, #1")
        elif i == klen - 2:
            lines.append("add x20, x10, #1")
        elif i == klen - 7:
            # a mutual recurrence of two self-updating neighbours (cycles {a}, {b}, {a, b}): an instruction that was already seen on
            # a cycle through an earlier root is still the root of cycles of its own
            lines.append("fadd d30, d30, d31")
        elif i == klen - 6:
            lines.append("fmul d31, d31, d30")
        elif i - 8 < len(free):
            lines.append(f"add {free[i - 8]}, {free[i - 8]}, #1")
        else:
            d = (i - 8 - len(free)) % 30
            lines.append(f"fadd d{d}, d{d}, d{d}")
    # non-instruction lines are kernel entries too (label, comment, directive): every INSTRUCTION must still be a search root
    lines[0:0] = [".L1:"]
    lines[20:20] = ["// a comment line", ".p2align 4"]
    return "\n".join(lines[:klen]) + "\n"

import random, time
_orig_extend = KernelDG._extend_path
_delays = {}

def _delayed_extend(self, dst_list, kernel, dg, offset):
    # perturb the order in which workers deliver (children are forked: they inherit the table)
    if kernel:
        time.sleep(_delays.get(kernel[0].line_number, 0.0))
    return _orig_extend(self, dst_list, kernel, dg, offset)

KernelDG._extend_path = _delayed_extend

def lcds(klen, workers, threshold):
    k = parser.parse_file(kernel_text(klen)); sem.add_semantics(k)
    saved = (K.cpu_count, KernelDG.INSTRUCTION_THRESHOLD)
    K.cpu_count = lambda: workers
    KernelDG.INSTRUCTION_THRESHOLD = threshold
    try:
        dg = KernelDG(k, parser, mm, sem, timeout=-1)
        return {key: (v["latency"], [x.line_number for x, _ in v["dependencies"]]) for key, v in dg.get_loopcarried_dependencies().items()}, list(dg.get_loopcarried_dependencies())
    finally:
        K.cpu_count, KernelDG.INSTRUCTION_THRESHOLD = saved

sizes = (50, 51, 53, 61) if A.tier != "thorough" else range(50, 67)
for klen in sizes:
    seq, seq_order = lcds(klen, 1, 10**9)
    for workers, perturb in [(1, 0), (2, 1), (3, 1), (5, 1), (5, 2), (16, 1), (16, 2), (80, 1)]:
        rnd = random.Random(A.seed * 1000 + klen * 10 + perturb)
        _delays.clear()
        _delays.update({ln: (rnd.choice((0.0, 0.05, 0.15, 0.3)) if perturb else 0.0) for ln in range(1, klen + 1)})
        if perturb == 2:  # reversed delivery: the later the chunk the earlier it delivers
            _delays.update({ln: 0.4 * (1 - ln / klen) for ln in range(1, klen + 1)})
        par, par_order = lcds(klen, workers, 50)
        R.case(("real", klen, workers, perturb), sample=dict(klen=klen, workers=workers, lcds=len(par)))
        if par != seq:
            R.fail("C16/parallel-vs-sequential", "C16:parallel", f"klen={klen} workers={workers}: parallel search found {len(par)} LCDs, sequential {len(seq)}; missing {sorted(set(seq) - set(par))[:5]}", dict(klen=klen, workers=workers))
        elif par_order != seq_order:
            R.fail("C16/result-order", "C16:order", f"klen={klen} workers={workers}: order of the reported dependencies differs from the sequential search", dict(klen=klen, workers=workers))
# (2b) x86: operand-less instructions whose hidden operands carry a dependency on themselves ('cltq': rax -> rax) are roots
# like every other line - in the workers as in the sequential search
mm_x, parser_x = MachineModel(arch="zen2"), get_parser("x86")
sem_x = ArchSemantics(mm_x)


def lcds_x86(klen, workers, threshold):
    regs = ["%rbx", "%rcx", "%rdx", "%rsi", "%rdi", "%r8", "%r9", "%r10", "%r11", "%r12", "%r13", "%r14", "%r15"]
    lines = []
    for i in range(klen):
        lines.append("cltq" if i in (5, klen - 3) else ".L%d:" % i if i == 17 else "addq $1, %s" % regs[i % len(regs)])
    k = parser_x.parse_file("\n".join(lines) + "\n"); sem_x.add_semantics(k)
    saved = (K.cpu_count, KernelDG.INSTRUCTION_THRESHOLD)
    K.cpu_count = lambda: workers
    KernelDG.INSTRUCTION_THRESHOLD = threshold
    try:
        dg = KernelDG(k, parser_x, mm_x, sem_x, timeout=-1)
        return {key: (v["latency"], [x.line_number for x, _ in v["dependencies"]]) for key, v in dg.get_loopcarried_dependencies().items()}
    finally:
        K.cpu_count, KernelDG.INSTRUCTION_THRESHOLD = saved


_delays.clear()
for klen in (50, 57):
    seq = lcds_x86(klen, 1, 10**9)
    if not any(len(v[1]) >= 1 and set(v[1]) <= {6, klen - 2} for v in seq.values()):
        R.fail("C16/x86-kernel-not-discriminating", "C16:x86-kernel", f"klen={klen}: the sequential search reports no dependency through the cltq lines: {sorted(seq)[:6]}")
    for workers in (1, 3, 16):
        par = lcds_x86(klen, workers, 50)
        R.case(("real-x86", klen, workers), sample=dict(isa="x86", klen=klen, workers=workers, lcds=len(par)))
        if par != seq:
            R.fail("C16/parallel-vs-sequential", "C16:parallel", f"x86 klen={klen} workers={workers}: parallel search found {len(par)} LCDs, sequential {len(seq)}; missing {sorted(set(seq) - set(par))[:5]}", dict(klen=klen, workers=workers, isa="x86"))
# (3) the same command in fresh processes with different string-hash seeds: text report and --yaml-out identical apart from
# the timestamp (iteration orders of sets of strings differ between processes)
import subprocess, tempfile, re as _re
from common import REPO as _REPO
for isa_, arch_, code_ in (("x86", "zen2", "foobar %rax, %rbx\nvmovapd (%rax), %ymm0\naddq $1, %rax\nvfmadd231pd 8(%rax), %ymm1, %ymm2\n"),
                           ("aarch64", "a64fx", "frobnicate x3, x4\nldr q1, [x2, #16]!\nfmla v0.2d, v1.2d, v2.2d\nsubs x1, x1, #1\n")):
    with tempfile.NamedTemporaryFile("w", suffix=".s", delete=False) as f_:
        f_.write(code_)
    outs = []
    for seed in ("1", "2", "3"):
        y = f_.name + "." + seed + ".yml"
        r = subprocess.run([sys.executable, "-m", "osaca.osaca", "--arch", arch_, "--yaml-out", y, f_.name], capture_output=True, text=True,
                           env=dict(os.environ, PYTHONHASHSEED=seed), cwd=_REPO)
        txt = _re.sub(r"\d{4}-\d{2}-\d{2}[ T]\d{2}:\d{2}:\d{2}(\.\d+)?", "<time>", r.stdout)
        yml = _re.sub(r"\d{4}-\d{2}-\d{2}[ T]*\n?\s*\d{2}:\d{2}:\d{2}(\.\d+)?", "<time>", open(y).read()) if os.path.exists(y) else "missing: " + r.stderr[-200:]
        outs.append((txt, yml))
        if os.path.exists(y):
            os.unlink(y)
    os.unlink(f_.name)
    R.case(("hash-seeds", arch_), sample=dict(arch=arch_, seeds=3))
    if len({o[0] for o in outs}) != 1:
        R.fail("C16/repeated-runs/text", "C16:hashseed-text", f"{arch_}: the text report differs between fresh processes (PYTHONHASHSEED 1/2/3)")
    if len({o[1] for o in outs}) != 1:
        import difflib
        d_ = [l for l in difflib.unified_diff(outs[0][1].split("\n"), outs[1][1].split("\n"), lineterm="", n=0)][2:6]
        R.fail("C16/repeated-runs/yaml-out", "C16:hashseed-yaml", f"{arch_}: --yaml-out differs between fresh processes (PYTHONHASHSEED): {d_}")
R.done()
