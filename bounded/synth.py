"""operand synthesis shared by the C07 / C15 harnesses: a parsed operand of exactly the kind an entry operand declares"""
from osaca.parser.register import RegisterOperand
from osaca.parser.memory import MemoryOperand
from osaca.parser.immediate import ImmediateOperand
from osaca.parser.identifier import IdentifierOperand
from osaca.parser.condition import ConditionOperand
from osaca.parser.prefetch import PrefetchOperand

X86_SAMPLE = {"gpr": "rax", "xmm": "xmm1", "ymm": "ymm2", "zmm": "zmm3", "mm": "mm4", "k": "k1", "*": "rbx"}
NOT_CLASSES = {"mm0", "ximm", "have"}


def synth(o, isa):
    """parsed operand of exactly the kind the entry operand declares, or None if the pattern is not a kind"""
    if isinstance(o, RegisterOperand):
        if isa == "x86":
            if o.name in NOT_CLASSES or o.name is None:
                return None
            return RegisterOperand(name=X86_SAMPLE.get(o.name, o.name))
        if o.prefix in NOT_CLASSES:
            return None
        p = "x" if o.prefix == "*" else o.prefix
        shape = None if o.shape is None else ("d" if o.shape == "*" else o.shape)
        return RegisterOperand(prefix=p, name="3", shape=shape, lanes="2" if shape else None)
    if isinstance(o, MemoryOperand):
        def reg(c):
            if c is None:
                return None
            if isa == "x86":
                return RegisterOperand(name=X86_SAMPLE.get(c, "rax"))
            return RegisterOperand(prefix="x" if c == "*" else c, name="5")
        off = None if o.offset is None else (IdentifierOperand(name="sym") if o.offset == "id" else ImmediateOperand(value=16))
        idx = reg(o.index)
        scale = 1 if (o.scale in ("*", None) or idx is None) and o.scale in ("*", None, 1) else (o.scale if o.scale not in ("*", None) else 1)
        m = MemoryOperand(offset=off, base=reg(o.base), index=idx, scale=scale)
        if isa == "aarch64":
            m.pre_indexed = bool(o.pre_indexed) if o.pre_indexed != "*" else False
            m.post_indexed = ({"value": 16} if o.post_indexed else False) if o.post_indexed != "*" else False
        return m
    if isinstance(o, ImmediateOperand):
        t = "int" if o.imd_type in ("*", None) else o.imd_type
        return ImmediateOperand(imd_type=t, value=1 if t == "int" else {"mantissa": "1.0"})
    if isinstance(o, IdentifierOperand):
        return IdentifierOperand(name="lbl")
    if isinstance(o, ConditionOperand):
        return ConditionOperand(ccode="EQ" if o.ccode == "*" else str(o.ccode).upper())  # the parser upper-cases condition codes
    if isinstance(o, PrefetchOperand):
        return PrefetchOperand(type_id=["PLD"], target=["L1"], policy=["KEEP"])
    return None


