"""B stand-in for C01 (optimiser part) and C02: run-time contracts on the REAL ArchSemantics.assign_optimal_throughput
over synthetic port models.  usage: c01_optimal.py --tier T --seed S (c01|c02)

C02 family (exhaustive, the property's own): every ordered kernel of length <= 4 (<= 3 with 2-cycle forms) over all
single-micro-op forms on every non-empty subset of 3 ports = 5355 kernels, after one and after two passes.
C01 family: 3-port models with single- and multi-character port names; forms = single micro-op on every non-empty
port subset with 1 or 2 cycles, every pair of 1-cycle micro-ops (49 two-micro-op forms), one form with two
alternative assignments; all kernels of length <= 2 (quick) / + a seeded sample of 20000 kernels of length 3 (thorough);
{uniform, one pass, two passes as the CLI does}."""
import itertools, os, random, sys
from collections import defaultdict
from copy import deepcopy
from multiprocessing import Pool
sys.path.insert(0, os.path.dirname(os.path.abspath(__file__)))
from common import args, Report
from osaca.semantics import ArchSemantics, MachineModel
from osaca.parser import InstructionForm, get_parser

A = args()
MODE = (A.rest or ["c01"])[0]
EPS = 1e-9
PORTSETS = [["0", "1", "2"], ["0", "1", "2D"]]


def mk_sem(ports):
    mm = object.__new__(MachineModel)
    mm._data = {"ports": list(ports), "isa": "x86", "instruction_forms": [], "instruction_forms_dict": defaultdict(list),
                "arch_code": "SYN" + "".join(ports), "micro_architecture": "synthetic", "hidden_loads": False}  # the scalar keys every model file has
    sem = object.__new__(ArchSemantics)
    sem._machine_model, sem._isa, sem._parser = mm, "x86", get_parser("x86")
    return sem, mm


def subsets(ports):
    out = []
    for n in range(1, len(ports) + 1):
        out += [list(c) for c in itertools.combinations(ports, n)]
    return out


def as_ports(sub):
    """model files write single-character port sets as one string and multi-character ones as a list"""
    return "".join(sub) if all(len(p) == 1 for p in sub) else list(sub)


def mk_kernel(sem, mm, forms):
    k = []
    for i, uops in enumerate(forms):
        f = InstructionForm(mnemonic="op", line=f"op{i}", line_number=i + 1)
        f.port_uops = uops  # the model entry's list is shared by reference, as _handle_instruction_found does
        f.port_pressure = mm.average_port_pressure(uops)
        f.throughput = max(f.port_pressure) if max(f.port_pressure) > 0 else 1.0
        f.latency = 1.0
        k.append(f)
    return k


def confined(uops, S):
    return sum(c for c, ps in uops if set(ps) <= S)


def optimum(ports, kernel_uops):
    best = 0.0
    allu = [u for uops in kernel_uops for u in uops]
    for sub in subsets(ports):
        S = set(sub)
        best = max(best, confined(allu, S) / len(S))
    return best


def check_instr(ports, f, passes):
    """C01 feasibility contract for one instruction after `passes` balancing passes; returns list of (what, detail)"""
    uops = f.port_uops
    if isinstance(uops, dict):
        if passes:
            return [("alt-not-selected", "port_uops is still the dict of alternatives after balancing")]
        uops = uops[0]  # uniform scheduling costs the first alternative (average_port_pressure option 0)
    bad = []
    pp = f.port_pressure
    allowed = set(p for _, ps in uops for p in ps)
    tol = 0.01 * len(uops) * (1 if passes else 0) + EPS
    for j, p in enumerate(ports):
        if pp[j] < -EPS:  # "nothing is negative": no tolerance in the statement (the 0.01 granularity belongs to the port-set clause)
            bad.append(("negative", f"port {p}: {pp[j]}"))
        if p not in allowed and abs(pp[j]) > EPS:
            bad.append(("foreign-port", f"port {p} carries {pp[j]} but no micro-op may use it"))
    tot = sum(c for c, _ in uops)
    if abs(sum(pp) - tot) > (EPS if not passes else tol):
        bad.append(("sum", f"sum {sum(pp)} != total cycles {tot}"))
    for sub in subsets(ports):
        S = set(sub)
        have = sum(pp[ports.index(p)] for p in sub)
        need = confined(uops, S)
        if have < need - tol:
            bad.append(("hall", f"ports {sorted(S)} carry {have:.4f} < {need} cycles confined to them"))
    return bad


def overlapping_different(uops):
    sets = [set(ps) for _, ps in uops]
    return any(a != b and a & b for a, b in itertools.combinations(sets, 2))


def run_case(case):
    pi, forms, npass = case
    ports = PORTSETS[pi]
    sem, mm = mk_sem(ports)
    forms = deepcopy(forms)
    k = mk_kernel(sem, mm, forms)
    uni = ArchSemantics.get_throughput_sum(k)
    fails = []
    per_pass_ok = []
    try:
        for n in range(npass):
            sem.assign_optimal_throughput(k)
            per_pass_ok.append(all(not check_instr(ports, f, n + 1) for f in k))
    except Exception as e:
        return [("crash", "assign_optimal_throughput raised " + repr(e), False)], None, None, None
    # the micro-ops an instruction ends up with are its OWN (for forms with alternatives: one of its own alternatives)
    def norm(u):
        return [[c, "".join(ps) if all(len(p) == 1 for p in ps) else list(ps)] for c, ps in u]

    for f, orig in zip(k, forms):
        got = f.port_uops
        own = list(orig.values()) if isinstance(orig, dict) else [orig]
        if npass and not isinstance(got, dict) and norm(got) not in [norm(o) for o in own]:
            fails.append(("foreign-uops", f"{f.line}: micro-ops after balancing {got} are none of the instruction's own {own}", False))
    for f in k:
        for what, detail in check_instr(ports, f, npass):
            # known class: the SECOND pass on an instruction whose micro-ops have overlapping but different port sets,
            # feasible after the first pass
            known = (what in ("hall",) and npass == 2 and per_pass_ok[0] and not isinstance(f.port_uops, dict) and overlapping_different(f.port_uops))
            fails.append((what, f"{f.line} uops={f.port_uops} pressure={[round(x, 4) for x in f.port_pressure]}: {detail}", known))
    tot = ArchSemantics.get_throughput_sum(k)
    cols = [round(sum(f.port_pressure[j] for f in k if f.throughput != 0.0), 2) for j in range(len(ports))]
    if tot != cols:
        fails.append(("totals", f"get_throughput_sum {tot} != column sums {cols}", False))
    sel = [f.port_uops if not isinstance(f.port_uops, dict) else f.port_uops[0] for f in k]
    return fails, uni, tot, sel


def forms_c01(ports):
    subs = subsets(ports)
    single = [[[c, as_ports(s)]] for s in subs for c in (1, 2)]
    double = [[[1, as_ports(a)], [1, as_ports(b)]] for a in subs for b in subs]
    alt = [{0: [[1, as_ports(subs[0])]], 1: [[1, as_ports(subs[1])]]}, {0: [[1, as_ports(subs[0])], [1, as_ports(subs[3])]], 1: [[2, as_ports(subs[2])]]}]
    return single + double, alt


def main():
    cases = []
    if MODE == "c02":
        R = Report("every ordered kernel of length <= 4 (<= 3 with 2-cycle forms) over single-micro-op forms on every non-empty subset of 3 ports; after 1 and 2 passes; distinct = distinct (kernel, passes)", exhaustive=True)
        ports = PORTSETS[0]
        f1 = [[[1, as_ports(s)]] for s in subsets(ports)]
        f2 = f1 + [[[2, as_ports(s)]] for s in subsets(ports)]
        kernels = set()
        for n in range(1, 5):
            for k in itertools.product(range(len(f1)), repeat=n):
                kernels.add(tuple(k))
        for n in range(1, 4):
            for k in itertools.product(range(len(f2)), repeat=n):
                kernels.add(tuple(k))
        kernels = sorted(kernels)
        for k in kernels:
            for npass in (1, 2):
                cases.append((0, [f2[i] for i in k], npass))
        # forms with two micro-ops (outside the statement's 0.15-cy family): never worse than uniform, never below the exact optimum
        _forms, _ = forms_c01(ports)
        doubles = [f for f in _forms if len(f) == 2]
        for dbl in doubles:
            for rest in [[]] + [[x] for x in f1]:
                for npass in (1, 2):
                    cases.append((0, [dbl] + rest, npass))
        # forms with alternative port assignments (the balancer explores them depth-first): alone, first and last in
        # kernels of length <= 3 - the bottleneck must not exceed the uniform one (first alternative, uniform split)
        _, alt = forms_c01(ports)
        alt = alt + [{0: [[1, as_ports(subsets(ports)[0])]], 1: [[2, as_ports(subsets(ports)[1])]], 2: [[1, as_ports(subsets(ports)[-1])]]}]
        # alternatives whose port sets overlap but differ (the adopted alternative's ports are the ones later passes may use)
        alt = alt + [{0: [[c, as_ports(ports[:2])]], 1: [[c, as_ports(ports[1:])]]} for c in (1, 2)]
        for a in alt:
            for rest in [[]] + [[x] for x in f2] + [[x, y] for x in f1 for y in f1]:
                for k in ([a] + rest, rest + [a]) if rest else ([a],):
                    for npass in (1, 2):
                        cases.append((0, k, npass))
    else:
        R = Report("3-port synthetic models (single-char and multi-char port names); forms: 1 micro-op on every port subset x {1,2} cycles, every pair of 1-cycle micro-ops, 2 forms with alternative assignments; all kernels of length <= 2 (thorough: + seeded sample of length 3); x {uniform, 1 pass, 2 passes}; distinct = distinct (model, kernel, passes)", exhaustive=(A.tier != "thorough"))
        rnd = random.Random(A.seed)
        for pi, ports in enumerate(PORTSETS):
            forms, alt = forms_c01(ports)
            allf = forms + alt
            ks = [[a] for a in allf] + [[a, b] for a in forms for b in forms] + [[a, b] for a in alt for b in forms] + [[b, a] for a in alt for b in forms]
            if A.tier == "thorough":
                ks += [[rnd.choice(allf) for _ in range(3)] for _ in range(10000)]
            for k in ks:
                for npass in (0, 1, 2):
                    cases.append((pi, k, npass))
    with Pool(min(16, os.cpu_count() or 4)) as pool:
        results = pool.map(run_case, cases, chunksize=64)
    known_seen = 0
    for case, (fails, uni, tot, sel) in zip(cases, results):
        pi, forms, npass = case
        ports = PORTSETS[pi]
        desc = dict(ports=ports, kernel=forms, passes=npass)
        nontrivial = any(len(u) > 1 or len(u[0][1]) > 1 for u in forms if not isinstance(u, dict)) or any(isinstance(u, dict) for u in forms)
        R.case((pi, repr(forms), npass), nontrivial=nontrivial, sample=dict(desc, totals=tot))
        for what, detail, known in fails:
            if MODE == "c02" and (any(isinstance(u, dict) for u in forms) or any(len(u) > 1 for u in forms)):
                continue  # per-instruction feasibility of forms with alternatives is C01's subject (its check runs them)
            if known:
                known_seen += 1
                if known_seen == 1:
                    R.fail("C01/optimal/second-pass-infeasible", "optimal:second-pass:overlapping-uops", detail, desc)
                continue
            R.fail(f"{MODE.upper()}/optimal/{what}", f"optimal:{what}:passes={npass}", detail, desc)
        has_alt = any(isinstance(u, dict) for u in forms)
        if MODE == "c02" and tot is not None and has_alt:
            # forms with alternatives are outside the statement's 0.15-cy family; only "never worse than uniform" is claimed
            if max(tot) > max(uni) + EPS:
                R.fail("C02/optimal/worse-than-uniform", "c02:worse", f"bottleneck {max(tot)} after {npass} pass(es) > uniform {max(uni)} for kernel {forms}", desc)
            # ... and "never undercuts the exact optimum": for a kernel with alternatives that is the best optimum over the choices
            choices = [list(u.values()) if isinstance(u, dict) else [u] for u in forms]
            opt = min(optimum(ports, list(c)) for c in itertools.product(*choices))
            if max(tot) < opt - 0.01 * sum(max(len(x) for x in ch) for ch in choices) - 0.005 - EPS:
                known_c01 = npass == 2 and any(overlapping_different(x) for ch in choices for x in ch if len(x) > 1)
                R.fail("C02/optimal/undercuts-optimum", "optimal:second-pass:overlapping-uops" if known_c01 else "c02:undercut",
                       f"bottleneck {max(tot)} < exact optimum {opt:.4f} over the alternative assignments for kernel {forms} (passes={npass})", desc)
        elif MODE == "c02" and tot is not None and any(len(u) > 1 for u in forms):
            opt = optimum(ports, sel)
            if max(tot) > max(uni) + EPS:
                R.fail("C02/optimal/worse-than-uniform", "c02:worse", f"bottleneck {max(tot)} after {npass} pass(es) > uniform {max(uni)} for kernel {forms}", desc)
            if max(tot) < opt - 0.01 * sum(len(u) for u in forms) - 0.005 - EPS:
                # the recorded C01 defect (second pass, overlapping but different port sets of one instruction) seen through C02
                known_c01 = npass == 2 and any(overlapping_different(u) for u in forms if len(u) > 1)
                R.fail("C02/optimal/undercuts-optimum", "optimal:second-pass:overlapping-uops" if known_c01 else "c02:undercut", f"bottleneck {max(tot)} < exact optimum {opt:.4f} for kernel {forms} (passes={npass})", desc)
        elif MODE == "c02" and tot is not None:
            opt = optimum(ports, sel)
            if max(tot) > max(uni) + EPS:
                R.fail("C02/optimal/worse-than-uniform", "c02:worse", f"bottleneck {max(tot)} after {npass} pass(es) > uniform {max(uni)} for kernel {forms}", desc)
            if npass == 2 and abs(max(tot) - opt) > 0.15 + EPS:  # the reported figure: the CLI balances twice
                R.fail("C02/optimal/far-from-optimum", "c02:far", f"bottleneck {max(tot)} vs exact optimum {opt:.4f} (passes={npass}) for kernel {forms}", desc)
            if max(tot) < opt - 0.01 * len(forms) - 0.005 - EPS:
                R.fail("C02/optimal/undercuts-optimum", "c02:undercut", f"bottleneck {max(tot)} < exact optimum {opt:.4f} for kernel {forms}", desc)
    R.r["known_class_hits"] = known_seen
    R.done()


main()
