"""B stand-in shared by C03/C04/C05/C06/C14: the real pipeline (parser -> ArchSemantics.add_semantics -> KernelDG)
is run on generated kernels and every result is compared with the independent reference of bounded/oracle.py.
usage: dg_oracle.py --tier T --seed S <C03|C04|C05|C06|C14>

Family: per ISA a fixed vocabulary of concrete instructions (register, flag, memory, write-back forms, aliasing
widths); ALL kernels of length <= 3 over it (exhaustive) + seeded random kernels of length 4..7; models: quick
zen2 + a64fx, thorough: + ivb, hsw, zen1, tx2, n1; with and without flag dependencies.  C06 adds the store/load
family described in c06_kernels().  Kernels start at line 1 and (C05) additionally at line 1500."""
import itertools, os, random, sys
from multiprocessing import Pool
sys.path.insert(0, os.path.dirname(os.path.abspath(__file__)))
from common import args, isolate_models, Report
import oracle as O

A = args()
MODE = (A.rest or ["C03"])[0]
MODELS = {"x86": ["zen2"], "aarch64": ["a64fx", "n1"]}
if A.tier == "thorough":
    MODELS = {"x86": ["zen2", "ivb", "hsw", "zen1"], "aarch64": ["a64fx", "tx2", "n1"]}
# kernels in which one instruction depends on another in TWO ways with different weights (loaded value + written-back base):
# the shared edge must carry the larger weight.  a72 is analysed for these only (its loads carry their whole latency on the edge).
MULTI = {"aarch64": [["ldr x3, [x1, #8]!", "add x4, x3, x1"], ["ldr d0, [x1], #8", "str d0, [x1, #16]"], ["ldr x3, [x2], #8", "add x1, x2, x3"],
                     ["ldr x3, [x1, #8]!", "add x4, x1, x3", "add x5, x4, x3"], ["ldr q0, [x1], #16", "str q0, [x1, #-16]"]],
         "x86": []}
MULTI_MODELS = {"aarch64": ["a72", "a64fx", "n1", "tx2"], "x86": []}
isolate_models(sorted({m for v in MODELS.values() for m in v} | {m for v in MULTI_MODELS.values() for m in v}))

from osaca.parser import get_parser
from osaca.semantics import MachineModel, ArchSemantics, KernelDG

VOCAB = {
    "x86": [
        "addq %rax, %rbx", "addq $8, %rax", "movq %rbx, %rcx", "imulq %rcx, %rax", "addl %ebx, %ecx", "movb %al, %bl",
        "vaddpd %xmm0, %xmm1, %xmm2", "vfmadd231pd %ymm2, %ymm1, %ymm0", "vmulpd (%rax), %xmm2, %xmm1",
        "movq %rcx, 8(%rbx)", "movq 16(%rax), %rcx", "cmpq %rax, %rbx", "xorl %ecx, %ecx", "incq %rbx",
        "leaq 8(%rax,%rbx,4), %rcx", "jne .L1", "vxorpd %xmm1, %xmm1, %xmm1", "movq %rbp, %rax", "addl $1, %ebp",
    ],
    "aarch64": [
        "add x1, x2, x3", "add x2, x2, #8", "mov x3, x1", "add w1, w2, w3", "fadd d0, d1, d2", "fmla v0.2d, v1.2d, v2.2d",
        "ldr x1, [x2, #8]", "ldr x3, [x2], #8", "ldr d1, [x2, #16]!", "str x1, [x3, #8]", "str d0, [x2], #8",
        "subs x1, x1, #1", "cmp x1, x3", "b.ne .L1", "fadd s1, s0, s2", "ldp d1, d2, [x3]", "fmul v1.2d, v0.2d, v2.2d", "ldr q0, [x2], #16",
    ],
}


# curated instructions with architecturally known register roles (families read / written); flags not listed
ROLES = {
    "x86": [
        ("addq %rax, %rbx", "A B", "B"), ("addq $8, %rax", "A", "A"), ("movq %rbx, %rcx", "B", "C"), ("imulq %rcx, %rax", "C A", "A"),
        ("addl %ebx, %ecx", "B C", "C"), ("movb %al, %bl", "A", "B"), ("subq %rdx, %rsi", "D SI", "SI"),
        ("vaddpd %xmm0, %xmm1, %xmm2", "V0 V1", "V2"), ("vfmadd231pd %ymm2, %ymm1, %ymm0", "V2 V1 V0", "V0"),
        ("vfmadd132pd %ymm3, %ymm4, %ymm5", "V3 V4 V5", "V5"), ("vmulpd (%rax), %xmm2, %xmm1", "A V2", "V1"),
        ("movq %rcx, 8(%rbx)", "C B", ""), ("movq 16(%rax), %rcx", "A", "C"), ("cmpq %rax, %rbx", "A B", ""), ("xorl %ecx, %ecx", "", "C"),
        ("incq %rbx", "B", "B"), ("decl %edi", "DI", "DI"), ("leaq 8(%rax,%rbx,4), %rcx", "A B", "C"), ("vxorpd %xmm1, %xmm1, %xmm1", "", "V1"),
        ("vxorpd %ymm1, %ymm1, %ymm2", "V1?", "V2"), ("vxorpd %ymm1, %ymm3, %ymm2", "V1 V3", "V2"), ("movq %rbp, %rax", "BP", "A"),
        ("addl $1, %ebp", "BP", "BP"), ("vmovapd %ymm0, (%rax)", "V0 A", ""), ("vmovapd (%rax,%rbx,8), %ymm1", "A B", "V1"),
        ("vmovsd %xmm3, 8(%rsp,%r9,8)", "V3 SP R9", ""), ("addq %r10, %r11", "R10 R11", "R11"), ("vsubpd %zmm17, %zmm18, %zmm19", "V17 V18", "V19"),
        ("movl %r8d, %r9d", "R8", "R9"), ("pxor %xmm4, %xmm4", "", "V4"),
        # read-modify-write ALU forms with immediate / memory source (Intel SDM: destination = destination OP source)
        ("xorq $1, %rax", "A", "A"), ("xorl $1, %eax", "A", "A"), ("xorq (%rcx), %rax", "C A", "A"), ("xorq %rbx, %rax", "B A", "A"),
        ("andq $-8, %rbx", "B", "B"), ("orq $1, %rax", "A", "A"), ("subq $8, %rsi", "SI", "SI"), ("andl (%rax), %ecx", "A C", "C"),
        ("orq (%rbx), %rdx", "B D", "D"), ("addq (%rbx), %rdx", "B D", "D"), ("subq (%rbx), %rdx", "B D", "D"),
        ("shlq $2, %rdx", "D", "D"), ("shrq $3, %rax", "A", "A"), ("notq %rbx", "B", "B"),
        ("adcq %rax, %rbx", "A B", "B"), ("sbbq %rax, %rbx", "A B", "B"), ("imulq $3, %rax, %rbx", "A", "B"), ("andq %rcx, %rdx", "C D", "D"),
        ("orl %ecx, %edx", "C D", "D"), ("testq %rax, %rbx", "A B", ""), ("cmpq $1, %rax", "A", ""),
        # operand-less instructions: only hidden operands
        ("cltq", "A", "A"), ("cqto", "A", "D"), ("cltd", "A", "D"), ("cwtl", "A", "A"),
    ],
    "aarch64": [
        ("add x1, x2, x3", "g2 g3", "g1"), ("add x2, x2, #8", "g2", "g2"), ("mov x3, x1", "g1", "g3"), ("add w1, w2, w3", "g2 g3", "g1"),
        ("fadd d0, d1, d2", "v1 v2", "v0"), ("fmla v0.2d, v1.2d, v2.2d", "v0 v1 v2", "v0"), ("ldr x1, [x2, #8]", "g2", "g1"),
        ("ldr x3, [x2], #8", "g2", "g3 g2"), ("ldr d1, [x2, #16]!", "g2", "v1 g2"), ("str x1, [x3, #8]", "g1 g3", ""),
        ("str d0, [x2], #8", "v0 g2", "g2"), ("subs x1, x1, #1", "g1", "g1"), ("cmp x1, x3", "g1 g3", ""), ("ldp d1, d2, [x3]", "g3", "v1 v2"),
        ("stp x1, x2, [x3, #16]", "g1 g2 g3", ""), ("fmul v1.2d, v0.2d, v2.2d", "v0 v2", "v1"), ("ldr q0, [x1, x2, lsl #4]", "g1 g2", "v0"),
        ("fadd s1, s0, s2", "v0 v2", "v1"), ("madd x0, x1, x2, x3", "g1 g2 g3", "g0"), ("fmadd d0, d1, d2, d3", "v1 v2 v3", "v0"),
        ("sub sp, sp, #16", "gsp", "gsp"), ("str x19, [sp, #8]", "g19 gsp", ""), ("ldr x20, [sp], #16", "gsp", "g20 gsp"),
        ("eor v3.16b, v3.16b, v3.16b", "v3?", "v3"), ("fmov d1, d2", "v2", "v1"), ("lsl x4, x5, #2", "g5", "g4"),
        # further ALU forms (only forms that have an ISA database entry: for others the default rule IS the specified behaviour)
        ("ldr x3, [x1], #8", "g1", "g3 g1"), ("and x1, x2, #255", "g2", "g1"), ("orr x1, x2, x3", "g2 g3", "g1"),
        ("eor x1, x2, x3", "g2 g3", "g1"), ("lsr x4, x5, #2", "g5", "g4"), ("mul x0, x1, x2", "g1 g2", "g0"), ("neg x1, x2", "g2", "g1"),
        ("tst x1, x4", "g1 g4", ""), ("tst w1, w4", "g1 g4", ""), ("tst x1, #255", "g1", ""), ("sub x1, x2, x3", "g2 g3", "g1"), ("fsub d0, d1, d2", "v1 v2", "v0"), ("fdiv d0, d1, d2", "v1 v2", "v0"), ("adds x1, x2, #1", "g2", "g1"),
    ],
}


def role_key(tok, isa):
    if isa == "x86":
        return ("r", tok)
    cls = {"g": "gpr", "v": "vec", "p": "pred"}[tok[0]]
    return ("r", cls, tok[1:])


# condition flags of a few x86 instructions (Intel SDM): (flags read, flags written); checked in addition to the registers
ARITH = "OF SF ZF AF PF CF"
FLAGROLES = {
    "addq %rax, %rbx": ("", ARITH), "addq $8, %rax": ("", ARITH), "addl %ebx, %ecx": ("", ARITH), "addl $1, %ebp": ("", ARITH), "subq %rdx, %rsi": ("", ARITH),
    "cmpq %rax, %rbx": ("", ARITH), "incq %rbx": ("", "OF SF ZF AF PF"), "decl %edi": ("", "OF SF ZF AF PF"),
    "movq %rbx, %rcx": ("", ""), "leaq 8(%rax,%rbx,4), %rcx": ("", ""), "vaddpd %xmm0, %xmm1, %xmm2": ("", ""),
    # add / subtract with carry read the carry flag (Intel SDM: DEST := DEST + SRC + CF) and set all arithmetic flags
    "adcq %rax, %rbx": ("CF", ARITH), "adcq $0, %r8": ("CF", ARITH), "sbbq %rax, %rbx": ("CF", ARITH),
}


# AArch64 (Arm ARM): the flag-setting forms write N, Z, C, V and read none of them; add / subtract with carry read C
NZCV = "N Z C V"
FLAGROLES_A64 = {
    "tst x1, x4": ("", NZCV), "tst w4, w5": ("", NZCV), "tst x1, #255": ("", NZCV), "cmp x1, x3": ("", NZCV), "subs x1, x1, #1": ("", NZCV),
    "adds x1, x2, #1": ("", NZCV), "add x1, x2, x3": ("", ""), "adcs x1, x2, x3": ("C", NZCV), "sbcs x1, x2, x3": ("C", NZCV),
}


def check_roles(isa, arch):
    fails = []
    for line, (frd, fwr) in (FLAGROLES if isa == "x86" else FLAGROLES_A64).items():
        desc = dict(isa=isa, arch=arch, kernel=[line])
        try:
            mm, kernel, dg = analyse(isa, arch, [line], True)
        except Exception as e:
            fails.append(("roles-crash", f"{line!r}: {e!r}", desc))
            continue
        got_r = {x[1] for x in O.reads(kernel[0], isa) if x[0] == "f"}
        got_w = {x[1] for x in O.writes(kernel[0], isa) if x[0] == "f"}
        if got_r != set(frd.split()) or got_w != set(fwr.split()):
            fails.append(("roles-flags", f"{line!r} on {arch}: flags read {sorted(got_r)} / written {sorted(got_w)}, architecturally {sorted(frd.split())} / {sorted(fwr.split())}", desc))
    for line, rd, wr in ROLES[isa]:
        desc = dict(isa=isa, arch=arch, kernel=[line])
        try:
            mm, kernel, dg = analyse(isa, arch, [line], False)
        except Exception as e:
            fails.append(("roles-crash", f"{line!r}: {e!r}", desc))
            continue
        k = kernel[0]
        must_r = {role_key(t, isa) for t in rd.split() if not t.endswith("?")}
        may_r = must_r | {role_key(t[:-1], isa) for t in rd.split() if t.endswith("?")}
        want_w = {role_key(t, isa) for t in wr.split()}
        got_r = {x for x in O.reads(k, isa) if x[0] == "r"}
        got_w = {x for x in O.writes(k, isa) if x[0] == "r"}
        if not (must_r <= got_r <= may_r):
            fails.append(("roles-read", f"{line!r} on {arch}: registers read {sorted(got_r)}, architecturally {sorted(must_r)}", desc))
        if got_w != want_w:
            fails.append(("roles-written", f"{line!r} on {arch}: registers written {sorted(got_w)}, architecturally {sorted(want_w)}", desc))
    return fails


def c06_kernels(isa):
    """store, then pointer-bump instructions, then load: every addressing shape x displacement pair x bumps"""
    out = []
    if isa == "x86":
        shapes = [("(%rax)", "(%rax)", 0), ("8(%rax)", "{d}(%rax)", 8), ("8(%rax,%rbx,4)", "{d}(%rax,%rbx,4)", 8), ("(%rax,%rbx,8)", "{d}(%rax,%rbx,8)", 0)]
        bumps = [[], ["addq $8, %rax"], ["subq $8, %rax"], ["incq %rax"], ["decq %rax"], ["addq $2, %rbx"], ["incq %rbx"], ["movq %rax, %rdx"],
                 ["addq $8, %rax", "subq $8, %rax"], ["addq $16, %rax", "movq %rax, %rdx"], ["movq %rcx, %rax"], ["addq $8, %rcx"]]
        for st, ld, d0 in shapes:
            for bump in bumps:
                for delta in (-16, -8, -2, -1, 0, 1, 2, 8, 16, 32):
                    d = d0 + delta
                    for ldbase in ("rax", "rdx"):
                        load = ld.format(d=d) if "{d}" in ld else ld
                        load = load.replace("(%rax", "(%" + ldbase)
                        out.append([f"movq %rsi, {st}"] + bump + [f"movq {load}, %rdi"])
                        out.append([f"movq %rsi, {st}"] + bump + [f"movq %r8, {st}", f"movq {load}, %rdi"])
    else:
        shapes = [("[x1]", "[x1, #{d}]", 0), ("[x1, #8]", "[x1, #{d}]", 8), ("[x1, x2]", "[x1, x2]", None), ("[x1, x2, lsl #3]", "[x1, x2, lsl #3]", None)]
        bumps = [[], ["add x1, x1, #8"], ["sub x1, x1, #8"], ["add x2, x2, #1"], ["mov x4, x1"], ["add x4, x1, #8"], ["add x1, x1, #16", "sub x1, x1, #16"],
                 ["ldr x5, [x1], #8"], ["ldr x5, [x1, #8]!"], ["mov x1, x6"], ["add x6, x6, #8"]]
        for st, ld, d0 in shapes:
            for bump in bumps:
                for delta in ((-16, -8, 0, 8, 16) if d0 is not None else (0,)):
                    for ldbase in ("x1", "x4"):
                        load = ld.format(d=(d0 + delta)) if d0 is not None else ld
                        load = load.replace("[x1", "[" + ldbase)
                        out.append([f"str x7, {st}"] + bump + [f"ldr x8, {load}"])
                        out.append([f"str x7, {st}"] + bump + [f"str x9, {st}", f"ldr x8, {load}"])
        # the store's own write-back, seen through a copy (so that the register dependency on the base does not mask it)
        for st, eff in (("[x1], #8", 8), ("[x1, #8]!", 0), ("[x1], #-16", -16)):
            for cp, extra in (("mov x4, x1", 0), ("add x4, x1, #8", 8), ("sub x4, x1, #8", -8)):
                for d in (-16, -8, 0, 8, 16):
                    out.append([f"str x7, {st}", cp, f"ldr x8, [x4, #{d}]"])
                    out.append([f"stp x7, x9, {st.replace('#8', '#16').replace('#-16', '#-32')}", cp, f"ldr x8, [x4, #{d}]"])
        # bump, copy, bump of the copy, then loads through the original and through the copy
        for d in (-16, -8, 0, 8, 16, 24):
            out.append(["str x7, [x1, #16]", "add x1, x1, #8", "add x4, x1, #8", f"ldr x8, [x1, #{d}]", f"ldr x10, [x4, #{d}]"])
            out.append(["str x7, [x1, #16]", "add x1, x1, #8", "mov x4, x1", "add x4, x4, #8", f"ldr x8, [x1, #{d}]", f"ldr x10, [x4, #{d}]"])
        # pointer chasing (the load overwrites its own base), chains of copies, writes to a narrower view, constant bumps
        # after a pre-/post-indexed store, push/pop
        for d in (-8, 0, 8, 16):
            out.append(["str x7, [x1, #8]", f"ldr x1, [x1, #{d}]"])
            out.append(["str x7, [x1, #8]", "mov x4, x1", "mov x5, x4", f"ldr x8, [x5, #{d}]"])
            out.append(["str x7, [x1, #8]", "add x4, x1, #8", "mov x5, x4", "sub x6, x5, #8", f"ldr x8, [x6, #{d}]"])
            out.append(["str x7, [x1, #8]", "add w1, w1, #8", f"ldr x8, [x1, #{d}]"])
            out.append(["str x7, [x1], #8", "add x1, x1, #8", f"ldr x8, [x1, #{d - 16}]"])
            out.append(["str x7, [x1, #8]!", "add x1, x1, #8", f"ldr x8, [x1, #{d - 8}]"])
            out.append(["str x7, [x1, #8]!", "sub x1, x1, #8", f"ldr x8, [x1, #{d}]"])
        # register + register is not a constant change (only register + immediate is)
        for op in ("add", "adds", "sub", "subs"):
            out.append(["str x7, [x2]", f"{op} x1, x2, x3", "ldr x8, [x1]"])
            out.append(["str x7, [x2, #8]", f"{op} x1, x2, #8", "ldr x8, [x1]", "ldr x9, [x1, #16]"])
        # a register that was changed in an unknown way and is then freshly copied / derived from the store's base is known again
        for d in (-8, 0, 8):
            out.append(["str x7, [x1, #8]", "mul x4, x5, x6", "mov x4, x1", f"ldr x8, [x4, #{d + 8}]"])
            out.append(["str x7, [x1, #8]", "ldr x4, [x9]", "add x4, x1, #8", f"ldr x8, [x4, #{d}]"])
            out.append(["str x7, [x1, #8]", "mul x1, x5, x6", f"ldr x8, [x1, #{d + 8}]"])  # the base itself is lost: no dependency
        # write-back by a register (not a constant): the base is unknown afterwards, nothing may crash
        out += [["str q1, [x1]", "ld1 {v0.4s}, [x1], x2", "ldr q3, [x1]"], ["str q1, [x1]", "ld1 {v0.4s}, [x1], x2"]]
        out += [["str x7, [sp, #-16]!", "ldr x8, [sp], #16"], ["stp x7, x9, [sp, #-16]!", "add x2, x2, #1", "ldp x8, x10, [sp], #16"]]
        out += [["str x7, [x1, #8]", "ldr x8, [x1, #8]", "ldr x9, [x1, #8]", "ldr x10, [x1, #8]"], ["str x7, [x1], #8", "ldr x8, [x1, #-8]"], ["str x7, [x1, #8]!", "ldr x8, [x1]"], ["str x7, [x1], #8", "ldr x8, [x1]"]]
    # writes through ANOTHER VIEW of a register (ecx for rcx, w4 for x4) in combination with copies: a fresh full copy makes the
    # copy known again; a source that was overwritten through another view before it is copied is not the store's base any more;
    # a copy taken before the origin is overwritten stays valid; a constant bump does not repair an unknown value
    if isa == "x86":
        st, ld = "movq %rsi, (%rbx)", "movq (%rcx), %rdx"
        out += [[st, "movl $0, %ecx", "movq %rbx, %rcx", ld], [st, "movl $0, %ebx", "movq %rbx, %rcx", ld], [st, "movq %rbx, %rcx", "movl $0, %ebx", ld],
                [st, "movq %rbx, %rcx", "movl $0, %ecx", ld], [st, "movl $0, %ebx", "addq $8, %rbx", "movq 8(%rbx), %rdx", "movq (%rbx), %rdi"],
                [st, "movl $0, %ecx", "movq %rbx, %rcx", "addq $8, %rcx", "movq -8(%rcx), %rdx"], [st, "movl $0, %ebx", "movq %rbx, %rcx", "movq %rcx, %rdx", "movq (%rdx), %rdi"],
                [st, "movw $0, %cx", "movq %rbx, %rcx", ld], [st, "movl $0, %ecx", "movq %rbx, %rcx", "movl $0, %ecx", ld]]
    else:
        st, ld = "str x1, [x2]", "ldr x3, [x4]"
        out += [[st, "mov w4, #0", "mov x4, x2", ld], [st, "mov w2, #0", "mov x4, x2", ld], [st, "mov x4, x2", "mov w2, #0", ld], [st, "mov x4, x2", "mov w4, #0", ld],
                [st, "mov w2, #0", "add x2, x2, #8", "ldr x3, [x2, #-8]", "ldr x5, [x2]"], [st, "mov w4, #0", "add x4, x2, #8", "ldr x3, [x4, #-8]"],
                [st, "mov w2, #0", "mov x4, x2", "mov x5, x4", "ldr x3, [x5]"], [st, "mov w4, #0", "mov x4, x2", "mov w4, #0", ld]]
    if isa == "x86":
        for d in (-8, 0, 8):
            out.append(["movq %rsi, 8(%rax)", "imulq %rcx, %rdx", "movq %rax, %rdx", f"movq {d + 8}(%rdx), %rdi"])
            out.append(["movq %rsi, 8(%rax)", "movq (%r9), %rdx", "movq %rax, %rdx", "addq $8, %rdx", f"movq {d}(%rdx), %rdi"])
            out.append(["movq %rsi, 8(%rax)", "imulq %rcx, %rax", f"movq {d + 8}(%rax), %rdi"])
        for d in (-16, -8, 0, 8, 16, 24):
            out.append(["movq %rsi, 8(%rax)", "addq $8, %rax", "movq %rax, %rdx", "addq $8, %rdx", f"movq {d}(%rax), %rcx", f"movq {d}(%rdx), %rdi"])
            # read-modify-write stores: the memory operand is not the first destination (flags come first)
            for rmw in ("addq $1, 8(%rax)", "subq %rsi, 8(%rax)", "incq 8(%rax)", "addq $1, 8(%rax,%rbx,8)", "incq 8(%rax,%rbx,8)"):
                idx = ",%rbx,8" if "rbx" in rmw else ""
                for bump in ([], ["addq $8, %rax"], ["incq %rbx"], ["movq %rax, %rdx"]):
                    base = "rdx" if bump == ["movq %rax, %rdx"] else "rax"
                    out.append([rmw] + bump + [f"movq {d}(%{base}{idx}), %rdi"])
        # a read-modify-write instruction as the LATER store to the same operand: it ends the search like a plain store
        for rmw in ("addq $1, 8(%rax)", "incq 8(%rax)", "subq %rsi, 8(%rax)"):
            out.append(["movq %rsi, 8(%rax)", rmw, "movq 8(%rax), %rdi"])
            out.append(["movq %rsi, 8(%rax)", "addq %rcx, %rdx", rmw, "movq 8(%rax), %rdi", "movq 16(%rax), %r9"])
        out.append(["movq %rsi, 8(%rax,%rbx,8)", "incq 8(%rax,%rbx,8)", "movq 8(%rax,%rbx,8), %rdi"])
        out += [["movq %rsi, (%rbx)", "sbbq %rcx, %rbx", "movq (%rbx), %rdi"], ["movq %rsi, (%rbx)", "subq %rcx, %rbx", "movq (%rbx), %rdi"], ["movq %rsi, (%rbx)", "addq %rcx, %rbx", "movq (%rbx), %rdi"]]
        for d in (-8, 0, 8, 16):
            out.append(["movq %rsi, 8(%rax)", f"movq {d}(%rax), %rax"])
            out.append(["movq %rsi, 8(%rax,%rbx,8)", f"movq {d}(%rax,%rbx,8), %rbx"])
            out.append(["movq %rsi, 8(%rax)", "movq %rax, %rcx", "movq %rcx, %rdx", f"movq {d}(%rdx), %rdi"])
            out.append(["movq %rsi, 8(%rax)", "movq %rax, %rcx", "addq $8, %rcx", "movq %rcx, %rdx", f"movq {d}(%rdx), %rdi"])
            out.append(["movq %rsi, 8(%rax)", "addl $8, %eax", f"movq {d}(%rax), %rdi"])
            out.append(["movq %rsi, 8(%rax)", "movl %ecx, %eax", f"movq {d}(%rax), %rdi"])
        out += [["movq %rsi, 8(%rax)", "movq 8(%rax), %rdi", "movq 8(%rax), %r8", "movq 8(%rax), %r9"],
                ["movq %rsi, (%rax)", "addq $8, %rax", "movq -8(%rax), %rdi", "movq -8(%rax), %r8"]]
    return out


def gen_kernels(isa):
    v = VOCAB[isa]
    ks = []
    if MODE == "C06":
        return c06_kernels(isa)
    core = v[:12] if A.tier != "thorough" else v
    for n in (1, 2, 3):
        if n == 3 and A.tier != "thorough":
            sub = v[:9]
            ks += [list(k) for k in itertools.product(sub, repeat=3)]
        else:
            ks += [list(k) for k in itertools.product(v if n < 3 else core, repeat=n)]
    rnd = random.Random(A.seed * 7919 + (0 if isa == "x86" else 1))
    for _ in range(400 if A.tier != "thorough" else 4000):
        ks.append([rnd.choice(v) for _ in range(rnd.randint(4, 7))])
    return ks


_cache = {}


def analyse(isa, arch, lines, flag_deps, first_line=1):
    if arch not in _cache:
        mm = MachineModel(arch=arch)
        if MODE in ("C06", "C03", "C14"):
            # model variant: most shipped models have forwarding latency 0 / default write-back latency, which would hide
            # wrong edge weights; the harness analyses with its in-memory copy set to distinctive values
            mm._data["store_to_load_forward_latency"] = 3.0
            mm._data["p_index_latency"] = 2.0
        _cache[arch] = (mm, ArchSemantics(mm), get_parser(isa))
    mm, sem, parser = _cache[arch]
    kernel = parser.parse_file("\n".join(lines) + "\n", start_line=first_line - 1)
    sem.add_semantics(kernel)
    dg = KernelDG(kernel, parser, mm, sem, timeout=-1, flag_dependencies=flag_deps)
    return mm, kernel, dg


def check_case(case):
    isa, arch, lines, flag_deps, first_line = case
    fails = []
    desc = dict(isa=isa, arch=arch, kernel=lines, flag_deps=flag_deps, first_line=first_line)
    try:
        mm, kernel, dg = analyse(isa, arch, lines, flag_deps, first_line)
    except Exception as e:
        import traceback
        return [("crash", f"analysis raised {e!r} {traceback.format_exc()[-300:]}", desc)], 0
    ln = [k.line_number for k in kernel]
    ref = O.ref_edges(kernel, isa, mm, flag_deps)
    nontrivial = len(ref)
    if MODE in ("C03", "C06"):
        got = {}
        for a, b, dat in dg.dg.edges(data=True):
            if int(a) != a:
                continue
            got[(ln.index(a), ln.index(b))] = dat["latency"]
        want_pairs = set(ref)
        for (i, j) in sorted(want_pairs - set(got)):
            fails.append(("missing-edge", f"no edge {kernel[i].line!r} (line {ln[i]}) -> {kernel[j].line!r} (line {ln[j]}) but the consumer reads what the producer writes", desc))
        for (i, j) in sorted(set(got) - want_pairs):
            fails.append(("spurious-edge", f"edge {kernel[i].line!r} (line {ln[i]}) -> {kernel[j].line!r} (line {ln[j]}) without a read-after-write (or not provably the same location)", desc))
        for (i, j) in sorted(want_pairs & set(got)):
            if i >= j:
                fails.append(("backward-edge", f"edge {ln[i]} -> {ln[j]}", desc))
            # several dependencies between the same two instructions share one edge: the consumer waits for the slowest (C04: the
            # critical path is never smaller than the accumulated latency of any dependency chain)
            if abs(got[(i, j)] - max(ref[(i, j)])) > 1e-9:
                fails.append(("edge-weight", f"edge {kernel[i].line!r} -> {kernel[j].line!r} carries {got[(i, j)]}, expected {max(ref[(i, j)])} (dependencies between them: {sorted(ref[(i, j)])})", desc))
        for i, k in enumerate(kernel):
            ls = O.load_stage(k)
            has = dg.dg.has_node(k.line_number + 0.1)
            if (ls is not None) != has:
                fails.append(("load-node", f"{k.line!r}: separate load node present={has}, expected={ls is not None}", desc))
            elif has and abs(dg.dg.edges[k.line_number + 0.1, k.line_number]["latency"] - ls) > 1e-9:
                fails.append(("load-node-weight", f"{k.line!r}: load edge {dg.dg.edges[k.line_number + 0.1, k.line_number]['latency']} != {ls}", desc))
    if MODE == "C04":
        want, totals = O.ref_critical_path(kernel, ref)
        try:
            cp = dg.get_critical_path()
            got = sum(x.latency_cp for x in cp)
            if abs(got - want) > 1e-9:
                fails.append(("cp-value", f"critical path reported {got}, longest chain is {want}", desc))
            idx = [ln.index(x.line_number) for x in cp]
            for a, b in zip(idx, idx[1:]):
                if (a, b) not in ref:
                    fails.append(("cp-chain", f"marked lines {ln[a]} and {ln[b]} are consecutive on the critical path but not linked by a dependency", desc))
        except Exception as e:
            fails.append(("cp-crash", f"get_critical_path raised {e!r}", desc))
    if MODE in ("C05", "C14"):
        want = O.ref_lcds(kernel, isa, mm, flag_deps)
        lcd = dg.get_loopcarried_dependencies()
        got = {}
        for key, d in lcd.items():
            got[tuple(sorted((x.line_number, lat) for x, lat in d["dependencies"]))] = d["latency"]
            if abs(sum(lat for _, lat in d["dependencies"]) - d["latency"]) > 1e-9:
                fails.append(("lcd-latency", f"LCD {key}: latency {d['latency']} != sum along the cycle", desc))
        if MODE == "C05":
            for k_ in sorted(set(want) - set(got)):
                fails.append(("lcd-missing", f"cross-iteration cycle {k_} (latency {want[k_]}) not reported", desc))
            for k_ in sorted(set(got) - set(want)):
                fails.append(("lcd-spurious", f"reported LCD {k_} is not a cycle of the two-iteration dependency relation", desc))
            for k_ in set(got) & set(want):
                if abs(got[k_] - want[k_]) > 1e-9:
                    fails.append(("lcd-latency", f"LCD {k_}: latency {got[k_]} != {want[k_]}", desc))
            if len(got) != len(lcd):
                fails.append(("lcd-duplicate", "a cycle is reported more than once", desc))
        nontrivial = len(want)
        if MODE == "C14":
            base = {tuple(sorted((kernel[ln.index(l)].line.strip(), w) for l, w in k_)): v for k_, v in got.items()}
            for r in range(1, len(lines)):
                rot = lines[r:] + lines[:r]
                try:
                    _, k2, dg2 = analyse(isa, arch, rot, flag_deps, first_line)
                    l2 = dg2.get_loopcarried_dependencies()
                    g2 = {tuple(sorted((x.line.strip(), lat) for x, lat in d["dependencies"])): d["latency"] for d in l2.values()}
                except Exception as e:
                    fails.append(("rotation-crash", f"rotation by {r}: {e!r}", desc))
                    continue
                if g2 != base:
                    fails.append(("rotation", f"rotation by {r} changes the LCD set: {sorted(set(base) ^ set(g2))[:3]}", dict(desc, rotation=r)))
    return fails, nontrivial


def main():
    R = Report(f"mode {MODE}: all kernels of length <= 3 over the per-ISA vocabulary + seeded random kernels of length 4-7 (C06: store/bump/load family); models {MODELS}; with/without flag dependencies; distinct = distinct (model, kernel, flags) with at least one reference dependency", exhaustive=False)
    cases = []
    for isa, archs in MODELS.items():
        ks = gen_kernels(isa)
        for arch in archs:
            for k in ks:
                for fd in ((False, True) if MODE in ("C03", "C05") else (False,)):
                    cases.append((isa, arch, k, fd, 1))
            if MODE == "C05":
                for k in ks[:200]:
                    cases.append((isa, arch, k, False, 1500))
                # line numbers with gaps (blank lines inside the kernel, --lines 1-3,6-9): members are found by their number
                for k in [k for k in ks if len(k) >= 2][100:260]:
                    cases.append((isa, arch, [x for l in k for x in (l, "", "")][:-2], False, 7))
    if MODE in ("C03", "C04"):
        for isa, archs in MULTI_MODELS.items():
            for arch in archs:
                cases += [(isa, arch, k, False, 1) for k in MULTI[isa]]
    if MODE == "C14":
        cases = [c for c in cases if len(c[2]) >= 2]
        if A.tier != "thorough":
            cases = cases[::4]
        # cycles through memory: store (also read-modify-write, whose memory operand is not its first destination),
        # pointer bump, load of the stored location; every rotation must report the same cycles
        memk = {"x86": [["addq $8, %rbx", "addq %rdx, 8(%rbx)", "movq 8(%rbx), %rdx", "cmpq %rsi, %rbx"], ["incq 8(%rbx,%rcx,8)", "movq 8(%rbx,%rcx,8), %rdx", "incq %rcx"],
                        ["addq %rdx, 8(%rbx)", "addq $8, %rbx", "movq (%rbx), %rdx"], ["incq 16(%rbx,%rcx,8)", "incq %rcx", "movq 8(%rbx,%rcx,8), %rdx", "addq %rdx, %rsi"],
                        ["movq %rdx, 8(%rbx)", "addq $8, %rbx", "movq (%rbx), %rdx"], ["subq %rdx, (%rax)", "vaddpd %xmm0, %xmm1, %xmm2", "addq $16, %rax", "movq -16(%rax), %rdx"],
                        ["movq %rdx, 8(%rbx)", "movq %rbx, %rcx", "addq $8, %rcx", "movq (%rcx), %rdx"]],
                "aarch64": [["add x2, x2, #8", "str x1, [x2, #8]", "ldr x1, [x2, #8]", "cmp x2, x3"], ["str x1, [x2], #8", "ldr x1, [x2, #-8]"], ["str x1, [x2, #16]", "add x2, x2, #8", "ldr x1, [x2, #8]"], ["str x1, [x2, #8]!", "ldr x1, [x2]"],
                            ["str x1, [x2], #8", "mov x4, x2", "ldr x1, [x4, #-8]", "add x5, x5, #1"], ["str x1, [x2, #8]", "add x4, x2, #8", "ldr x1, [x4]"]]}
        for isa, archs in MODELS.items():
            for arch in archs:
                cases += [(isa, arch, k, False, 1) for k in memk[isa]]
    # group by arch so that each worker loads few models
    cases.sort(key=lambda c: c[1])
    for isa in MODELS:  # load every model once before forking (workers inherit it; avoids the
        for arch in sorted({c[1] for c in cases if c[0] == isa}):  # concurrent cold-start cache race, which is C17's business)
            analyse(isa, arch, [VOCAB[isa][0]], False)
    with Pool(min(16, os.cpu_count() or 4)) as pool:
        results = pool.map(check_case, cases, chunksize=max(1, len(cases) // 64))
    for case, (fails, nontrivial) in zip(cases, results):
        R.case((case[1], tuple(case[2]), case[3], case[4]), nontrivial=nontrivial > 0, sample=dict(arch=case[1], kernel=case[2], flag_deps=case[3], ref_deps=nontrivial))
        for what, detail, desc in fails:
            R.fail(f"{MODE}/oracle/{what}", f"{MODE}:{what}:{case[0]}", detail, desc)
    if MODE == "C03":
        for isa, archs in MODELS.items():
            for arch in archs:
                for what, detail, desc in check_roles(isa, arch):
                    R.fail(f"C03/roles/{what}", f"C03:{what}:{desc['kernel'][0]}", detail, desc)
                for line, _, _ in ROLES[isa]:
                    R.case(("roles", arch, line), sample=dict(arch=arch, curated=line))
    R.done()


main()
