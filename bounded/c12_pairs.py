"""B stand-in / floor for C12: the contract 'dependent <=> same architectural family' evaluated on the real
functions for ALL ordered pairs of architectural register names in lower, upper and capitalised spelling (exhaustive)."""
import os, sys
sys.path.insert(0, os.path.dirname(os.path.abspath(__file__)))
from common import args, Report
from contracts import spec_regs as S
from osaca.parser import ParserX86ATT, ParserAArch64
from osaca.parser.register import RegisterOperand as R

A = args()
Rp = Report("all ordered pairs of architectural register names x {lower, UPPER, Capitalised}; distinct = distinct ordered family pairs", exhaustive=True)
px, pa = ParserX86ATT(), ParserAArch64()
spell = lambda n: [n, n.upper(), n.capitalize()]
names = [s for n in S.X86_NAMES for s in dict.fromkeys(spell(n))]
regs = [(n, R(name=n), S.x86_family(n)) for n in names]
bad = {}
for a, ra, fa in regs:
    for b, rb, fb in regs:
        try:
            got = bool(px.is_reg_dependend_of(ra, rb))
        except Exception as e:
            got = repr(e)
        Rp.case(("x86", fa, fb), sample=dict(isa="x86", a=a, b=b, dependent=got))
        if got != (fa == fb):
            bad.setdefault(("x86", fa, fb), (a, b, got))
regs = []
for p in S.A64_PREFIXES:
    for n in S.A64_NUMBERS:
        for pp in (p, p.upper()):
            regs.append(((pp, n), R(prefix=pp, name=n), S.a64_family(pp, n)))
regs.append((("x", "sp"), R(prefix="x", name="sp"), S.a64_family("x", "sp")))
for a, ra, fa in regs:
    for b, rb, fb in regs:
        try:
            got = bool(pa.is_reg_dependend_of(ra, rb))
        except Exception as e:
            got = repr(e)
        Rp.case(("a64", fa[0], fb[0], fa[1] == fb[1]), sample=dict(isa="aarch64", a=a, b=b, dependent=got))
        if got != (fa == fb):
            bad.setdefault(("a64", fa[0], fb[0]), (a, b, got))
for k, (a, b, got) in bad.items():
    isa = k[0]
    Rp.fail(f"C12/pairs/{isa}", f"{'x86' if isa == 'x86' else 'a64'}:{k[1]}/{k[2]}", f"is_reg_dependend_of({a},{b}) = {got}, architectural overlap = {k[1] == k[2] if isa == 'x86' else None}",
            dict(replay="c12_x86" if isa == "x86" else "c12_a64", args=dict(a=a, b=b)))
Rp.done()
