"""B stand-in / floor for C12: the contract 'dependent <=> same architectural family' evaluated on the real
functions for ALL ordered pairs of architectural register names in lower, upper and capitalised spelling (exhaustive)."""
import os, sys
sys.path.insert(0, os.path.dirname(os.path.abspath(__file__)))
from common import args, Report
from contracts import spec_regs as S
from osaca.parser import ParserX86ATT, ParserAArch64
from osaca.parser.register import RegisterOperand as R

A = args()
Rp = Report("all ordered pairs of architectural register names x {lower, UPPER, Capitalised}; distinct = distinct ordered family pairs", exhaustive=True)
px, pa = ParserX86ATT(), ParserAArch64()
spell = lambda n: [n, n.upper(), n.capitalize()]
names = [s for n in S.X86_NAMES for s in dict.fromkeys(spell(n))]
regs = [(n, R(name=n), S.x86_family(n)) for n in names]
bad = {}
for a, ra, fa in regs:
    for b, rb, fb in regs:
        try:
            got = bool(px.is_reg_dependend_of(ra, rb))
        except Exception as e:
            got = repr(e)
        Rp.case(("x86", fa, fb), sample=dict(isa="x86", a=a, b=b, dependent=got))
        if got != (fa == fb):
            bad.setdefault(("x86", fa, fb), (a, b, got))
regs = []
for p in S.A64_PREFIXES:
    for n in S.A64_NUMBERS:
        for pp in (p, p.upper()):
            regs.append(((pp, n), R(prefix=pp, name=n), S.a64_family(pp, n)))
for nm in ("sp", "SP"):  # the stack pointer alias, in either spelling (memory bases keep the spelling of the source)
    regs.append((("x", nm), R(prefix="x", name=nm), S.a64_family("x", "sp")))
for a, ra, fa in regs:
    for b, rb, fb in regs:
        try:
            got = bool(pa.is_reg_dependend_of(ra, rb))
        except Exception as e:
            got = repr(e)
        Rp.case(("a64", fa[0], fb[0], fa[1] == fb[1]), sample=dict(isa="aarch64", a=a, b=b, dependent=got))
        if got != (fa == fb):
            bad.setdefault(("a64", fa[0], fb[0]), (a, b, got))
# ---- the answer is a function of the two operands' VALUES, not of the objects or of what was asked before: a seeded sample of
# pairs is asked again with freshly created (and immediately released) operand objects, in another order
import random, gc
rnd = random.Random(A.seed + 12)
for isa_, parser_, mk, table, famf in (("x86", px, lambda a: R(name=a), names, lambda a: S.x86_family(a)),
                                        ("a64", pa, lambda a: R(prefix=a[0], name=a[1]), [r[0] for r in regs], lambda a: S.a64_family(a[0], a[1]))):
    sample = [(rnd.choice(table), rnd.choice(table)) for _ in range(3000)]
    sample += [(a, a) for a in rnd.sample(table, min(200, len(table)))]
    for a, b in sample:
        try:
            got = bool(parser_.is_reg_dependend_of(mk(a), mk(b)))  # temporaries: released right after the call
        except Exception as e:
            got = repr(e)
        fa, fb = famf(a), famf(b)
        Rp.case((isa_, "fresh", fa if isa_ == "x86" else fa[0], fb if isa_ == "x86" else fb[0], fa == fb), nontrivial=False)
        if got != (fa == fb):
            Rp.fail(f"C12/pairs/{isa_}-fresh-objects", f"{isa_}:fresh-objects", f"is_reg_dependend_of({a},{b}) = {got} when asked again with fresh operand objects, architectural overlap = {fa == fb}",
                    dict(replay="c12_x86" if isa_ == "x86" else "c12_a64", args=dict(a=a, b=b)))
    gc.collect()
for k, (a, b, got) in bad.items():
    isa = k[0]
    Rp.fail(f"C12/pairs/{isa}", f"{'x86' if isa == 'x86' else 'a64'}:{k[1]}/{k[2]}", f"is_reg_dependend_of({a},{b}) = {got}, architectural overlap = {k[1] == k[2] if isa == 'x86' else None}",
            dict(replay="c12_x86" if isa == "x86" else "c12_a64", args=dict(a=a, b=b)))
Rp.done()
