"""further native replays (registered into replay.native.REPLAYS)"""
from fractions import Fraction
import sys
native = sys.modules.get("__main__")
replay = native.replay

@replay
def c20_validate(m, mode):
    import osaca.db_interface as dbi
    mf = float(Fraction(m))
    got = dbi._validate_measurement(mf, mode)
    v = Fraction(m)
    want = None
    if mode == "tp":
        for n in range(1, 11):
            if Fraction(95, 100) / n <= v <= Fraction(105, 100) / n:
                want = float(round(Fraction(1, n), 5))
    elif mode == "lt":
        k = round(v)
        if abs(v - k) <= Fraction(5, 100) * k:
            want = float(k)
    return got != want, f"_validate_measurement({mf!r},{mode!r}) = {got!r}, documented snapping = {want!r}"

@replay
def c20_decode(code, isa):
    import osaca.db_interface as dbi
    sys.path.insert(0, "/verif/bounded")
    got = dbi._create_db_operand(code, isa)
    want = _ref_operand(code, isa)
    return got != want, f"_create_db_operand({code!r},{isa!r}) = {got!r}, documented decoding = {want!r}"

def _ref_operand(code, isa):
    if code == "i":
        return {"class": "immediate", "imd": "int"}
    if isa == "x86":
        if code == "r":
            return {"class": "register", "name": "gpr"}
        if code in ("x", "y", "z"):
            return {"class": "register", "name": code + "mm"}
    else:
        if code in tuple("wxbhsdq"):
            return {"class": "register", "prefix": code}
        if code[0] == "v":
            return {"class": "register", "prefix": "v", "shape": code[1:] or "d"}
    d = {"class": "memory", "base": ("gpr" if isa == "x86" else "x") if "b" in code[1:] else None,
         "offset": "imd" if "o" in code[1:] else None, "index": "gpr" if "i" in code[1:] else None,
         "scale": 8 if "s" in code[1:] else 1}
    if isa == "aarch64":
        d["pre_indexed"] = "r" in code[1:]
        d["post_indexed"] = "p" in code[1:]
    return d


@replay
def c01_avg(ports, uops, as_dict):
    from osaca.semantics.hw_model import MachineModel
    mm = object.__new__(MachineModel)
    mm._data = {"ports": list(ports)}
    uo = [[float(Fraction(c)), (ps if isinstance(ps, str) else list(ps))] for c, ps in uops]
    want = [0.0] * len(ports)
    missing = [p for _, ps in uo for p in ps if p not in ports]
    for c, ps in uo:
        for p in ps:
            if p in ports:
                want[ports.index(p)] += c / len(ps)
    try:
        got = mm.average_port_pressure({0: uo} if as_dict else uo)
    except KeyError as e:
        return (not missing), f"KeyError {e} with ports={ports} uops={uo}"
    if missing:
        return True, f"no KeyError although {missing} not in {ports}"
    bad = any(abs(a - b) > 1e-9 for a, b in zip(got, want)) or len(got) != len(want)
    return bad, f"average_port_pressure(ports={ports}, uops={uo}) = {got}, uniform split = {want}"


@replay
def c01_tpsum(pp, tp):
    from osaca.semantics import ArchSemantics
    from osaca.parser import InstructionForm
    k = []
    for row, t in zip(pp, tp):
        f = InstructionForm(mnemonic="x"); f.port_pressure = [float(Fraction(x)) for x in row]; f.throughput = float(Fraction(t)); k.append(f)
    got = ArchSemantics.get_throughput_sum(k)
    rows = [[Fraction(x) for x in row] for row, t in zip(pp, tp) if Fraction(t) != 0]
    want = [float(round(sum(col), 2)) for col in zip(*rows)]
    bad = len(got) != len(want) or any(abs(a - b) > 0.0051 for a, b in zip(got, want))
    return bad, f"get_throughput_sum = {got}, column sums over lines with throughput = {want}"


def _bare_semantics(isa, ports, forms=None, extra=None):
    """real ArchSemantics/MachineModel objects around a synthetic model dict (no YAML, no cache)"""
    from collections import defaultdict
    from osaca.semantics import ArchSemantics, MachineModel
    from osaca.parser import get_parser
    mm = object.__new__(MachineModel)
    d = defaultdict(list)
    for f in forms or []:
        d[f.mnemonic.upper()].append(f)
    mm._data = {"ports": list(ports), "isa": isa, "instruction_forms": list(forms or []), "instruction_forms_dict": d,
                "load_throughput": [], "load_throughput_default": [], "store_throughput": [], "store_throughput_default": [],
                "load_latency": {}, "hidden_loads": False}
    mm._data.update(extra or {})
    im = object.__new__(MachineModel)
    im._data = {"isa": isa, "instruction_forms": [], "instruction_forms_dict": defaultdict(list)}
    sem = object.__new__(ArchSemantics)
    sem._machine_model, sem._isa, sem._isa_model, sem._parser = mm, isa, im, get_parser(isa)
    return sem, mm


@replay
def c01_trivial(isa, case, nports, mnemonic):
    from osaca.parser import InstructionForm
    from osaca.parser.register import RegisterOperand
    from osaca.parser.memory import MemoryOperand
    sem, mm = _bare_semantics(isa, [str(i) for i in range(nports)])
    reg = RegisterOperand(name="rax") if isa == "x86" else RegisterOperand(prefix="x", name="1")
    mem = MemoryOperand(base=reg)
    ops = [reg, mem] if case in ("unknown+ld", "unknown+st") else [reg]
    f = InstructionForm(mnemonic=None if case == "nomnemonic" else mnemonic, operands=ops)
    f.flags = {"unknown+ld": ["performs_load"], "unknown+st": ["performs_store"]}.get(case, [])
    f.semantic_operands = {"source": [mem] if case == "unknown+ld" else [], "destination": [mem] if case == "unknown+st" else [], "src_dst": []}
    sem.assign_tp_lt(f)
    ok = (f.port_pressure == [0.0] * nports and f.throughput == 0.0 and f.latency == 0.0 and f.latency_wo_load == 0.0 and f.port_uops == []
          and (("tp_unknown" in f.flags and "lt_unknown" in f.flags) == (case != "nomnemonic")))
    return (not ok), f"assign_tp_lt({case}, {isa}, {nports} ports, mnemonic={mnemonic!r}): pressure={f.port_pressure} tp={f.throughput} lat={f.latency} flags={f.flags}"


@replay
def c06_memload(prefix, store, load, changes):
    from osaca.semantics.kernel_dg import KernelDG
    from osaca.parser import InstructionForm
    from osaca.parser.register import RegisterOperand as R
    from osaca.parser.memory import MemoryOperand as M
    from osaca.parser.immediate import ImmediateOperand as Imm
    reg = lambda n: R(name=n, prefix=prefix) if n is not None else None
    mem = M(offset=Imm(value=store["offset"]) if store["offset"] is not None else None, base=reg(store["base"]), index=reg(store["index"]), scale=store["scale"])
    lo = load["offset"]
    src = M(offset=None if lo is None else Imm(value=None if lo == "IMMNONE" else lo), base=reg(load["base"]), index=reg(load["index"]), scale=load["scale"], pre_indexed=load["pre"])
    ch = {k: (None if v is None else {"name": v[0], "value": v[1]}) for k, v in changes.items()}
    f = InstructionForm(mnemonic="ld")
    f.semantic_operands = {"source": [reg("c"), src], "destination": [reg("c")], "src_dst": []}
    got = bool(KernelDG.is_memload(object.__new__(KernelDG), mem, f, ch))
    pf = prefix or ""
    def tracked(n):
        return ch.get(pf + n, {"name": pf + n, "value": 0})
    want = (store["base"] is None) == (load["base"] is None) and (store["index"] is None) == (load["index"] is None)
    delta = (lo if isinstance(lo, int) and not load["pre"] else 0) - (store["offset"] or 0)
    if want and load["base"] is not None:
        t = tracked(load["base"])
        want = t is not None and t["name"] == pf + store["base"]
        delta += t["value"] if t else 0
    if want and load["index"] is not None:
        t = tracked(load["index"])
        want = t is not None and t["name"] == pf + store["index"] and store["scale"] == load["scale"]
        delta += (t["value"] if t else 0) * load["scale"]
    want = bool(want and delta == 0)
    return got != want, f"is_memload(store={store}, load={load}, changes={changes}, prefix={prefix!r}) = {got}, same location = {want}"


@replay
def c04_cp(lat, lwl, loads, edges, twice=False):
    import networkx as nx
    from osaca.semantics.kernel_dg import KernelDG
    from osaca.parser import InstructionForm
    n = len(lat)
    lat = [float(Fraction(x)) for x in lat]; lwl = [float(Fraction(x)) for x in lwl]
    kernel = []
    for i in range(n):
        f = InstructionForm(mnemonic="op", line_number=i + 1); f.latency = lat[i]; f.latency_wo_load = lwl[i]; f.latency_cp = 0
        kernel.append(f)
    dg = nx.DiGraph()
    for i in range(n):
        dg.add_node(i + 1)
        if loads[i]:
            dg.add_edge(i + 1 + 0.1, i + 1, latency=lat[i] - lwl[i])
    ew = {}
    for a, b, w in edges:
        dg.add_edge(a + 1, b + 1, latency=float(Fraction(w))); ew[(a, b)] = float(Fraction(w))
    k = object.__new__(KernelDG); k.kernel = kernel; k.dg = dg
    if twice:
        k.get_critical_path()
    cp = k.get_critical_path()
    got = sum(x.latency_cp for x in cp)
    best = [0.0] * n
    for j in range(n):
        c = [lat[j] - lwl[j] if loads[j] else 0.0] + [best[a] + w for (a, b), w in ew.items() if b == j]
        best[j] = max(c)
    want = max(best[i] + lwl[i] for i in range(n))
    return abs(got - want) > 1e-9, f"get_critical_path total {got} (lines {[x.line_number for x in cp]}), longest chain {want}; lat={lat} lwl={lwl} loads={loads} edges={edges}"


@replay
def c05_offset(lines):
    import networkx as nx
    from osaca.semantics.kernel_dg import KernelDG
    from osaca.parser import InstructionForm
    kernel = []
    for i, l in enumerate(lines):
        f = InstructionForm(mnemonic="op", line_number=l, line=f"op{i}"); f.latency = 1.0; f.latency_wo_load = 1.0; f.flags = []
        f.semantic_operands = {"source": [], "destination": [], "src_dst": []}
        kernel.append(f)
    k = object.__new__(KernelDG); k.kernel = kernel; k.model = None; k.arch_sem = None; k.parser = None; k.timed_out = False
    seen = {}
    def create_DG(kern, flag_dependencies=False):
        seen["ids"] = [x.line_number for x in kern]
        g = nx.DiGraph(); [g.add_node(x.line_number) for x in kern]
        return g
    k.create_DG = create_DG
    try:
        k.check_for_loopcarried_dep(kernel, -1, False)
    except Exception as e:
        return True, f"check_for_loopcarried_dep raised {e!r} for lines {lines}"
    ids = seen["ids"]; n = len(lines); off = ids[n] - lines[0]
    bad = not (all(ids[i] < off <= ids[n + i] for i in range(n)) and len(set(ids)) == 2 * n)
    return bad, f"doubled kernel ids {ids} for lines {lines} (offset {off})"


from replay.probe import partition_probe  # noqa


@replay
def c16_partition(klen, n):
    klen = max(klen, 50)
    secs = partition_probe(klen, n)
    flat = [i for s in secs for i in s]
    bad = flat != list(range(klen)) or len(secs) != n
    return bad, f"klen={klen}, workers={n}: roots handed to workers {[(s[0], s[-1]) if s else () for s in secs]} ({len(flat)} of {klen} roots, {len(secs)} sections)"


# ------------------------------------------------------------------ raw native results for the engine-vs-CPython differential check
raw = native.raw

@raw
def d_c12_x86(a, b):
    from osaca.parser import ParserX86ATT
    from osaca.parser.register import RegisterOperand as R
    return bool(ParserX86ATT().is_reg_dependend_of(R(name=a), R(name=b)))

@raw
def d_c12_a64(a, b):
    from osaca.parser import ParserAArch64
    from osaca.parser.register import RegisterOperand as R
    return bool(ParserAArch64().is_reg_dependend_of(R(prefix=a[0], name=a[1]), R(prefix=b[0], name=b[1])))

@raw
def d_c20_validate(m, mode):
    import osaca.db_interface as dbi
    return dbi._validate_measurement(float(Fraction(m)), mode)

@raw
def d_c20_decode(code, isa):
    import osaca.db_interface as dbi
    return dbi._create_db_operand(code, isa)

@raw
def d_c06_memload(prefix, store, load, changes):
    from osaca.semantics.kernel_dg import KernelDG
    from osaca.parser import InstructionForm
    from osaca.parser.register import RegisterOperand as R
    from osaca.parser.memory import MemoryOperand as M
    from osaca.parser.immediate import ImmediateOperand as Imm
    reg = lambda n: R(name=n, prefix=prefix) if n is not None else None
    mem = M(offset=Imm(value=store["offset"]) if store["offset"] is not None else None, base=reg(store["base"]), index=reg(store["index"]), scale=store["scale"])
    lo = load["offset"]
    src = M(offset=None if lo is None else Imm(value=None if lo == "IMMNONE" else lo), base=reg(load["base"]), index=reg(load["index"]), scale=load["scale"], pre_indexed=load["pre"])
    ch = {k: (None if v is None else {"name": v[0], "value": v[1]}) for k, v in changes.items()}
    f = InstructionForm(mnemonic="ld")
    f.semantic_operands = {"source": [reg("c"), src], "destination": [reg("c")], "src_dst": []}
    return bool(KernelDG.is_memload(object.__new__(KernelDG), mem, f, ch))

@raw
def d_c01_avg(ports, uops, as_dict):
    from osaca.semantics.hw_model import MachineModel
    mm = object.__new__(MachineModel)
    mm._data = {"ports": list(ports)}
    uo = [[float(Fraction(c)), list(ps)] for c, ps in uops]
    return mm.average_port_pressure({0: uo} if as_dict else uo)
