"""further native replays (registered into replay.native.REPLAYS)"""
from fractions import Fraction
import sys
native = sys.modules.get("__main__")
replay = native.replay

@replay
def c20_validate(m, mode):
    import osaca.db_interface as dbi
    mf = float(Fraction(m))
    got = dbi._validate_measurement(mf, mode)
    v = Fraction(m)
    want = None
    if mode == "tp":
        for n in range(1, 11):
            if Fraction(95, 100) / n <= v <= Fraction(105, 100) / n:
                want = float(round(Fraction(1, n), 5))
    elif mode == "lt":
        k = round(v)
        if abs(v - k) <= Fraction(5, 100) * k:
            want = float(k)
    return got != want, f"_validate_measurement({mf!r},{mode!r}) = {got!r}, documented snapping = {want!r}"

@replay
def c20_decode(code, isa):
    import osaca.db_interface as dbi
    sys.path.insert(0, "/verif/bounded")
    got = dbi._create_db_operand(code, isa)
    want = _ref_operand(code, isa)
    return got != want, f"_create_db_operand({code!r},{isa!r}) = {got!r}, documented decoding = {want!r}"

def _ref_operand(code, isa):
    if code == "i":
        return {"class": "immediate", "imd": "int"}
    if isa == "x86":
        if code == "r":
            return {"class": "register", "name": "gpr"}
        if code in ("x", "y", "z"):
            return {"class": "register", "name": code + "mm"}
    else:
        if code in tuple("wxbhsdq"):
            return {"class": "register", "prefix": code}
        if code[0] == "v":
            return {"class": "register", "prefix": "v", "shape": code[1:] or "d"}
    d = {"class": "memory", "base": ("gpr" if isa == "x86" else "x") if "b" in code[1:] else None,
         "offset": "imd" if "o" in code[1:] else None, "index": "gpr" if "i" in code[1:] else None,
         "scale": 8 if "s" in code[1:] else 1}
    if isa == "aarch64":
        d["pre_indexed"] = "r" in code[1:]
        d["post_indexed"] = "p" in code[1:]
    return d


@replay
def c01_avg(ports, uops, as_dict):
    from osaca.semantics.hw_model import MachineModel
    mm = object.__new__(MachineModel)
    mm._data = {"ports": list(ports)}
    uo = [[float(Fraction(c)), list(ps)] for c, ps in uops]
    want = [0.0] * len(ports)
    missing = [p for _, ps in uo for p in ps if p not in ports]
    for c, ps in uo:
        for p in ps:
            if p in ports:
                want[ports.index(p)] += c / len(ps)
    try:
        got = mm.average_port_pressure({0: uo} if as_dict else uo)
    except KeyError as e:
        return (not missing), f"KeyError {e} with ports={ports} uops={uo}"
    if missing:
        return True, f"no KeyError although {missing} not in {ports}"
    bad = any(abs(a - b) > 1e-9 for a, b in zip(got, want)) or len(got) != len(want)
    return bad, f"average_port_pressure(ports={ports}, uops={uo}) = {got}, uniform split = {want}"
