"""partition probe: the REAL check_for_loopcarried_dep with multiprocessing replaced by synchronous stubs (used by the
C16 replay and the C16 bounded harness)"""


def partition_probe(klen, n):
    """run the REAL check_for_loopcarried_dep with multiprocessing replaced by synchronous stubs; returns the list of
    index lists handed to the workers"""
    import osaca.semantics.kernel_dg as K
    from osaca.parser import InstructionForm
    kernel = []
    for i in range(klen):
        f = InstructionForm(mnemonic="op", line_number=i + 1, line=f"op{i}")
        f.latency = 1.0; f.latency_wo_load = 1.0; f.flags = []
        f.semantic_operands = {"source": [], "destination": [], "src_dst": []}
        kernel.append(f)
    sections = []

    class P:
        def __init__(self, target=None, args=()):
            sections.append([x.line_number - 1 for x in args[1]])
            self.pid = 0
        def start(self): pass
        def join(self): pass
        def is_alive(self): return False

    class M:
        def __enter__(self): return self
        def __exit__(self, *a): return False
        def list(self): return []

    saved = (K.Process, K.Manager, K.cpu_count)
    K.Process, K.Manager, K.cpu_count = P, M, (lambda: n)
    try:
        k = object.__new__(K.KernelDG)
        k.kernel = kernel; k.model = None; k.arch_sem = None; k.parser = None; k.timed_out = False
        k.check_for_loopcarried_dep(kernel, -1, False)
    finally:
        K.Process, K.Manager, K.cpu_count = saved
    return sections


