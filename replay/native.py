#!/venv/bin/python
"""Native replay of counterexamples against the real /repo code.  argv[1] = JSON {replay, args}.
Prints one JSON line {"violates": bool, "detail": str}."""
import json, os, sys
sys.path.insert(0, os.path.dirname(os.path.dirname(os.path.abspath(__file__))))

REPLAYS = {}
def replay(f):
    REPLAYS[f.__name__] = f
    return f

@replay
def c12_x86(a, b):
    from osaca.parser import ParserX86ATT
    from osaca.parser.register import RegisterOperand as R
    from contracts import spec_regs as S
    got = bool(ParserX86ATT().is_reg_dependend_of(R(name=a), R(name=b)))
    want = S.x86_family(a) == S.x86_family(b)
    return got != want, f"is_reg_dependend_of({a!r},{b!r}) = {got}, architectural overlap = {want}"

@replay
def c12_a64(a, b, written_a=None, written_b=None):
    from osaca.parser import ParserAArch64
    from osaca.parser.register import RegisterOperand as R
    from contracts import spec_regs as S
    got = bool(ParserAArch64().is_reg_dependend_of(R(prefix=a[0], name=a[1], **(written_a or {})), R(prefix=b[0], name=b[1], **(written_b or {}))))
    want = S.a64_family(*a) == S.a64_family(*b)
    return got != want, f"is_reg_dependend_of({a} {written_a or ''},{b} {written_b or ''}) = {got}, architectural overlap = {want}"

RAW = {}
def raw(f):
    RAW[f.__name__] = f
    return f

def main():
    try:
        import replay.more  # noqa: registers further replays
    except ImportError:
        pass
    if sys.argv[1] == "--batch":
        out = []
        for case in json.load(open(sys.argv[2])):
            f = RAW.get(case["replay"])
            try:
                out.append(f(**case["args"]))
            except Exception as e:
                out.append({"__raises__": type(e).__name__})
        print(json.dumps(out, default=str))
        return
    cex = json.loads(sys.argv[1])
    f = REPLAYS.get(cex["replay"])
    if f is None:
        print(json.dumps(dict(violates=None, detail="no replay function " + cex["replay"]))); return
    try:
        v, d = f(**cex["args"])
    except Exception as e:
        import traceback
        v, d = True, "real code raised " + repr(e) + " | " + traceback.format_exc()[-400:]
        if cex.get("exception_is_not_violation"):
            v = None
    print(json.dumps(dict(violates=v, detail=d)))
main()
