"""C02 - optimised schedule never worse than uniform and close to the true optimum.

No function-level contract within the prover's reach expresses optimality of the greedy balancer
(assign_optimal_throughput: float rounding steps, list.index(max) tie-breaking, deletion while iterating).
L  hall_lower_bound: any per-instruction vectors that satisfy the C01 feasibility predicate have
   max_j total[j] >= confined(S)/|S| for every port set S (so no feasible schedule undercuts the optimum).
B  run-time contract on the real assign_optimal_throughput over the property's own exhaustive family (5355 kernels,
   1 and 2 passes): never worse than uniform; after the two passes the CLI performs within 0.15 cy of the exact optimum.
"""
import z3

from pyvc.runner import Unit
from pyvc.bounded import bounded_unit

LEVEL = "exploration"
AS = "osaca/semantics/arch_semantics.py"
TRUSTED = ["bounded harness bounded/c01_optimal.py (independent optimum: max over port subsets of confined cycles / |S|)", "z3 for the lemma"]
ASSUMPTIONS = [
    "decisive part is a bounded stand-in (exhaustive over the property's own 3-port family); only the Hall lower-bound lemma is proved",
    "kernels are built from InstructionForm objects carrying the model's micro-op lists exactly as _handle_instruction_found sets them (no parser/model file involved)",
]
RULE = "every ordered kernel of length <= 4 (<= 3 with 2-cycle forms) over all single-micro-op forms on every non-empty subset of 3 ports, x {1, 2} passes"
I, R, B = z3.IntSort(), z3.RealSort(), z3.BoolSort()


def hall_unit(res):
    chi = z3.Function("chi", I, B)
    tot = z3.Function("tot", I, R)  # per-port totals
    T = z3.Function("T", I, R)  # T(m) = sum_{j<m, chi(j)} tot(j)
    SM = z3.Function("SM", I, R)  # SM(m) = sum_{j<m, chi(j)} M  = |S ∩ [0,m)| * M
    M, C = z3.Reals("M C")
    P, m, j, M0 = z3.Ints("P m j M0")
    ax = [T(0) == 0, SM(0) == 0,
          z3.ForAll([m], z3.Implies(m >= 0, T(m + 1) == T(m) + z3.If(chi(m), tot(m), 0))),
          z3.ForAll([m], z3.Implies(m >= 0, SM(m + 1) == SM(m) + z3.If(chi(m), M, 0))),
          z3.ForAll([j], tot(j) <= M)]
    res.add("hall/base", ax, T(0) <= SM(0), label="L")
    res.add("hall/step", ax + [M0 >= 0, T(M0) <= SM(M0)], T(M0 + 1) <= SM(M0 + 1), label="L")
    # with the C01 feasibility of the totals on S (T(P) >= C = cycles confined to S): |S|*M >= C
    res.add("hall/bound", ax + [P >= 0, T(P) <= SM(P), T(P) >= C], SM(P) >= C, label="L")
    return res


def _inspect_unit():
    from .c11 import inspect_selection_unit
    return inspect_selection_unit


def units(tier):
    return [
        Unit("C02/lemma/hall-lower-bound", hall_unit, "L", []),
        Unit("C02/inspect/two-balancing-passes-iff-not-fixed", _inspect_unit(), "P", [("osaca/osaca.py", "inspect")], decisive=False),
        bounded_unit("C02/assign_optimal_throughput/exhaustive-3-port-family", "c01_optimal", [(AS, "ArchSemantics.assign_optimal_throughput"),
                     (AS, "ArchSemantics.get_throughput_sum")], extra_args=["c02"], timeout=900, decisive=True),
    ]
