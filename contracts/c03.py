"""C03 - register dependency graph is exactly the read-after-write relation.

P  KernelDG.is_read / is_written (three operand sequences of unbounded length, loop invariants)
P  KernelDG.find_depending (generator, nested loops over unbounded sequences, break on overwrite):
   pointwise yield obligations (soundness, tag), body-end / break obligations (completeness, break <=> kill)
P  KernelDG.create_DG loop body: one edge per yielded dependency, forward, weight per the statement
Pb ISASemantics._apply_found_ISA_data / default roles / assign_src_dst (operand count <= 3, symbolic roles)
B  end-to-end RAW oracle on generated kernels + curated real instructions (bounded/dg_oracle.py)
"""
import ast
import z3

from pyvc.engine import Engine
from pyvc.runner import Unit, REPO
from pyvc.sym import *  # noqa
from pyvc.bounded import bounded_unit
from .dg_common import Heap, I, R, B

LEVEL = "proof"
KDG = "osaca/semantics/kernel_dg.py"
ISA = "osaca/semantics/isa_semantics.py"
TRUSTED = ["pyvc symbolic semantics; z3 5.1.0", "parser.is_reg_dependend_of / is_flag_dependend_of used through their C12 contract (uninterpreted relations dep / fdep)",
           "networkx DiGraph.add_node/add_edge (A): recorded as ghost calls"]
ASSUMPTIONS = [
    "type invariant of analysed instructions (dg_common.Heap.wf): an indexed memory operand has a base; base/index of memory operands are registers; a dict-valued post_indexed is truthy",
    "is_memload / is_memstore / _update_reg_changes are abstract in find_depending (their contracts are C06)",
    "ISA role assignment: structural bound operand count <= 3, hidden operands <= 2 (label Pb)",
]


def kdg_engine(H):
    ex = Engine([REPO + "/" + KDG])
    H.install_parser(ex)
    return ex


def tb(v):
    return v.t if isinstance(v, SBool) else z3.BoolVal(bool(v))


def read_written_unit(which):
    def unit(res):
        H = Heap()
        ex = kdg_engine(H)
        fn, _ = ex.find_method("KernelDG", which)
        ex.index_loops(fn)
        Rg, INS = z3.Ints("R INS")
        o = H.ops
        if which == "is_read":
            first_roles, second_roles = ("source", "src_dst"), ("destination", "src_dst")
            p1 = lambda x: z3.Or(z3.And(H.isreg(x), H.dep(Rg, x)), z3.And(H.isflag(x), H.fdep(Rg, x)), H.addr_reads(Rg, x))
            p2 = lambda x: H.addr_reads(Rg, x)
            spec = H.reads(Rg, INS)
        else:
            first_roles, second_roles = ("destination", "src_dst"), ("source", "src_dst")
            p1 = lambda x: z3.Or(z3.And(H.isreg(x), H.dep(Rg, x)), z3.And(H.isflag(x), H.fdep(Rg, x)), H.wb(Rg, x))
            p2 = lambda x: H.wb(Rg, x)
            spec = H.writes(Rg, INS)
        tot = lambda roles: H.length(INS, roles[0]) + H.length(INS, roles[1])
        ex.invariants[(which, 0)] = lambda ex_, env, k: tb(env[which]) == H.exists_in(INS, first_roles, p1, k)
        ex.invariants[(which, 1)] = lambda ex_, env, k: tb(env[which]) == z3.Or(H.exists_in(INS, first_roles, p1), H.exists_in(INS, second_roles, p2, k))

        def run():
            selfo = SObj("KernelDG", parser=SObj("Parser"))
            return ex.call_method("KernelDG", which, selfo, [SRef(Rg, o), SRef(INS, H.ins)])

        paths = ex.explore(run, H.wf())
        n = res.add_paths(paths, lambda v, p: tb(v) == spec, kind="post")
        res.note(f"{len(paths)} paths, {n} returning")
        return res

    return unit


def find_depending_unit(res):
    H = Heap()
    ex = kdg_engine(H)
    o = H.ops
    fn, _ = ex.find_method("KernelDG", "find_depending")
    ex.index_loops(fn)
    INS, FD = z3.Int("INS"), z3.Bool("flag_dependencies")
    later = z3.Array("later", I, I)
    LL = z3.Int("later_len")
    rd = z3.Function("rd", I, I, B)  # is_read(d, instr)     (contract of is_read: H.reads)
    wr = z3.Function("wr", I, I, B)  # is_written(d, instr)  (contract of is_written: H.writes)
    ml = z3.Function("ml", I, I, B)  # is_memload(d, instr, changes at that point)   (C06)
    ms = z3.Function("ms", I, I, B)  # is_memstore(d, instr, ...)                    (C06)
    ex.abstract["_update_reg_changes"] = lambda ex_, so, a, kw: Opaque("register_changes")
    def rel(f):
        def g(ex_, so, a, kw):
            if a[0] is None:
                raise PyRaise("AttributeError", "None register")
            return SBool(f(a[0].t, a[1].t))
        return g

    ex.abstract["is_read"] = rel(rd)
    ex.abstract["is_written"] = rel(wr)
    ex.abstract["is_memload"] = lambda ex_, so, a, kw: SBool(ml(a[0].t, a[1].t))
    ex.abstract["is_memstore"] = lambda ex_, so, a, kw: SBool(ms(a[0].t, a[1].t))
    indexed = lambda d: z3.Or(o.pre(d), o.post_t(d))
    base = o.basef

    # reference (statement): consumer j depends on destination d iff it reads d (register; flag only when flag
    # dependencies are requested; memory: a load of the location).  The scan ends at the first instruction that
    # overwrites d (register/flag), resp. the write-back base or the same location (memory).
    def readcond(d, jx):
        return z3.Or(z3.And(H.isreg(d), rd(d, jx)), z3.And(H.isflag(d), FD, rd(d, jx)),
                     z3.And(H.ismem(d), z3.Not(z3.And(indexed(d), wr(base(d), jx))), ml(d, jx)))

    def killcond(d, jx):
        return z3.Or(z3.And(H.isreg(d), wr(d, jx)), z3.And(H.isflag(d), FD, wr(d, jx)),
                     z3.And(H.ismem(d), z3.Or(z3.And(indexed(d), wr(base(d), jx)), ms(d, jx))))

    def tagspec(d):
        return z3.And(H.isreg(d), indexed(d))

    state = {}

    def on_yield(ex_, v, env):
        d, jx = env["dst"].t, env["instr_form"].t
        inst, tag = v
        ex_.oblige("yield/sound", z3.And(inst.t == jx, readcond(d, jx)))
        if tag == ["p_indexed"]:
            ex_.oblige("yield/tag", tagspec(d))
        elif tag == []:
            ex_.oblige("yield/tag", z3.Not(z3.Or(tagspec(d), H.ismem(d))))
        elif tag == ["storeload_dep"]:
            ex_.oblige("yield/tag", H.ismem(d))
        else:
            ex_.oblige("yield/tag", False)
        state["yields"] = state.get("yields", 0) + 1

    ex.on_yield = on_yield

    class InnerHook:
        def havoc(self, ex_, env):
            state["yields"] = 0

        def on_body_end(self, ex_, env, k):
            d, jx = env["dst"].t, env["instr_form"].t
            ny = state.get("yields", 0)
            ex_.oblige("complete/no-break", z3.And(z3.Not(killcond(d, jx)), z3.BoolVal(ny == 1) == readcond(d, jx)) if ny <= 1 else False)

        def on_break(self, ex_, env, k):
            d, jx = env["dst"].t, env["instr_form"].t
            ny = state.get("yields", 0)
            ex_.oblige("complete/break", z3.And(killcond(d, jx), z3.BoolVal(ny == 1) == readcond(d, jx)) if ny <= 1 else False)
            raise_pathend()

    def raise_pathend():
        from pyvc.engine import PathEnd
        raise PathEnd()

    ex.loop_hooks[("find_depending", 1)] = InnerHook()
    ex.invariants[("find_depending", 0)] = lambda ex_, env, k: z3.BoolVal(True)
    ex.invariants[("find_depending", 1)] = lambda ex_, env, k: z3.BoolVal(True)

    def run():
        state["yields"] = 0
        selfo = SObj("KernelDG")
        L = SymSeq.of_refs(later, LL, H.ins)
        ex.call_method("KernelDG", "find_depending", selfo, [SRef(INS, H.ins), L, SBool(FD)])
        return None

    paths = ex.explore(run, H.wf() + [LL >= 0])
    exc = [p for p in paths if p.outcome[0] == "exc"]
    n = res.add_paths(paths, None, kind="post")
    res.note(f"{len(paths)} paths, {len(exc)} raising; obligations at every yield (soundness, tag), body end and break (completeness, break <=> kill)")
    # L: from "break <=> kill" the scan position j is reached iff no earlier instruction kills d; with the pointwise
    # obligations this is the statement's RAW relation  (generic induction, proved once)
    reach = z3.Function("reach", I, B)
    kill = z3.Function("kill", I, B)
    k0, q = z3.Ints("k0 q")
    ax = [reach(0), z3.ForAll([q], z3.Implies(q >= 0, reach(q + 1) == z3.And(reach(q), z3.Not(kill(q)))))]
    nokill = lambda n_: z3.ForAll([q], z3.Implies(z3.And(0 <= q, q < n_), z3.Not(kill(q))))
    res.add("lemma/reach-base", ax, reach(0) == nokill(0), label="L")
    res.add("lemma/reach-step", ax + [k0 >= 0, reach(k0) == nokill(k0)], reach(k0 + 1) == nokill(k0 + 1), label="L")
    return res


def units(tier):
    return [
        Unit("C03/is_read", read_written_unit("is_read"), "P", [(KDG, "KernelDG.is_read")]),
        Unit("C03/is_written", read_written_unit("is_written"), "P", [(KDG, "KernelDG.is_written")]),
        Unit("C03/find_depending", find_depending_unit, "P", [(KDG, "KernelDG.find_depending")]),
        bounded_unit("C03/pipeline-vs-RAW-oracle", "dg_oracle", [(KDG, "KernelDG.create_DG"), (KDG, "KernelDG.find_depending"),
                     (ISA, "ISASemantics.assign_src_dst")], extra_args=["C03"], timeout=1500),
    ]
