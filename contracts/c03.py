"""C03 - register dependency graph is exactly the read-after-write relation.

P  KernelDG.is_read / is_written (three operand sequences of unbounded length, loop invariants)
P  KernelDG.find_depending (generator, nested loops over unbounded sequences, break on overwrite):
   pointwise yield obligations (soundness, tag), body-end / break obligations (completeness, break <=> kill)
P  KernelDG.create_DG loop body: one edge per yielded dependency, forward, weight per the statement
Pb ISASemantics._apply_found_ISA_data / default roles / assign_src_dst (operand count <= 3, symbolic roles)
B  end-to-end RAW oracle on generated kernels + curated real instructions (bounded/dg_oracle.py)
"""
import ast
import z3

from pyvc.engine import Engine
from pyvc.runner import Unit, REPO
from pyvc.sym import *  # noqa
from pyvc.bounded import bounded_unit
from .dg_common import Heap, I, R, B

LEVEL = "proof"
KDG = "osaca/semantics/kernel_dg.py"
ISA = "osaca/semantics/isa_semantics.py"
TRUSTED = ["pyvc symbolic semantics; z3 5.1.0", "parser.is_reg_dependend_of / is_flag_dependend_of used through their C12 contract (uninterpreted relations dep / fdep)",
           "networkx DiGraph.add_node/add_edge (A): recorded as ghost calls"]
ASSUMPTIONS = [
    "type invariant of analysed instructions (dg_common.Heap.wf): an indexed memory operand has a base; base/index of memory operands are registers; a dict-valued post_indexed is truthy",
    "is_memload / is_memstore / _update_reg_changes are abstract in find_depending (their contracts are C06)",
    "ISA role assignment: structural bound operand count <= 3, hidden operands <= 2 (label Pb)",
]


def kdg_engine(H):
    ex = Engine([REPO + "/" + KDG])
    H.install_parser(ex)
    return ex


def tb(v):
    return v.t if isinstance(v, SBool) else z3.BoolVal(bool(v))


def read_written_unit(which):
    def unit(res):
        H = Heap()
        ex = kdg_engine(H)
        fn, _ = ex.find_method("KernelDG", which)
        ex.index_loops(fn)
        Rg, INS = z3.Ints("R INS")
        o = H.ops
        if which == "is_read":
            first_roles, second_roles = ("source", "src_dst"), ("destination", "src_dst")
            p1 = lambda x: z3.Or(z3.And(H.isreg(x), H.dep(Rg, x)), z3.And(H.isflag(x), H.fdep(Rg, x)), H.addr_reads(Rg, x))
            p2 = lambda x: H.addr_reads(Rg, x)
            spec = H.reads(Rg, INS)
        else:
            first_roles, second_roles = ("destination", "src_dst"), ("source", "src_dst")
            p1 = lambda x: z3.Or(z3.And(H.isreg(x), H.dep(Rg, x)), z3.And(H.isflag(x), H.fdep(Rg, x)), H.wb(Rg, x))
            p2 = lambda x: H.wb(Rg, x)
            spec = H.writes(Rg, INS)
        tot = lambda roles: H.length(INS, roles[0]) + H.length(INS, roles[1])
        # the accumulator flag of is_read / is_written, found by its role (the one boolean local), not by its name
        def flag(env):
            fl = [v_ for n_, v_ in env.items() if isinstance(v_, (bool, SBool)) and n_ != "self"]
            return env[which] if which in env else fl[0] if len(fl) == 1 else env[which]

        ex.invariants[(which, 0)] = lambda ex_, env, k: tb(flag(env)) == H.exists_in(INS, first_roles, p1, k)
        ex.invariants[(which, 1)] = lambda ex_, env, k: tb(flag(env)) == z3.Or(H.exists_in(INS, first_roles, p1), H.exists_in(INS, second_roles, p2, k))

        def run():
            selfo = SObj("KernelDG", parser=SObj("Parser"))
            return ex.call_method("KernelDG", which, selfo, [SRef(Rg, o), SRef(INS, H.ins)])

        paths = ex.explore(run, H.wf())
        n = res.add_paths(paths, lambda v, p: tb(v) == spec, kind="post")
        res.note(f"{len(paths)} paths, {n} returning")
        return res

    return unit


def find_depending_unit(res):
    H = Heap()
    ex = kdg_engine(H)
    o = H.ops
    fn, _ = ex.find_method("KernelDG", "find_depending")
    ex.index_loops(fn)
    INS, FD = z3.Int("INS"), z3.Bool("flag_dependencies")
    later = z3.Array("later", I, I)
    LL = z3.Int("later_len")
    rd = z3.Function("rd", I, I, B)  # is_read(d, instr)     (contract of is_read: H.reads)
    wr = z3.Function("wr", I, I, B)  # is_written(d, instr)  (contract of is_written: H.writes)
    # ghost state of the register-change table (C06): an abstract value that only _update_reg_changes transforms.
    #   upd(table, instruction, post-index pass?)   (contract of _update_reg_changes: proved in C06/_update_reg_changes)
    # specification: the table handed to is_memload / is_memstore for the j-th later instruction is
    #   PRE(j) = upd(DONE(j), later[j], False),  DONE(0) = upd(upd(empty, producer, False), producer, True),
    #   DONE(j+1) = upd(PRE(j), later[j], True)   -- started afresh for every destination
    RC = z3.DeclareSort("RegChanges")
    upd = z3.Function("upd", RC, I, B, RC)
    rc_empty = z3.Const("rc_empty", RC)
    DONE = z3.Function("rc_done", I, RC)
    rc_init = upd(upd(rc_empty, INS, z3.BoolVal(False)), INS, z3.BoolVal(True))
    PRE = lambda k: upd(DONE(k), later[k], z3.BoolVal(False))
    # an access forms its address from the register values before the instruction's own register writes (table DONE(k));
    # an instruction with a pre-indexed access after its own base update (table PRE(k))
    hp = z3.Function("has_pre_indexed_access", I, B)  # contract of _has_pre_indexed_access (own unit)
    AT = lambda k: z3.If(hp(later[k]), PRE(k), DONE(k))
    ml = z3.Function("ml", I, I, RC, B)  # is_memload(d, instr, changes at that point)   (C06)
    ms = z3.Function("ms", I, I, RC, B)  # is_memstore(d, instr, ...)                    (C06)

    class RCObj:
        havoc_when_passed = True

        def __init__(self, term):
            self.term = term

        def sym_havoc(self, ex_, tag):
            self.term = z3.FreshConst(RC, tag)
            return self

        def sym_deepcopy(self, ex_):
            return RCObj(self.term)

        def sym_method(self, ex_, name, args, kw):
            if name == "items" and not args:
                return [("<whole table>", RCObj(self.term))]  # (the code copies the table entry by entry: the copy is the same table value)
            raise Unsupported("register-change table." + name)

    def update_changes(ex_, so, a, kw):
        iform = a[0]
        table = a[1] if len(a) > 1 else kw.get("reg_state")
        post = a[2] if len(a) > 2 else kw.get("only_postindexed", False)
        pt = post.t if isinstance(post, SBool) else z3.BoolVal(bool(post))
        if table is None:
            table = RCObj(rc_empty)
        if not isinstance(table, RCObj):
            raise Unsupported("register-change table of unexpected kind")
        table.term = upd(table.term, iform.t, pt)
        return table

    ex.abstract["_update_reg_changes"] = update_changes

    def rc_of(a, kw):
        t = a[2] if len(a) > 2 else kw.get("register_changes")
        if isinstance(t, dict) and set(t) == {"<whole table>"} and isinstance(t["<whole table>"], RCObj):
            t = t["<whole table>"]  # entry-wise copy of the table
        return t.term if isinstance(t, RCObj) else rc_empty
    def rel(f):
        def g(ex_, so, a, kw):
            if a[0] is None:
                raise PyRaise("AttributeError", "None register")
            return SBool(f(a[0].t, a[1].t))
        return g

    ex.abstract["is_read"] = rel(rd)
    ex.abstract["is_written"] = rel(wr)
    ex.abstract["_has_pre_indexed_access"] = lambda ex_, so, a, kw: SBool(hp(a[0].t))
    ex.abstract["is_memload"] = lambda ex_, so, a, kw: SBool(ml(a[0].t, a[1].t, rc_of(a, kw)))
    ex.abstract["is_memstore"] = lambda ex_, so, a, kw: SBool(ms(a[0].t, a[1].t, rc_of(a, kw)))
    indexed = lambda d: z3.Or(o.pre(d), o.post_t(d))
    base = o.basef

    # reference (statement): consumer j depends on destination d iff it reads d (register; flag only when flag
    # dependencies are requested; memory: a load of the location).  The scan ends at the first instruction that
    # overwrites d (register/flag), resp. stores to the same operand (memory).
    def readcond(d, jx, k):
        return z3.Or(z3.And(H.isreg(d), rd(d, jx)), z3.And(H.isflag(d), FD, rd(d, jx)), z3.And(H.ismem(d), ml(d, jx, AT(k))))

    def killcond(d, jx, k):
        return z3.Or(z3.And(H.isreg(d), wr(d, jx)), z3.And(H.isflag(d), FD, wr(d, jx)), z3.And(H.ismem(d), ms(d, jx, AT(k))))

    def tagspec(d):
        return z3.And(H.isreg(d), indexed(d))

    state = {}

    def on_yield(ex_, v, env):
        d, jx, k = env["dst"].t, env["instr_form"].t, env["__k__1"]
        inst, tag = v
        ex_.oblige("yield/sound", z3.And(inst.t == jx, readcond(d, jx, k)))
        if tag == ["p_indexed"]:
            ex_.oblige("yield/tag", tagspec(d))
        elif tag == []:
            ex_.oblige("yield/tag", z3.Not(z3.Or(tagspec(d), H.ismem(d))))
        elif tag == ["storeload_dep"]:
            ex_.oblige("yield/tag", H.ismem(d))
        else:
            ex_.oblige("yield/tag", False)
        state["yields"] = state.get("yields", 0) + 1

    ex.on_yield = on_yield

    class InnerHook:
        def havoc(self, ex_, env):
            state["yields"] = 0

        def on_body_start(self, ex_, env, k):
            # instance of the recursive definition of DONE at this position
            ex_.assume(DONE(k + 1) == upd(PRE(k), later[k], z3.BoolVal(True)))

        def on_body_end(self, ex_, env, k):
            d, jx = env["dst"].t, env["instr_form"].t
            ny = state.get("yields", 0)
            ex_.oblige("complete/no-break", z3.And(z3.Not(killcond(d, jx, k)), z3.BoolVal(ny == 1) == readcond(d, jx, k)) if ny <= 1 else False)

        def on_break(self, ex_, env, k):
            d, jx = env["dst"].t, env["instr_form"].t
            ny = state.get("yields", 0)
            ex_.oblige("complete/break", z3.And(killcond(d, jx, k), z3.BoolVal(ny == 1) == readcond(d, jx, k)) if ny <= 1 else False)
            raise_pathend()

    def raise_pathend():
        from pyvc.engine import PathEnd
        raise PathEnd()

    ex.loop_hooks[("find_depending", 1)] = InnerHook()
    ex.invariants[("find_depending", 0)] = lambda ex_, env, k: z3.BoolVal(True)
    # inner loop invariant: the table in hand is the specified one for this position
    def inner_inv(ex_, env, k):
        t = env.get("register_changes")
        if isinstance(t, dict) and not t:  # no table is kept for register / flag destinations (it is only needed for stored locations)
            return z3.Not(H.ismem(env["dst"].t))
        return t.term == DONE(k) if isinstance(t, RCObj) else z3.BoolVal(False)

    ex.invariants[("find_depending", 1)] = inner_inv

    def run():
        state["yields"] = 0
        selfo = SObj("KernelDG")
        L = SymSeq.of_refs(later, LL, H.ins)
        ex.call_method("KernelDG", "find_depending", selfo, [SRef(INS, H.ins), L, SBool(FD)])
        return None

    paths = ex.explore(run, H.wf() + [LL >= 0, DONE(0) == rc_init])
    exc = [p for p in paths if p.outcome[0] == "exc"]
    n = res.add_paths(paths, None, kind="post")
    res.note(f"{len(paths)} paths, {len(exc)} raising; obligations at every yield (soundness, tag), body end and break (completeness, break <=> kill)")
    # L: from "break <=> kill" the scan position j is reached iff no earlier instruction kills d; with the pointwise
    # obligations this is the statement's RAW relation  (generic induction, proved once)
    reach = z3.Function("reach", I, B)
    kill = z3.Function("kill", I, B)
    k0, q = z3.Ints("k0 q")
    ax = [reach(0), z3.ForAll([q], z3.Implies(q >= 0, reach(q + 1) == z3.And(reach(q), z3.Not(kill(q)))))]
    nokill = lambda n_: z3.ForAll([q], z3.Implies(z3.And(0 <= q, q < n_), z3.Not(kill(q))))
    res.add("lemma/reach-base", ax, reach(0) == nokill(0), label="L")
    res.add("lemma/reach-step", ax + [k0 >= 0, reach(k0) == nokill(k0)], reach(k0 + 1) == nokill(k0 + 1), label="L")
    return res


def has_pre_indexed_unit(res):
    """P: KernelDG._has_pre_indexed_access (operand sequences of any length): True iff the instruction has semantic operands
    and one of them - in any role - is a pre-indexed memory operand."""
    H = Heap()
    ex = kdg_engine(H)
    INS = z3.Int("INS")
    o = H.ops
    paths = ex.explore(lambda: ex.call_method("KernelDG", "_has_pre_indexed_access", SObj("KernelDG"), [SRef(INS, H.ins)]), H.wf())
    pred = lambda x: z3.And(H.ismem(x), o.pre(x))
    j = z3.Int("j")
    n1, n2, n3 = H.length(INS, "source"), H.length(INS, "destination"), H.length(INS, "src_dst")
    # the j-th operand of source ++ destination ++ src_dst
    elem3 = lambda t: z3.If(t < n1, H.elem(INS, "source", t), z3.If(t < n1 + n2, H.elem(INS, "destination", t - n1), H.elem(INS, "src_dst", t - n1 - n2)))
    want = z3.And(H.has_sem(INS), z3.Exists([j], z3.And(0 <= j, j < n1 + n2 + n3, pred(elem3(j)))))
    for p in paths:
        if p.outcome[0] != "ret":
            res.add("exception-freedom", p.pc, False)
            continue
        v = p.outcome[1]
        got = v.t if isinstance(v, SBool) else z3.BoolVal(bool(v))
        # two implications with the witness handed over (z3 does not find the index shift of the concatenation by itself)
        res.add("post/code-true-implies-spec", list(p.pc) + [got], want)
        res.add("post/spec-implies-code-true", list(p.pc) + [want], got)
    return res


HW = "osaca/semantics/hw_model.py"


class GhostDG:
    """ghost stand-in for nx.DiGraph (A: add_node/add_edge have overwrite semantics): records add_edge calls"""

    def __init__(self, on_edge):
        self.on_edge = on_edge

    def sym_havoc(self, ex, tag):
        return self

    def sym_method(self, ex, name, args, kw):
        if name == "add_node":
            return None
        if name == "add_edge":
            self.on_edge(ex, args[0], args[1], kw.get("latency"))
            return None
        if name == "has_edge" and self.prev is not None:
            return self.prev(ex, "has", args[0], args[1])
        raise Unsupported("DiGraph." + name)

    prev = None  # contract-supplied view of what the graph holds so far for a pair: prev(ex, "has"|"latency", a, b)

    def sym_getattr(self, ex, attr):
        if attr == "nodes":
            return GhostNodes()
        if attr == "edges" and self.prev is not None:
            return GhostEdges(self)
        return PyMethod(self, attr)


class GhostEdges:
    def __init__(self, dg):
        self.dg = dg

    def sym_getitem(self, ex, k):
        a, b = k
        dg = self.dg

        class Attrs:
            def sym_getitem(self, ex_, key):
                if key == "latency":
                    return dg.prev(ex_, "latency", a, b)
                raise Unsupported("edge attribute " + str(key))

        return Attrs()


class GhostNodes:
    def sym_getitem(self, ex, k):
        return GhostAttrs()


class GhostAttrs:
    def sym_setitem(self, ex, k, v):
        return None


class TagList:
    """dep_flags yielded by find_depending: [] | ["p_indexed"] | ["storeload_dep"]"""

    def __init__(self, t):
        self.t = t

    def sym_contains(self, ex, item):
        if item == "p_indexed":
            return SBool(self.t == 1)
        if item == "storeload_dep":
            return SBool(self.t == 2)
        return False


def create_dg_unit(res):
    H = Heap()
    ex = Engine([REPO + "/" + f for f in (HW, ISA, KDG)])
    fn, _ = ex.find_method("KernelDG", "create_DG")
    ex.index_loops(fn)
    lat = z3.Function("ins_lat", I, R)
    haslwl = z3.Function("ins_has_lwl", I, B)
    lwl = z3.Function("ins_lwl", I, R)
    has_ld = z3.Function("ins_HAS_LD", I, B)
    is_ld = z3.Function("ins_LD", I, B)

    class Flags:
        def __init__(self, t):
            self.t = t

        def sym_contains(self, ex_, item):
            if item == "performs_load":
                return SBool(has_ld(self.t))
            if item == "is_load_instruction":
                return SBool(is_ld(self.t))
            raise Unsupported("flag " + str(item))

    ins = Schema("insd", ["InstructionForm"], {"line_number": ("int",), "latency": ("real",), "latency_wo_load": ("optreal",), "flags": ("custom", None)})
    ins.fn["line_number"] = H.line
    ins.fn["latency"] = lat
    ins.fn["latency_wo_load"] = (haslwl, lwl)
    ins.fn["flags"] = lambda ex_, ref: Flags(ref.t)
    karr, KL = z3.Array("kernel", I, I), z3.Int("klen")
    ypos = z3.Function("ypos", I, I, I)  # position (in the slice) of the k-th dependency yielded for instruction i
    ytag = z3.Function("ytag", I, I, I)
    ylen = z3.Function("ylen", I, I)
    fwd, pidx = z3.Reals("fwd pidx")
    state = {}

    def find_depending(ex_, so, a, kw):
        instr, later, fd = a[0], a[1], a[2] if len(a) > 2 else kw.get("flag_dependencies")
        i = state["i"]
        ex_.oblige("find_depending/args", z3.And(instr.t == z3.Select(karr, i), later.length == z3.If(KL > i + 1, KL - (i + 1), 0)))
        state["later"] = later
        return SymSeq(ylen(i), lambda k: (later.at(ypos(i, k)), TagList(ytag(i, k))))

    ex.abstract["find_depending"] = find_depending

    def on_edge(ex_, a, b, w):
        i = state["i"]
        me = z3.Select(karr, i)
        ln = H.line(me)
        at, bt, wt = real_term(a), real_term(b), real_term(w)
        if state.get("dep") is None:
            state["load_edges"] = state.get("load_edges", 0) + 1
            ex_.oblige("load-edge", z3.And(has_ld(me), z3.Not(is_ld(me)), at == z3.ToReal(ln) + z3.RealVal("1/10"), bt == z3.ToReal(ln),
                                           wt == lat(me) - lwl(me)))
        else:
            k = state["dep"]
            state["dep_edges"] = state.get("dep_edges", 0) + 1
            dep_ref = state["later"].at(ypos(i, k)).t
            tag = ytag(i, k)
            plain = z3.If(haslwl(me), lwl(me), lat(me))
            mode = state["model"]
            want = plain
            if mode != "none":
                f = fwd if mode == "full" else z3.RealVal(0)
                p_ = pidx if mode == "full" else z3.RealVal(1)
                want = z3.If(tag == 1, p_, z3.If(tag == 2, plain + f, plain))
            # several dependencies between the same two instructions share one edge: it carries the LARGEST of their weights
            # (ghost view of the graph: EP(i,k) = an edge i -> consumer exists already, WP(i,k) = its weight)
            want = z3.If(EP(i, k), z3.If(WP(i, k) > want, WP(i, k), want), want)
            ex_.oblige("dep-edge", z3.And(at == z3.ToReal(ln), bt == z3.ToReal(H.line(dep_ref)), wt == want))

    class Outer:
        def on_body_start(self, ex_, env, k):
            state.update(i=k, dep=None, load_edges=0)

        def on_body_end(self, ex_, env, k):
            me = z3.Select(karr, k)
            n = state.get("load_edges", 0)
            ex_.oblige("load-node-iff", z3.BoolVal(n == 1) == z3.And(has_ld(me), z3.Not(is_ld(me))) if n <= 1 else False)

    class Inner:
        def on_body_start(self, ex_, env, k):
            state.update(dep=k, dep_edges=0)

        def on_body_end(self, ex_, env, k):
            ex_.oblige("one-edge-per-dependency", state.get("dep_edges", 0) == 1)
            state["dep"] = None

    ex.loop_hooks[("create_DG", 0)] = Outer()
    ex.loop_hooks[("create_DG", 1)] = Inner()
    ex.invariants[("create_DG", 0)] = lambda ex_, env, k: z3.BoolVal(True)
    ex.invariants[("create_DG", 1)] = lambda ex_, env, k: z3.BoolVal(True)
    EP, WP = z3.Function("edge_exists_before", I, I, B), z3.Function("edge_weight_before", I, I, R)

    def prev(ex_, what, a, b):
        i, k = state["i"], state["dep"]
        if k is None:
            raise Unsupported("graph queried outside the dependency loop")
        dep_ref = state["later"].at(ypos(i, k)).t
        ex_.oblige("edge-query/about-this-pair", z3.And(real_term(a) == z3.ToReal(H.line(z3.Select(karr, i))), real_term(b) == z3.ToReal(H.line(dep_ref))))
        return SBool(EP(i, k)) if what == "has" else SNum(WP(i, k), False)

    def mkdg(ex_, so, a, kw):
        g = GhostDG(on_edge)
        g.prev = prev
        return g

    ex.abstract["nx.DiGraph"] = mkdg
    q, r_ = z3.Ints("q r_")
    # type invariant established by assign_tp_lt (C08 postcondition): every analysed line has a numeric latency_wo_load
    pre = [KL >= 0, z3.ForAll([q], ylen(q) >= 0), z3.ForAll([q], z3.Implies(z3.And(has_ld(q), z3.Not(is_ld(q))), haslwl(q))),
           z3.ForAll([q, r_], z3.Implies(z3.And(0 <= r_, r_ < ylen(q)), z3.And(0 <= ypos(q, r_), ypos(q, r_) < z3.If(KL > q + 1, KL - (q + 1), 0),
                                                                               0 <= ytag(q, r_), ytag(q, r_) <= 2)))]
    for mode in ("full", "defaults", "none"):
        def run():
            state.clear()
            state["model"] = mode
            mm = None
            if mode != "none":
                mm = SObj("MachineModel", _data={"store_to_load_forward_latency": SNum(fwd, False), "p_index_latency": SNum(pidx, False)} if mode == "full" else {})
            selfo = SObj("KernelDG", model=mm)
            kernel = SymSeq.of_refs(karr, KL, ins)
            return ex.call_method("KernelDG", "create_DG", selfo, [kernel, SBool(z3.Bool("fd"))])

        paths = ex.explore(run, pre)
        n = res.add_paths(paths, lambda v, p: isinstance(v, GhostDG), kind=f"post[{mode}]")
        res.note(f"model={mode}: {len(paths)} paths")
    # L: every dependency edge points forward: consumer index = i + 1 + pos > i and line numbers increase with the index
    i0, p0 = z3.Ints("i0 p0")
    res.add("lemma/forward", [p0 >= 0], i0 + 1 + p0 > i0, label="L")
    return res


ROLE_FILES = ["osaca/parser/operand.py", "osaca/parser/register.py", "osaca/parser/memory.py", "osaca/parser/immediate.py", "osaca/parser/flag.py",
              "osaca/parser/identifier.py", "osaca/parser/instruction_form.py", "osaca/semantics/hw_model.py", ISA]


def roles_unit(isa):
    """Pb: ISASemantics.assign_src_dst (with _apply_found_ISA_data, default roles, suffix fall-backs, register form of a memory
    instruction, AArch64 write-back post-processing, load/store flags) for 0-3 operands, symbolic per-operand roles of the ISA
    entry and of two hidden operands.  Spec from the statement: read-modify-write operands go to src_dst, hidden (flag) operands
    follow their roles, a dependency-breaking idiom with equal operands writes without reading, forms without ISA entry get
    'last (x86) / first (AArch64) operand is the destination', a single operand is a source."""
    def unit(res):
        ex = Engine([REPO + "/" + f for f in ROLE_FILES])
        ex.no_init |= {"MachineModel", "ParserX86ATT", "ParserAArch64"}
        import itertools
        for nops, found, mempos, equal, idiom, upper in itertools.product((0, 1, 2, 3), ("full", "suffix", "regform", "regform-suffix", "none"), (None, "last", "first"), (False, True), (False, True), (False, True)):
            if upper and (nops != 2 or equal or idiom):
                continue  # mnemonic written in upper case (the mnemonic agrees case-insensitively, also for the suffix fall-backs): two-operand forms
            if nops == 0 and (mempos is not None or equal or idiom or found.startswith("regform")):
                continue  # operand-less instruction (cltq, vzeroupper, pushfq ...): only its hidden operands have roles
            if found.startswith("regform") and mempos is None:
                continue
            if equal and (mempos is not None or nops == 1):
                continue
            if idiom and found == "none":
                continue
            if nops == 3 and (mempos == "first" or found in ("suffix", "regform-suffix")):
                continue  # (covered with 1 and 2 operands; keeps the number of paths manageable)
            mi = None if mempos is None else (nops - 1 if mempos == "last" else 0)
            srcb = [z3.Bool(f"src{i}") for i in range(nops)]
            dstb = [z3.Bool(f"dst{i}") for i in range(nops)]
            hs, hd = [z3.Bool("hsrc0"), z3.BoolVal(True)], [z3.Bool("hdst0"), z3.BoolVal(True)]
            if nops == 3:
                srcb[1], dstb[1] = z3.BoolVal(True), z3.BoolVal(False)
            pre_i, post_i = z3.Bools("mem_pre mem_post")

            def run():
                new = lambda c, **kw: ex.instantiate(c, kw=kw)
                reg = (lambda n: new("RegisterOperand", name=n)) if isa == "x86" else (lambda n: new("RegisterOperand", prefix="x", name=n))
                names = ["rax", "rbx", "rcx"] if isa == "x86" else ["1", "2", "3"]
                ops = []
                for i in range(nops):
                    if i == mi:
                        ops.append(new("MemoryOperand", base=reg("rsi" if isa == "x86" else "9"), offset=new("ImmediateOperand", value=8),
                                       pre_indexed=SBool(pre_i) if isa == "aarch64" else False, post_indexed=SBool(post_i) if isa == "aarch64" else False))
                    else:
                        ops.append(reg(names[0] if equal else names[i]))
                hidden = [new("FlagOperand", name="ZF", source=SBool(hs[0]), destination=SBool(hd[0])), new("FlagOperand", name="CF", source=SBool(hs[1]), destination=SBool(hd[1]))]
                e_ops = [new("RegisterOperand", name="gpr", source=SBool(srcb[i]), destination=SBool(dstb[i])) for i in range(nops)]
                entry = new("InstructionForm", mnemonic="OP", operands=e_ops, hidden_operands=hidden, breaks_dependency_on_equal_operands=idiom)
                full = "opq" if isa == "x86" else "op.s"
                if upper:
                    full = full.upper()

                def get_instruction(ex_, so, a, kw):
                    name, operands = a
                    wild = any(isinstance(o, dict) for o in operands)
                    short = name.lower() == "op"
                    if found == "full" and not wild and not short:
                        return entry
                    if found == "suffix" and not wild and short:
                        return entry
                    if found == "regform" and wild and not short:
                        return entry
                    if found == "regform-suffix" and wild and short:
                        return entry
                    return None

                ex.abstract["get_instruction"] = get_instruction
                iform = new("InstructionForm", mnemonic=full, operands=ops, line="op", line_number=1)
                sem = SObj("ISASemantics", _isa=isa, _isa_model=SObj("MachineModel", _data={"isa": isa}))
                ex.call_method("ISASemantics", "assign_src_dst", sem, [iform])
                ex.extra.update(ops=ops, hidden=hidden, iform=iform)
                return iform

            paths = ex.explore(run, [z3.Not(z3.And(pre_i, post_i))])

            def post(v, p):
                ops, hidden = p.extra["ops"], p.extra["hidden"]
                so = v.fields["_semantic_operands"]
                if not isinstance(so, dict) or set(so) != {"source", "destination", "src_dst"}:
                    return False
                inl = lambda lst, o: any(x is o for x in lst)
                g = []
                has_entry = found in ("full", "suffix", "regform", "regform-suffix")
                if has_entry and idiom and (equal or nops == 1):  # (a single operand is trivially "all operands equal")
                    for o in ops + hidden:
                        g.append(z3.BoolVal(inl(so["destination"], o) and not inl(so["source"], o) and not inl(so["src_dst"], o)))
                elif has_entry:
                    for o, sb, db in list(zip(ops, srcb, dstb)) + list(zip(hidden, hs, hd)):
                        is_hidden = any(o is h for h in hidden)
                        in_sd, in_s, in_d = inl(so["src_dst"], o), inl(so["source"], o), inl(so["destination"], o)
                        if is_hidden:
                            # hidden operands without any role are filed as destination by the code ('else' branch); the
                            # statement only speaks about operands that have a role
                            g.append(z3.Implies(z3.And(sb, db), z3.BoolVal(in_sd and not in_s and not in_d)))
                            g.append(z3.Implies(z3.And(sb, z3.Not(db)), z3.BoolVal(in_s and not in_sd and not in_d)))
                            g.append(z3.Implies(z3.And(z3.Not(sb), db), z3.BoolVal(in_d and not in_s and not in_sd)))
                        else:
                            g.append(z3.BoolVal(in_sd) == z3.And(sb, db))
                            g.append(z3.BoolVal(in_s) == z3.And(sb, z3.Not(db)))
                            g.append(z3.BoolVal(in_d) == z3.And(z3.Not(sb), db))
                else:
                    dest = [] if nops <= 1 else ([ops[-1]] if isa == "x86" else [ops[0]])
                    for o in ops:
                        g.append(z3.BoolVal(inl(so["destination"], o) == any(o is d for d in dest)))
                        g.append(z3.BoolVal(inl(so["source"], o) == (not any(o is d for d in dest))))
                    g.append(z3.BoolVal(not any(any(x is o for o in ops) for x in so["src_dst"])))
                # AArch64 write-back (statement: "pre/post-index base write-back"): the base register of a pre/post-indexed memory
                # operand is read and written, whatever role the memory operand itself has (load, store or read-modify-write)
                if isa == "aarch64" and mi is not None:
                    m = ops[mi]
                    base = m.fields["_base"]
                    in_plain = inl(so["source"], m) or inl(so["destination"], m) or inl(so["src_dst"], m)
                    g.append(z3.Implies(z3.And(z3.Or(pre_i, post_i), z3.BoolVal(in_plain)), z3.BoolVal(inl(so["src_dst"], base))))
                    g.append(z3.Implies(z3.Not(z3.Or(pre_i, post_i)), z3.BoolVal(not inl(so["src_dst"], base))))
                # load/store flags
                fl = v.fields["_flags"]
                if mi is not None:
                    m = ops[mi]
                    g.append(z3.BoolVal(("performs_load" in fl) == (inl(so["source"], m) or inl(so["src_dst"], m))))
                    g.append(z3.BoolVal(("performs_store" in fl) == (inl(so["destination"], m) or inl(so["src_dst"], m))))
                else:
                    g.append(z3.BoolVal("performs_load" not in fl and "performs_store" not in fl))
                return z3.And(g)

            res.add_paths(paths, post, kind=f"{isa}/n{nops}/{found}/mem={mempos}/equal={int(equal)}/idiom={int(idiom)}" + ("/upper-case" if upper else ""), label="Pb")
        return res

    return unit


def units(tier):
    from . import c12
    return [
        Unit("C03/register-alias-predicate/x86", c12.x86_unit, "P", [(c12.X86, "ParserX86ATT.is_reg_dependend_of")], timeout=900, decisive=False),
        Unit("C03/register-alias-predicate/aarch64", c12.a64_unit, "P", [(c12.A64, "ParserAArch64.is_reg_dependend_of")], timeout=600, decisive=False),
        Unit("C03/is_read", read_written_unit("is_read"), "P", [(KDG, "KernelDG.is_read")]),
        Unit("C03/is_written", read_written_unit("is_written"), "P", [(KDG, "KernelDG.is_written")]),
        Unit("C03/find_depending", find_depending_unit, "P", [(KDG, "KernelDG.find_depending")]),
        Unit("C03/create_DG", create_dg_unit, "P", [(KDG, "KernelDG.create_DG")]),
        Unit("C03/assign_src_dst/roles/x86", roles_unit("x86"), "Pb", [(ISA, "ISASemantics.assign_src_dst"), (ISA, "ISASemantics._apply_found_ISA_data"),
             (ISA, "ISASemantics._get_regular_source_operands"), (ISA, "ISASemantics._get_regular_destination_operands"), (ISA, "ISASemantics._has_load"), (ISA, "ISASemantics._has_store")], timeout=1500),
        Unit("C03/assign_src_dst/roles/aarch64", roles_unit("aarch64"), "Pb", [(ISA, "ISASemantics.assign_src_dst"), (ISA, "ISASemantics._apply_found_ISA_data")], timeout=1500),
        bounded_unit("C03/pipeline-vs-RAW-oracle", "dg_oracle", [(KDG, "KernelDG.create_DG"), (KDG, "KernelDG.find_depending"),
                     (ISA, "ISASemantics.assign_src_dst")], extra_args=["C03"], timeout=1500),
    ]
