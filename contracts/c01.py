"""C01 - port pressure is a feasible split of each instruction's micro-ops.

P  average_port_pressure: loop invariants over an arbitrary number of ports / micro-ops / ports per micro-op:
   result[j] = acc(U, j) (ghost: uniform split), fresh list of length |ports|, KeyError exactly for an unknown port.
L  L1 acc >= 0;  L2 acc(U,j) = 0 if no micro-op lists j;  L3 sum_j acc(U,j) = sum_u cycles_u;
   L4 (Hall) for every port set chi: sum_{j in chi} acc(U,j) >= sum_{u confined to chi} cycles_u.
P  _handle_instruction_found, assign_tp_lt (no-mnemonic and unknown branches).
Pb get_throughput_sum (kernel length <= 3, ports <= 3).
B  assign_optimal_throughput (bounded/c01_optimal.py).
"""
import ast
import z3

from pyvc.engine import Engine
from pyvc.runner import Unit, REPO
from pyvc.sym import *  # noqa
from pyvc.bounded import bounded_unit

LEVEL = "proof"
HW = "osaca/semantics/hw_model.py"
AS = "osaca/semantics/arch_semantics.py"
ISA = "osaca/semantics/isa_semantics.py"
IF = "osaca/parser/instruction_form.py"
TRUSTED = [
    "pyvc symbolic semantics of the Python subset; z3 5.1.0",
    "A-float: cycles and pressures are rationals; cycles/len(ports) exact",
    "list.index modelled by its defining property (first occurrence or ValueError)",
]
ASSUMPTIONS = [
    "wf(uops, ports): every micro-op is a pair (cycles >= 0, port collection); a port collection is any sequence of port names (a string of 1-char names or a list)",
    "assign_optimal_throughput is outside the prover's reach (float rounding steps, list.index(max) tie-breaking, deletion while iterating, deepcopy recursion): bounded stand-in only",
    "get_throughput_sum: structural bound kernel length <= 3, ports <= 3 (all values symbolic) - label Pb",
]

I, R, B = z3.IntSort(), z3.RealSort(), z3.BoolSort()


class Ghost:
    """ghost functions of the uniform split, with their unfolding axioms"""

    def __init__(self):
        self.P = z3.Int("P")  # number of ports
        self.U = z3.Int("U")  # number of micro-ops
        self.pl = z3.Function("pl", I, I)  # port list: index -> name
        self.posf = z3.Function("posf", I, I)  # name -> first index in port list or -1 (list.index)
        self.cyc = z3.Function("cyc", I, R)
        self.n = z3.Function("n", I, I)  # ports of micro-op u
        self.pn = z3.Function("pn", I, I, I)  # name of t-th port of micro-op u
        self.w = z3.Function("w", I, I, I, R)
        self.acc = z3.Function("acc", I, I, R)
        u, t, j, k, nm = z3.Ints("u t j k nm")
        self.idx = lambda u_, t_: self.posf(self.pn(u_, t_))
        self.q = lambda u_: self.cyc(u_) / z3.ToReal(self.n(u_))
        self.axioms = [
            # definitional extension: posf is list.index on the port list
            z3.ForAll([nm], z3.Or(
                z3.And(self.posf(nm) >= 0, self.posf(nm) < self.P, self.pl(self.posf(nm)) == nm),
                z3.And(self.posf(nm) == -1, z3.ForAll([k], z3.Implies(z3.And(0 <= k, k < self.P), self.pl(k) != nm))))),
            z3.ForAll([u, j], self.w(u, 0, j) == 0),
            z3.ForAll([u, t, j], z3.Implies(t >= 0, self.w(u, t + 1, j) == self.w(u, t, j) + z3.If(self.idx(u, t) == j, self.q(u), 0))),
            z3.ForAll([j], self.acc(0, j) == 0),
            z3.ForAll([u, j], z3.Implies(u >= 0, self.acc(u + 1, j) == self.acc(u, j) + self.w(u, self.n(u), j))),
        ]
        self.wf = [self.P >= 0, self.U >= 0, z3.ForAll([u], self.n(u) >= 0)]


def avg_unit(res):
    ex = Engine([REPO + "/" + HW])
    G = Ghost()
    fn, _ = ex.find_method("MachineModel", "average_port_pressure")
    ex.index_loops(fn)
    j, s_, u_ = z3.Ints("j s u_")

    def known_before(k, t):
        """all ports of micro-ops < k, and the first t ports of micro-op k, are in the port list"""
        return z3.And(
            z3.ForAll([u_, s_], z3.Implies(z3.And(0 <= u_, u_ < k, 0 <= s_, s_ < G.n(u_)), G.idx(u_, s_) >= 0)),
            z3.ForAll([s_], z3.Implies(z3.And(0 <= s_, s_ < t), G.idx(k, s_) >= 0)),
        )

    def inv_outer(ex_, env, k):
        a = env["average_pressure"]
        return z3.And(a.length == G.P, known_before(k, z3.IntVal(0)),
                      z3.ForAll([j], z3.Implies(z3.And(0 <= j, j < G.P), z3.Select(a.arr, j) == G.acc(k, j))))

    def inv_inner(ex_, env, t):
        a = env["average_pressure"]
        k = env["__k__0"]
        return z3.And(a.length == G.P, known_before(k, t),
                      z3.ForAll([j], z3.Implies(z3.And(0 <= j, j < G.P), z3.Select(a.arr, j) == G.acc(k, j) + G.w(k, t, j))))

    ex.invariants[("average_port_pressure", 0)] = inv_outer
    ex.invariants[("average_port_pressure", 1)] = inv_inner

    def mk_inputs():
        ports = SymSeq(G.P, lambda i: StrId(G.pl(i)))
        ports.index_fn = lambda name_t: G.posf(name_t)
        uops = SymSeq(G.U, lambda u: (SNum(G.cyc(u), False), SymSeq(G.n(u), lambda t, u=u: StrId(G.pn(u, t)))))
        mm = SObj("MachineModel", _data={"ports": ports})
        return mm, uops

    for shape in ("list", "dict"):
        def run():
            mm, uops = mk_inputs()
            arg = uops if shape == "list" else {0: uops}
            ex.extra["uops"] = uops
            return ex.call_method("MachineModel", "average_port_pressure", mm, [arg])

        paths = ex.explore(run, G.axioms + G.wf)

        def post(v, p):
            if not isinstance(v, SymList):
                return False
            return z3.And(v.length == G.P, known_before(G.U, z3.IntVal(0)),
                          z3.ForAll([j], z3.Implies(z3.And(0 <= j, j < G.P), z3.Select(v.arr, j) == G.acc(G.U, j))))

        def exc_ok(p):
            # KeyError exactly for a port that is not in the port list
            if p.outcome[1] != "KeyError":
                return False
            k = p.extra.get("k_at_raise")
            return True if k is None else k

        # record, at the raise site, that the offending port is unknown: the except handler is reached only
        # via ValueError from list.index, i.e. under the path condition posf(name) < 0 -> checked below
        def exc_goal(p):
            if p.outcome[1] != "KeyError":
                return False
            # the path condition must contain a failed lookup: posf(pn(k,t)) < 0 for the current (k,t)
            return z3.Exists([u_, s_], z3.And(0 <= u_, u_ < G.U, 0 <= s_, s_ < G.n(u_), G.idx(u_, s_) < 0))

        n = res.add_paths(paths, post, exc_ok=exc_goal, kind=f"post[{shape}]")
        res.note(f"shape {shape}: {len(paths)} paths, {n} returning")
    return res


def avg_pb_unit(res):
    """Pb floor of average_port_pressure: concrete structure (3 distinct ports; micro-op lists with (1), (2), (1,2), (2,2)
    ports; alternatives dict), all names and cycle counts symbolic.  Gives replayable counterexamples when the
    unbounded obligations are not discharged."""
    ex = Engine([REPO + "/" + HW])
    NP = 3
    pl = [z3.Int(f"port{i}") for i in range(NP)]
    for shape in ((1,), (2,), (1, 2), (2, 2)):
        for as_dict in (False, True):
            cyc = [z3.Real(f"cyc{u}") for u in range(len(shape))]
            pn = [[z3.Int(f"pn{u}_{t}") for t in range(n)] for u, n in enumerate(shape)]

            def run():
                ports = [StrId(x) for x in pl]
                uops = [[SNum(cyc[u], False), [StrId(x) for x in pn[u]]] for u in range(len(shape))]
                mm = SObj("MachineModel", _data={"ports": ports})
                return ex.call_method("MachineModel", "average_port_pressure", mm, [{0: uops} if as_dict else uops])

            pre = [z3.Distinct(pl)] + [c >= 0 for c in cyc]
            paths = ex.explore(run, pre)

            def post(v, p):
                if not isinstance(v, list) or len(v) != NP:
                    return False
                g = []
                for j in range(NP):
                    want = z3.RealVal(0)
                    for u, n in enumerate(shape):
                        for t in range(n):
                            want = want + z3.If(pn[u][t] == pl[j], cyc[u] / n, 0)
                    g.append(real_term(v[j]) == want)
                return z3.And(g)

            def exc_ok(p):
                if p.outcome[1] != "KeyError":
                    return False
                return z3.Or([z3.And([x != q for q in pl]) for row in pn for x in row])

            def conc(m, p):
                val = lambda t: m.eval(t, model_completion=True)
                names = {}
                nm = lambda t: names.setdefault(val(t).as_long(), f"p{len(names)}")
                ports = [nm(x) for x in pl]
                fr = lambda t: str(Fraction(val(t).numerator_as_long(), val(t).denominator_as_long()))
                uops = [[fr(cyc[u]), [nm(x) for x in pn[u]]] for u in range(len(shape))]
                return dict(replay="c01_avg", args=dict(ports=ports, uops=uops, as_dict=as_dict), key="avg-uniform")

            res.add_paths(paths, post, exc_ok=exc_ok, concretize=conc, kind=f"pb{shape}{'d' if as_dict else ''}", label="Pb")
            res.add_diff(paths, "d_c01_avg", lambda m, p: conc(m, p)["args"], limit=12)
    return res


def avg_strings_unit(res):
    """Pb: port collections written as STRINGS are sets of one-character ports, also when the model has a multi-character port
    whose name equals the string (zen3: port pair '12' next to a port named '12'); list-shaped collections name whole ports."""
    ex = Engine([REPO + "/" + HW])
    ports = ["0", "1", "2", "12", "2D"]
    c = [z3.Real(f"c{i}") for i in range(3)]
    cases = [
        ([[0, "12"]], {"1": [(0, 2)], "2": [(0, 2)]}),
        ([[0, ["12"]]], {"12": [(0, 1)]}),
        ([[0, "012"], [1, ["12", "2D"]]], {"0": [(0, 3)], "1": [(0, 3)], "2": [(0, 3)], "12": [(1, 2)], "2D": [(1, 2)]}),
        ([[0, "2"], [1, "12"], [2, ["2", "12"]]], {"2": [(0, 1), (1, 2), (2, 2)], "1": [(1, 2)], "12": [(2, 2)]}),
    ]
    for as_dict in (False, True):
        for uops_t, want in cases:
            def run():
                uops = [[SNum(c[i], False), (list(ps) if isinstance(ps, list) else ps)] for i, ps in uops_t]
                mm = SObj("MachineModel", _data={"ports": list(ports)})
                return ex.call_method("MachineModel", "average_port_pressure", mm, [{0: uops} if as_dict else uops])

            paths = ex.explore(run, [x >= 0 for x in c])

            def post(v, p, want=want):
                if not isinstance(v, list) or len(v) != len(ports):
                    return False
                g = []
                for j, pn in enumerate(ports):
                    t = z3.RealVal(0)
                    for (i, n) in want.get(pn, []):
                        t = t + c[i] / n
                    g.append(real_term(v[j]) == t)
                return z3.And(g)

            def conc(m, p, uops_t=uops_t):
                fr = lambda t: str(Fraction(m.eval(t, model_completion=True).numerator_as_long(), m.eval(t, model_completion=True).denominator_as_long()))
                return dict(replay="c01_avg", key="avg-uniform", args=dict(ports=ports, uops=[[fr(c[i]), ps] for i, ps in uops_t], as_dict=as_dict))

            res.add_paths(paths, post, concretize=conc, kind=f"strings[{uops_t}]", label="Pb")
    return res


def lemma_unit(res):
    """L1-L4 over the ghost functions (inductions: base + step obligations)."""
    G = Ghost()
    ax = list(G.axioms)
    u, t, j, m, k = z3.Ints("u t j m k")
    U0, T0, M0, K0, J0 = z3.Ints("U0 T0 M0 K0 J0")
    chi = z3.Function("chi", I, B)  # a set of port indices
    S = z3.Function("S", I, I, I, R)  # S(u,t,m) = sum_{j<m, chi(j)} w(u,t,j)
    c = z3.Function("c", I, I, R)  # c(u,t) = sum_{s<t} [chi(idx(u,s))] q(u)
    T = z3.Function("T", I, I, R)  # T(k,m) = sum_{j<m, chi(j)} acc(k,j)
    conf = z3.Function("conf", I, R)  # cycles of micro-ops < k confined to chi
    tot = z3.Function("tot", I, R)  # total cycles of micro-ops < k
    allin = z3.Function("allin", I, I, B)
    inlist = lambda u_, t_: z3.And(G.idx(u_, t_) >= 0, G.idx(u_, t_) < G.P)
    ax += [
        z3.ForAll([u, t], S(u, t, 0) == 0),
        z3.ForAll([u, t, m], z3.Implies(m >= 0, S(u, t, m + 1) == S(u, t, m) + z3.If(chi(m), G.w(u, t, m), 0))),
        z3.ForAll([u], c(u, 0) == 0),
        z3.ForAll([u, t], z3.Implies(t >= 0, c(u, t + 1) == c(u, t) + z3.If(chi(G.idx(u, t)), G.q(u), 0))),
        z3.ForAll([k], T(k, 0) == 0),
        z3.ForAll([k, m], z3.Implies(m >= 0, T(k, m + 1) == T(k, m) + z3.If(chi(m), G.acc(k, m), 0))),
        conf(0) == 0,
        z3.ForAll([k], z3.Implies(k >= 0, conf(k + 1) == conf(k) + z3.If(allin(k, G.n(k)), G.cyc(k), 0))),
        tot(0) == 0,
        z3.ForAll([k], z3.Implies(k >= 0, tot(k + 1) == tot(k) + G.cyc(k))),
        z3.ForAll([u], allin(u, 0)),
        z3.ForAll([u, t], z3.Implies(t >= 0, allin(u, t + 1) == z3.And(allin(u, t), chi(G.idx(u, t))))),
    ]
    wf = [G.P >= 0, z3.ForAll([u], z3.And(G.n(u) >= 1, G.cyc(u) >= 0)),
          z3.ForAll([u, t], z3.Implies(z3.And(t >= 0, t < G.n(u)), inlist(u, t)))]
    H = ax + wf

    def prove(name, hyps, goal):
        res.add(name, H + hyps, goal, label="L")

    q0 = G.q(U0)
    # q(u) >= 0 and n*q = cyc (nonlinear step supplied as its own obligation)
    prove("q-nonneg", [], q0 >= 0)
    prove("q-times-n", [], q0 * z3.ToReal(G.n(U0)) == G.cyc(U0))
    # L1: w >= 0, acc >= 0
    prove("L1/w-base", [], G.w(U0, 0, J0) >= 0)
    prove("L1/w-step", [T0 >= 0, q0 >= 0, G.w(U0, T0, J0) >= 0], G.w(U0, T0 + 1, J0) >= 0)
    prove("L1/acc-base", [], G.acc(0, J0) >= 0)
    prove("L1/acc-step", [K0 >= 0, G.acc(K0, J0) >= 0, G.w(K0, G.n(K0), J0) >= 0], G.acc(K0 + 1, J0) >= 0)
    # L2: a port no micro-op lists gets nothing
    nolist = lambda uu, tt: z3.ForAll([t], z3.Implies(z3.And(0 <= t, t < tt), G.idx(uu, t) != J0))
    prove("L2/w-base", [], G.w(U0, 0, J0) == 0)
    prove("L2/w-step", [T0 >= 0, z3.Implies(nolist(U0, T0), G.w(U0, T0, J0) == 0), nolist(U0, T0 + 1)], G.w(U0, T0 + 1, J0) == 0)
    nolist_all = lambda kk: z3.ForAll([u, t], z3.Implies(z3.And(0 <= u, u < kk, 0 <= t, t < G.n(u)), G.idx(u, t) != J0))
    prove("L2/acc-base", [], G.acc(0, J0) == 0)
    prove("L2/acc-step", [K0 >= 0, z3.Implies(nolist_all(K0), G.acc(K0, J0) == 0), nolist_all(K0 + 1),
                          z3.Implies(nolist(K0, G.n(K0)), G.w(K0, G.n(K0), J0) == 0)], G.acc(K0 + 1, J0) == 0)
    # Lemma A: S(u,t+1,m) = S(u,t,m) + [idx(u,t) < m and chi(idx(u,t))] q(u)      (induction on m)
    hit = lambda mm: z3.If(z3.And(G.idx(U0, T0) < mm, chi(G.idx(U0, T0))), q0, 0)
    prove("A/base", [T0 >= 0, T0 < G.n(U0)], S(U0, T0 + 1, 0) == S(U0, T0, 0) + hit(0))
    prove("A/step", [T0 >= 0, T0 < G.n(U0), M0 >= 0, S(U0, T0 + 1, M0) == S(U0, T0, M0) + hit(M0)],
          S(U0, T0 + 1, M0 + 1) == S(U0, T0, M0 + 1) + hit(M0 + 1))
    # Lemma B: S(u,t,P) = c(u,t)                                                   (induction on t, uses A at m = P)
    prove("B/S0-base", [], S(U0, 0, 0) == 0)
    prove("B/S0-step", [M0 >= 0, S(U0, 0, M0) == 0], S(U0, 0, M0 + 1) == 0)
    prove("B/base", [S(U0, 0, G.P) == 0], S(U0, 0, G.P) == c(U0, 0))
    prove("B/step", [T0 >= 0, T0 < G.n(U0), S(U0, T0, G.P) == c(U0, T0), S(U0, T0 + 1, G.P) == S(U0, T0, G.P) + hit(G.P)],
          S(U0, T0 + 1, G.P) == c(U0, T0 + 1))
    # Lemma C: c >= 0; all first t ports in chi  ->  c(u,t) = t q(u)
    prove("C/nonneg-base", [], c(U0, 0) >= 0)
    prove("C/nonneg-step", [T0 >= 0, c(U0, T0) >= 0, q0 >= 0], c(U0, T0 + 1) >= 0)
    prove("C/allin-base", [], z3.Implies(allin(U0, 0), c(U0, 0) == 0 * q0))
    prove("C/allin-step", [T0 >= 0, z3.Implies(allin(U0, T0), c(U0, T0) == z3.ToReal(T0) * q0)],
          z3.Implies(allin(U0, T0 + 1), c(U0, T0 + 1) == z3.ToReal(T0 + 1) * q0))
    # Lemma D: T(k+1,m) = T(k,m) + S(k,n(k),m)                                     (induction on m)
    prove("D/base", [K0 >= 0], T(K0 + 1, 0) == T(K0, 0) + S(K0, G.n(K0), 0))
    prove("D/step", [K0 >= 0, M0 >= 0, T(K0 + 1, M0) == T(K0, M0) + S(K0, G.n(K0), M0)],
          T(K0 + 1, M0 + 1) == T(K0, M0 + 1) + S(K0, G.n(K0), M0 + 1))
    # L4 (Hall): T(k,P) >= conf(k)                                                  (induction on k)
    prove("L4/base", [T(0, 0) == 0], conf(0) <= 0)
    prove("L4/T0-step", [M0 >= 0, T(0, M0) == 0], T(0, M0 + 1) == 0)
    prove("L4/step", [K0 >= 0, T(K0, G.P) >= conf(K0), T(K0 + 1, G.P) == T(K0, G.P) + S(K0, G.n(K0), G.P),
                      S(K0, G.n(K0), G.P) == c(K0, G.n(K0)), c(K0, G.n(K0)) >= 0,
                      z3.Implies(allin(K0, G.n(K0)), c(K0, G.n(K0)) == z3.ToReal(G.n(K0)) * G.q(K0)),
                      G.q(K0) * z3.ToReal(G.n(K0)) == G.cyc(K0)], T(K0 + 1, G.P) >= conf(K0 + 1))
    # L3: with chi = everything, T(k,P) = tot(k)                                    (induction on k)
    allchi = z3.ForAll([j], chi(j))
    prove("L3/allin-step", [allchi, T0 >= 0, allin(U0, T0)], allin(U0, T0 + 1))
    prove("L3/c-full", [allchi, allin(K0, G.n(K0)), z3.Implies(allin(K0, G.n(K0)), c(K0, G.n(K0)) == z3.ToReal(G.n(K0)) * G.q(K0)),
                        G.q(K0) * z3.ToReal(G.n(K0)) == G.cyc(K0)], c(K0, G.n(K0)) == G.cyc(K0))
    prove("L3/step", [allchi, K0 >= 0, T(K0, G.P) == tot(K0), T(K0 + 1, G.P) == T(K0, G.P) + S(K0, G.n(K0), G.P),
                      S(K0, G.n(K0), G.P) == c(K0, G.n(K0)), c(K0, G.n(K0)) == G.cyc(K0)], T(K0 + 1, G.P) == tot(K0 + 1))
    return res


FLAGS = dict(LD="is_load_instruction", TP="tp_unknown", LT="lt_unknown", NB="not_bound", HAS_LD="performs_load", HAS_ST="performs_store")
SEM_FILES = ["osaca/parser/operand.py", "osaca/parser/register.py", "osaca/parser/memory.py", "osaca/parser/immediate.py",
             IF, HW, ISA, AS]


def sem_engine():
    ex = Engine([REPO + "/" + f for f in SEM_FILES])
    ex.no_init |= {"ParserX86ATT", "ParserAArch64", "MachineModel"}
    return ex


def new_iform(ex, **kw):
    return ex.instantiate("InstructionForm", kw=kw)


def handle_found_unit(res):
    """_handle_instruction_found: pressure = uniform split of the matched entry's micro-ops, micro-op list shared by
    identity, zero vector + tp_unknown when the vector has the wrong length, None throughput/latency -> 0.0 + flag."""
    ex = sem_engine()
    P, PN = z3.Int("P"), z3.Int("port_number")
    arr = z3.Array("pp", I, R)
    total = z3.Real("pp_sum")
    for tp_none in (False, True):
        for lt_none in (False, True):
            for has_ld in (False, True):
                def run():
                    pp = SymList(arr, P, False)
                    pp.sum_fn = lambda ex_: SNum(total, False)
                    uops = SymSeq(z3.Int("U"), lambda i: (SNum(z3.Real("c"), False), "0"))
                    ex.abstract["average_port_pressure"] = lambda ex_, so, a, kw: pp if a[0] is uops else ex_.oblige("avg-arg", False)
                    mm = SObj("MachineModel", _data={})
                    sem = SObj("ArchSemantics", _machine_model=mm, _isa="x86")
                    data = new_iform(ex, mnemonic="ADD", throughput=None if tp_none else SNum(z3.Real("tp"), False),
                                     latency=None if lt_none else SNum(z3.Real("lat"), False), port_pressure=uops)
                    iform = new_iform(ex, mnemonic="add")
                    iform.fields["_flags"] = [FLAGS["HAS_LD"]] if has_ld else []
                    flags = []
                    ex.extra.update(pp=pp, uops=uops, iform=iform, flags=flags, data=data)
                    return ex.call_method("ArchSemantics", "_handle_instruction_found", sem, [data, SNum(PN, True), iform, flags])

                paths = ex.explore(run, [P >= 0, PN >= 0])

                def post(v, p):
                    e = p.extra
                    f, fl = e["iform"].fields, e["flags"]
                    if not (isinstance(v, tuple) and len(v) == 4):
                        return False
                    tp, vpp, lat, lwl = v
                    g = []
                    okshape = P == PN
                    good = f["_port_pressure"] is e["pp"] and f["_port_uops"] is e["uops"]
                    zero = isinstance(f["_port_pressure"], SymSeq) and f["_port_uops"] == []
                    g.append(z3.If(okshape, z3.BoolVal(good and FLAGS["TP"] not in fl or (good and tp_none)), z3.BoolVal(zero and FLAGS["TP"] in fl)))
                    if zero:
                        zz = f["_port_pressure"]
                        jj = z3.Int("jj")
                        g.append(z3.And(zz.length == PN, z3.ForAll([jj], z3.Implies(z3.And(0 <= jj, jj < PN), real_term(zz.at(jj)) == 0))))
                    g.append(z3.BoolVal(vpp is e["pp"]))
                    g.append(z3.BoolVal((FLAGS["TP"] in fl) == (tp_none or zero)))
                    g.append(z3.BoolVal((FLAGS["LT"] in fl) == lt_none))
                    g.append(z3.BoolVal((FLAGS["LD"] in fl) == has_ld))
                    g.append(ex.eq_term(tp, Fraction(0)) if tp_none else ex.eq_term(tp, e["data"].fields["_throughput"]))
                    g.append(ex.eq_term(lat, Fraction(0)) if lt_none else ex.eq_term(lat, e["data"].fields["_latency"]))
                    g.append(ex.eq_term(lwl, lat))
                    if not tp_none:
                        g.append(z3.Implies(okshape, z3.BoolVal(FLAGS["NB"] in fl) == (total == 0)))
                    else:
                        g.append(z3.BoolVal(FLAGS["NB"] not in fl))
                    return z3.And(g)

                res.add_paths(paths, post, kind=f"post[tpNone={tp_none},ltNone={lt_none},ld={has_ld}]")
    return res


def tp_lt_trivial_unit(res):
    """assign_tp_lt: a line without mnemonic and an instruction unknown to the model (and to the register-form
    composition) get a zero pressure vector of length |ports|, throughput 0.0 (so they are excluded from the
    totals) and latency 0; the unknown instruction carries both *_unknown flags."""
    ex = sem_engine()
    P = z3.Int("P")
    jj = z3.Int("jj")

    def zero_vec(v):
        return isinstance(v, SymSeq) and z3.And(v.length == P, z3.ForAll([jj], z3.Implies(z3.And(0 <= jj, jj < P), real_term(v.at(jj)) == 0)))

    for isa in ("x86", "aarch64"):
        for case in ("nomnemonic", "unknown", "unknown+ld", "unknown+st"):
            def run():
                ports = SymSeq(P, lambda i: StrId(z3.Select(z3.Array("pl", I, I), i)))
                mm = SObj("MachineModel", _data={"ports": ports, "isa": isa})
                sem = SObj("ArchSemantics", _machine_model=mm, _isa=isa, _parser=SObj("ParserX86ATT" if isa == "x86" else "ParserAArch64"))
                ex.abstract["get_instruction"] = lambda ex_, so, a, kw: None
                mn = None
                if case != "nomnemonic":
                    mn = BStr.fresh("mn", 5)
                    ex.assume(z3.And(mn.wf(), mn.length >= 1))
                reg = ex.instantiate("RegisterOperand", kw=dict(name="rax") if isa == "x86" else dict(prefix="x", name="1"))
                mem = ex.instantiate("MemoryOperand", kw=dict(base=reg))
                ops = [reg, mem] if case in ("unknown+ld", "unknown+st") else [reg]
                iform = new_iform(ex, mnemonic=mn, operands=ops)
                iform.fields["_flags"] = {"unknown+ld": [FLAGS["HAS_LD"]], "unknown+st": [FLAGS["HAS_ST"]]}.get(case, [])
                iform.fields["_semantic_operands"] = {"source": [mem] if case == "unknown+ld" else [], "destination": [mem] if case == "unknown+st" else [], "src_dst": []}
                ex.extra["iform"] = iform
                ex.call_method("ArchSemantics", "assign_tp_lt", sem, [iform])
                return iform

            paths = ex.explore(run, [P >= 0])

            def post(v, p):
                f = v.fields
                zv = zero_vec(f["_port_pressure"])
                if zv is False:
                    return False
                g = [zv, ex.eq_term(f["_throughput"], Fraction(0)), ex.eq_term(f["_latency"], Fraction(0)),
                     ex.eq_term(f["_latency_wo_load"], Fraction(0)), z3.BoolVal(f["_port_uops"] == [])]
                unk = FLAGS["TP"] in f["_flags"] and FLAGS["LT"] in f["_flags"]
                g.append(z3.BoolVal(unk == (case != "nomnemonic")))
                return z3.And(g)

            def conc(m, p, isa=isa, case=case):
                n = m.eval(P, model_completion=True).as_long()
                mn = None
                for k_, v_ in p.extra["iform"].fields.items():
                    if k_ == "_mnemonic" and isinstance(v_, BStr):
                        mn = v_.concretize(m)
                return dict(replay="c01_trivial", args=dict(isa=isa, case=case, nports=n, mnemonic=mn), key="tp_lt-trivial")

            res.add_paths(paths, post, concretize=conc, kind=f"{isa}/{case}")
    return res


def tpsum_unit(res):
    """Pb: get_throughput_sum for kernels of <= 3 lines over 3 ports, all values symbolic:
    result[j] = round2(sum of pp_i[j] over the lines with throughput != 0); [] when there is none."""
    ex = sem_engine()
    NP = 3
    for klen in (0, 1, 2, 3):
        pp = [[z3.Real(f"pp{i}_{j}") for j in range(NP)] for i in range(klen)]
        tp = [z3.Real(f"tp{i}") for i in range(klen)]

        class AnyFlags:  # whatever flags the lines carry must not matter for the totals
            def __init__(self, i):
                self.i = i

            def sym_contains(self, ex_, item):
                return SBool(z3.Bool(f"flag_{self.i}_{item}"))

            def sym_iter(self, ex_):
                raise Unsupported("iteration over flags")

        def run():
            kernel = []
            for i in range(klen):
                f = new_iform(ex, mnemonic="x")
                f.fields["_port_pressure"] = [SNum(x, False) for x in pp[i]]
                f.fields["_throughput"] = SNum(tp[i], False)
                f.fields["_flags"] = AnyFlags(i)
                kernel.append(f)
            return ex.call_method("ArchSemantics", "get_throughput_sum", None, [kernel])

        paths = ex.explore(run, [])

        def post(v, p):
            if not isinstance(v, list):
                return False
            anytp = z3.Or([t != 0 for t in tp] + [z3.BoolVal(False)])
            if len(v) == 0:
                return z3.Not(anytp)
            if len(v) != NP:
                return False
            g = [anytp]
            k = z3.Int("kk")
            for j in range(NP):
                tot = z3.RealVal(0)
                for i in range(klen):
                    tot = tot + z3.If(tp[i] != 0, pp[i][j], 0)
                r = real_term(v[j])
                kt = z3.ToInt(r * 100)
                d = tot * 100 - z3.ToReal(kt)
                g.append(z3.And(r * 100 == z3.ToReal(kt), d <= z3.RealVal("1/2"), d >= z3.RealVal("-1/2"),
                                z3.Implies(z3.Or(d == z3.RealVal("1/2"), d == z3.RealVal("-1/2")), kt % 2 == 0)))
            return z3.And(g)

        def conc(m, p):
            fr = lambda t: str(Fraction(m.eval(t, model_completion=True).numerator_as_long(), m.eval(t, model_completion=True).denominator_as_long()))
            return dict(replay="c01_tpsum", args=dict(pp=[[fr(x) for x in row] for row in pp], tp=[fr(t) for t in tp]), key="tpsum")

        res.add_paths(paths, post, concretize=conc, kind=f"klen{klen}", label="Pb")
    return res


def hidden_loads_switch_unit(res):
    """MachineModel.has_hidden_loads: the data-port share of loads is dropped (set_hidden_loads) only for a model that says
    `hidden_loads: true`; a model that does not specify it (key absent, or present without a value as in ivb.yml / snb.yml) or says
    false keeps every load's share - otherwise the per-port values no longer add up to the micro-ops' cycles."""
    ex = sem_engine()
    for case, data in (("absent", {"isa": "x86"}), ("null", {"isa": "x86", "hidden_loads": None}), ("false", {"isa": "x86", "hidden_loads": False}),
                       ("true", {"isa": "x86", "hidden_loads": True})):
        def run(data=data):
            return ex.call_method("MachineModel", "has_hidden_loads", SObj("MachineModel", _data=dict(data)), [])

        paths = ex.explore(run, [])

        def post(v, p, case=case):
            t = v.t if isinstance(v, SBool) else z3.BoolVal(bool(v))
            return t == z3.BoolVal(case == "true")

        res.add_paths(paths, post, kind="hidden_loads=" + case)
    return res


def _composition_units():
    """memory forms composed from a register form: pressure = register form + load multiplier x load row + store multiplier x
    store row (the 'documented load/store multiplier' clause of the statement) - the C08 contracts, part of this check"""
    from .c08 import selection_unit, compose_unit
    return [Unit("C01/composed-forms/multiplier-scaling(any table length)/x86", selection_unit("x86"), "P", [(AS, "ArchSemantics.assign_tp_lt")]),
            Unit("C01/composed-forms/multiplier-scaling(any table length)/aarch64", selection_unit("aarch64"), "P", [(AS, "ArchSemantics.assign_tp_lt")]),
            Unit("C01/composed-forms/scenarios/x86", compose_unit("x86"), "Pb", [(AS, "ArchSemantics.assign_tp_lt")], timeout=1500),
            Unit("C01/composed-forms/scenarios/aarch64", compose_unit("aarch64"), "Pb", [(AS, "ArchSemantics.assign_tp_lt")], timeout=1500)]


def _inspect_unit():
    from .c11 import inspect_selection_unit
    return inspect_selection_unit


def units(tier):
    return [
        Unit("C01/inspect/two-balancing-passes-iff-not-fixed", _inspect_unit(), "P", [("osaca/osaca.py", "inspect")], decisive=False),
        Unit("C01/average_port_pressure", avg_unit, "P", [(HW, "MachineModel.average_port_pressure")]),
        Unit("C01/average_port_pressure/Pb-floor", avg_pb_unit, "Pb", [(HW, "MachineModel.average_port_pressure")]),
        Unit("C01/average_port_pressure/string-port-sets", avg_strings_unit, "Pb", [(HW, "MachineModel.average_port_pressure")]),
        Unit("C01/lemmas/uniform-split-feasible", lemma_unit, "L", []),
        Unit("C01/_handle_instruction_found", handle_found_unit, "P", [(AS, "ArchSemantics._handle_instruction_found")]),
        Unit("C01/assign_tp_lt/no-data-branches", tp_lt_trivial_unit, "P", [(AS, "ArchSemantics.assign_tp_lt")]),
        Unit("C01/has_hidden_loads(only a model that says so)", hidden_loads_switch_unit, "P", [(HW, "MachineModel.has_hidden_loads")]),
        Unit("C01/get_throughput_sum", tpsum_unit, "Pb", [(AS, "ArchSemantics.get_throughput_sum")]),
    ] + _composition_units() + [
        bounded_unit("C01/assign_optimal_throughput/feasibility", "c01_optimal", [(AS, "ArchSemantics.assign_optimal_throughput")],
                     extra_args=["c01"], timeout=1500),
        bounded_unit("C01/synthetic-model-files-through-the-pipeline", "c01_models", [(AS, "ArchSemantics.assign_optimal_throughput"), (AS, "ArchSemantics.assign_tp_lt"),
                     (HW, "MachineModel.average_port_pressure"), (HW, "MachineModel.__init__")], timeout=1500),
    ]
