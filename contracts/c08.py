"""C08 - memory-operand forms compose register-form data with load/store data.     (also carries C18's frame obligations)

Pb ArchSemantics.assign_tp_lt, composition branch, executed through the REAL get_load_throughput / get_store_throughput /
   get_load_latency / _match_mem_entries / _is_x86_mem_type / _is_AArch64_mem_type / _check_operands / average_port_pressure /
   get_reg_type / operand constructors, on scenarios with concrete STRUCTURE (roles load / store / read-modify-write, load and
   store tables with typed, untyped, non-matching rows and defaults, optional multipliers, 1-2 micro-ops, entry found under the
   full mnemonic / only without AT&T size suffix / only without AArch64 '.suffix' / not at all, missing latency/throughput)
   and SYMBOLIC cycle counts, latencies, throughputs, multipliers.  Postcondition = the statement: micro-ops = reg ++ load ++
   store, pressure = sum of the uniform splits (x multiplier), latency = reg + load latency of the register type,
   latency_wo_load = reg, throughput = max(reg throughput, busiest data port), no unknown flags; neither form -> both unknown
   flags, zero vector, zero latency.
P  frame (shared with C18): nothing reachable from the machine model or from the matched entries changes.
B  the real add_semantics on a curated vocabulary x shipped models vs. an independent recomputation from the plain YAML
   (bounded/c08_compose.py), analysed twice in one process (a second analysis must give the same numbers).
"""
import itertools
import z3

from pyvc.engine import Engine
from pyvc.runner import Unit, REPO
from pyvc.sym import *  # noqa
from pyvc.bounded import bounded_unit

LEVEL = "proof"
AS = "osaca/semantics/arch_semantics.py"
HW = "osaca/semantics/hw_model.py"
ISA = "osaca/semantics/isa_semantics.py"
FILES = ["osaca/parser/operand.py", "osaca/parser/register.py", "osaca/parser/memory.py", "osaca/parser/immediate.py", "osaca/parser/identifier.py",
         "osaca/parser/condition.py", "osaca/parser/prefetch.py", "osaca/parser/flag.py", "osaca/parser/instruction_form.py",
         "osaca/parser/base_parser.py", "osaca/parser/parser_x86att.py", "osaca/parser/parser_AArch64.py", HW, ISA, AS]
TRUSTED = ["pyvc symbolic semantics incl. Python object identity / in-place list operations; z3 5.1.0", "A-float"]
ASSUMPTIONS = [
    "structure of the scenarios is bounded (tables <= 2 rows + default, <= 2 micro-ops per list, one memory operand); all numeric values symbolic - label Pb",
    "get_instruction enters through its contract (C07): it returns the entry for the operand list it matches, None otherwise",
    "store latency is 0 by the model code (get_store_latency), as the statement only adds the load latency",
]
PORTS = ["0", "1", "2", "2D", "3", "3D", "4"]
FL = dict(HAS_LD="performs_load", HAS_ST="performs_store", TP="tp_unknown", LT="lt_unknown", LD="is_load_instruction")


def snapshot(v, memo=None):
    if isinstance(v, SObj):
        return ("obj", v.cls, id(v), {k: snapshot(x) for k, x in v.fields.items()})
    if isinstance(v, (list, tuple)):
        return ("seq", id(v), [snapshot(x) for x in v])
    if isinstance(v, dict):
        return ("dict", id(v), {k: snapshot(x) for k, x in v.items()})
    return ("leaf", v)


def same(a, b, path=""):
    if a[0] != b[0]:
        return [path + ": kind changed"]
    if a[0] == "leaf":
        x, y = a[1], b[1]
        if isinstance(x, (SNum, SBool)) and isinstance(y, (SNum, SBool)):
            return [] if x.t.eq(y.t) else [path + ": value changed"]
        return [] if (x is y or (type(x) is type(y) and x == y)) else [path + f": {x!r} -> {y!r}"]
    if a[0] == "obj":
        if a[1] != b[1] or a[2] != b[2]:
            return [path + ": object replaced"]
        return same(("dict", 0, a[3]), ("dict", 0, b[3]), path)
    if a[0] == "seq":
        if len(a[2]) != len(b[2]):
            return [path + f": length {len(a[2])} -> {len(b[2])}"]
        return sum([same(x, y, path + f"[{i}]") for i, (x, y) in enumerate(zip(a[2], b[2]))], [])
    if a[0] == "dict":
        if set(a[2]) != set(b[2]):
            return [path + ": keys changed"]
        return sum([same(a[2][k], b[2][k], path + "." + str(k)) for k in a[2]], [])
    return []


def avg(uops):
    """uniform split of a concrete-structure micro-op list over PORTS -> list of z3 Real terms"""
    out = [z3.RealVal(0)] * len(PORTS)
    for cyc, ports in uops:
        ports = list(ports)
        for p in ports:
            i = PORTS.index(p)
            out[i] = out[i] + real_term(cyc) / len(ports)
    return out


SCENARIOS = []
for isa in ("x86", "aarch64"):
    for role in ("load", "store", "rmw"):
        for tables in ("typed", "untyped", "default", "typed-second"):
            for mult in (False, True):
                if mult and tables != "typed":
                    continue
                for found in ("full", "suffix", "none"):
                    if found != "full" and tables != "typed":
                        continue
                    for missing in ("none", "lat", "tp"):
                        if missing != "none" and (tables != "typed" or found != "full" or mult):
                            continue
                        SCENARIOS.append(dict(isa=isa, role=role, tables=tables, mult=mult, found=found, missing=missing))


def compose_unit(isa):
    def unit(res):
        ex = Engine([REPO + "/" + f for f in FILES])
        ex.no_init |= {"ParserX86ATT", "ParserAArch64", "MachineModel"}
        for sc in [s for s in SCENARIOS if s["isa"] == isa]:
            role, tables, mult, found, missing = sc["role"], sc["tables"], sc["mult"], sc["found"], sc["missing"]
            R = {n: z3.Real(n) for n in ("lc1", "lc2", "sc1", "sc2", "dl", "ds", "ll", "tp", "lat", "rc1", "rc2", "ml", "ms")}
            pre = [v >= 0 for v in R.values()]
            rt = "gpr" if isa == "x86" else "x"  # register type of the data register

            def run():
                new = lambda c, **kw: ex.instantiate(c, kw=kw)
                reg = (lambda n: new("RegisterOperand", name=n)) if isa == "x86" else (lambda n: new("RegisterOperand", prefix="x", name=n))
                sn = lambda k: SNum(R[k], False)
                Mrow = lambda **kw: new("MemoryOperand", **kw)
                addr = dict(base="gpr", offset="imd", index=None, scale=1) if isa == "x86" else dict(base="x", offset="imd", index=None, scale=1)
                other = dict(base="gpr", offset=None, index="gpr", scale=8) if isa == "x86" else dict(base="x", offset=None, index="x", scale=8)
                l_typed = (Mrow(dst=rt, **addr), [[sn("lc1"), "23"], [1, ["2D", "3D"]]])
                l_othert = (Mrow(dst="xmm" if isa == "x86" else "q", **addr), [[sn("lc2"), "2"]])
                l_untyped = (Mrow(**addr), [[sn("lc2"), "23"]])
                l_nomatch = (Mrow(dst=rt, **other), [[7, "0"]])
                s_typed = (Mrow(src=rt, **addr), [[sn("sc1"), "23"], [1, ["4"]]])
                s_othert = (Mrow(src="xmm" if isa == "x86" else "q", **addr), [[sn("sc2"), "4"]])
                s_untyped = (Mrow(**addr), [[sn("sc2"), "4"]])
                s_nomatch = (Mrow(src=rt, **other), [[7, "0"]])
                lrows = {"typed": [l_nomatch, l_typed], "typed-second": [l_othert, l_typed], "untyped": [l_nomatch, l_untyped], "default": [l_nomatch]}[tables]
                srows = {"typed": [s_nomatch, s_typed], "typed-second": [s_othert, s_typed], "untyped": [s_nomatch, s_untyped], "default": [s_nomatch]}[tables]
                data = {"isa": isa, "ports": list(PORTS), "load_latency": {rt: sn("ll"), "xmm": 9, "q": 9},
                        "load_throughput": lrows, "load_throughput_default": [[sn("dl"), "23"]],
                        "store_throughput": srows, "store_throughput_default": [[sn("ds"), "23"], [1, "4"]]}
                if mult:
                    data["load_throughput_multiplier"] = {rt: sn("ml")}
                    data["store_throughput_multiplier"] = {rt: sn("ms")}
                mm = SObj("MachineModel", _data=data)
                uops = [[sn("rc1"), "01"], [sn("rc2"), "0"]]
                mn_full = "addq" if isa == "x86" else "add.s"
                entry = new("InstructionForm", mnemonic="ADD", operands=[reg("gpr") if isa == "x86" else new("RegisterOperand", prefix="x"),
                                                                           reg("gpr") if isa == "x86" else new("RegisterOperand", prefix="x")],
                            throughput=None if missing == "tp" else sn("tp"), latency=None if missing == "lat" else sn("lat"), port_pressure=uops)
                parser = SObj("ParserX86ATT" if isa == "x86" else "ParserAArch64")
                sem = SObj("ArchSemantics", _machine_model=mm, _isa=isa, _parser=parser)
                mem = Mrow(offset=new("ImmediateOperand", value=SNum(z3.Int("disp"), True)), base=reg("rbx" if isa == "x86" else "2"))
                data_reg = reg("rax" if isa == "x86" else "1")
                ops = [data_reg, mem] if isa == "x86" else [data_reg, mem]
                iform = new("InstructionForm", mnemonic=mn_full, operands=ops, line="add ...", line_number=1)
                so = {"load": {"source": [mem], "destination": [data_reg], "src_dst": []},
                      "store": {"source": [data_reg], "destination": [mem], "src_dst": []},
                      "rmw": {"source": [data_reg], "destination": [], "src_dst": [mem]}}[role]
                iform.fields["_semantic_operands"] = so
                iform.fields["_flags"] = {"load": [FL["HAS_LD"]], "store": [FL["HAS_ST"]], "rmw": [FL["HAS_LD"], FL["HAS_ST"]]}[role]
                calls = []

                def get_instruction(ex_, so_, a, kw):
                    name, operands = a
                    calls.append((name, operands))
                    has_mem = any(isinstance(o, SObj) and o.cls == "MemoryOperand" for o in operands)
                    if has_mem or found == "none":
                        return None
                    short = name in ("add", "ADD")
                    if found == "full" or (found == "suffix" and short):
                        return entry
                    return None

                ex.abstract["get_instruction"] = get_instruction
                before = snapshot(mm.fields["_data"])
                ebefore = snapshot(entry)
                ex.call_method("ArchSemantics", "assign_tp_lt", sem, [iform])
                ex.extra.update(frame=same(before, snapshot(mm.fields["_data"]), "model") + same(ebefore, snapshot(entry), "entry"), iform=iform,
                                lrows=lrows, srows=srows, uops=uops, data=data, calls=calls)
                return iform

            paths = ex.explore(run, pre)

            def post(v, p, sc=sc):
                f = v.fields
                e = p.extra
                if found == "none":
                    zero = isinstance(f["_port_pressure"], list) and len(f["_port_pressure"]) == len(PORTS)
                    g = [z3.BoolVal(zero and FL["TP"] in f["_flags"] and FL["LT"] in f["_flags"])]
                    if zero:
                        g += [real_term(x) == 0 for x in f["_port_pressure"]]
                    g += [ex.eq_term(f["_throughput"], Fraction(0)), ex.eq_term(f["_latency"], Fraction(0)), ex.eq_term(f["_latency_wo_load"], Fraction(0))]
                    return z3.And(g)
                # expected rows
                load_uops = e["data"]["load_throughput_default"] if tables == "default" else e["lrows"][1][1]
                store_uops = e["data"]["store_throughput_default"] if tables in ("default", "untyped") else e["srows"][1][1]
                exp_uops = list(e["uops"]) + (list(load_uops) if role in ("load", "rmw") else []) + (list(store_uops) if role in ("store", "rmw") else [])
                got_uops = f["_port_uops"]
                g = [z3.BoolVal(isinstance(got_uops, list) and len(got_uops) == len(exp_uops) and all(a is b for a, b in zip(got_uops, exp_uops)))]
                lp = avg(load_uops) if role in ("load", "rmw") else [z3.RealVal(0)] * len(PORTS)
                sp = avg(store_uops) if role in ("store", "rmw") else [z3.RealVal(0)] * len(PORTS)
                if mult:
                    lp = [x * R["ml"] for x in lp]
                    sp = [x * R["ms"] for x in sp]
                rp = avg(e["uops"])
                datap = [a + b for a, b in zip(lp, sp)]
                pp = f["_port_pressure"]
                if not (isinstance(pp, list) and len(pp) == len(PORTS)):
                    return False
                g += [real_term(pp[i]) == rp[i] + datap[i] for i in range(len(PORTS))]
                lat0 = z3.RealVal(0) if missing == "lat" else R["lat"]
                tp0 = z3.RealVal(0) if missing == "tp" else R["tp"]
                g.append(real_term(f["_latency"]) == lat0 + (R["ll"] if role in ("load", "rmw") else 0))
                g.append(real_term(f["_latency_wo_load"]) == lat0)
                mx = datap[0]
                for x in datap[1:]:
                    mx = z3.If(x > mx, x, mx)
                g.append(real_term(f["_throughput"]) == z3.If(tp0 > mx, tp0, mx))
                g.append(z3.BoolVal((FL["TP"] in f["_flags"]) == (missing == "tp") and (FL["LT"] in f["_flags"]) == (missing == "lat")))
                return z3.And(g)

            tag = f"{role}/{tables}/mult={int(mult)}/{found}/missing={missing}"
            res.add_paths(paths, post, kind=tag, label="Pb")
            for p in paths:
                if p.outcome[0] == "ret":
                    res.add("frame[" + tag + "]", p.pc, len(p.extra["frame"]) == 0, label="P").update(detail="; ".join(p.extra["frame"][:3]) or None)
        return res

    return unit


def units(tier):
    return [
        Unit("C08/assign_tp_lt/composition/x86", compose_unit("x86"), "Pb",
             [(AS, "ArchSemantics.assign_tp_lt"), (HW, "MachineModel.get_load_throughput"), (HW, "MachineModel.get_store_throughput"), (HW, "MachineModel.get_load_latency"),
              (HW, "MachineModel._match_mem_entries"), (HW, "MachineModel.average_port_pressure"), (ISA, "ISASemantics.substitute_mem_address")], timeout=1500),
        Unit("C08/assign_tp_lt/composition/aarch64", compose_unit("aarch64"), "Pb",
             [(AS, "ArchSemantics.assign_tp_lt"), (HW, "MachineModel.get_load_throughput"), (HW, "MachineModel.get_store_throughput")], timeout=1500),
        bounded_unit("C08/composition-vs-yaml-recomputation", "c08_compose", [(AS, "ArchSemantics.assign_tp_lt"), (AS, "ArchSemantics.add_semantics"), (HW, "MachineModel.__init__")], timeout=2400),
    ]
