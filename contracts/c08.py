"""C08 - memory-operand forms compose register-form data with load/store data.     (also carries C18's frame obligations)

Pb ArchSemantics.assign_tp_lt, composition branch, executed through the REAL get_load_throughput / get_store_throughput /
   get_load_latency / _match_mem_entries / _is_x86_mem_type / _is_AArch64_mem_type / _check_operands / average_port_pressure /
   get_reg_type / operand constructors, on scenarios with concrete STRUCTURE (roles load / store / read-modify-write, load and
   store tables with typed, untyped, non-matching rows and defaults, optional multipliers, 1-2 micro-ops, entry found under the
   full mnemonic / only without AT&T size suffix / only without AArch64 '.suffix' / not at all, missing latency/throughput)
   and SYMBOLIC cycle counts, latencies, throughputs, multipliers.  Postcondition = the statement: micro-ops = reg ++ load ++
   store, pressure = sum of the uniform splits (x multiplier), latency = reg + load latency of the register type,
   latency_wo_load = reg, throughput = max(reg throughput, busiest data port), no unknown flags; neither form -> both unknown
   flags, zero vector, zero latency.
P  frame (shared with C18): nothing reachable from the machine model or from the matched entries changes.
B  the real add_semantics on a curated vocabulary x shipped models vs. an independent recomputation from the plain YAML
   (bounded/c08_compose.py), analysed twice in one process (a second analysis must give the same numbers).
"""
import itertools
import z3

from pyvc.engine import Engine
from pyvc.runner import Unit, REPO
from pyvc.sym import *  # noqa
from pyvc.bounded import bounded_unit

LEVEL = "proof"
AS = "osaca/semantics/arch_semantics.py"
HW = "osaca/semantics/hw_model.py"
ISA = "osaca/semantics/isa_semantics.py"
FILES = ["osaca/parser/operand.py", "osaca/parser/register.py", "osaca/parser/memory.py", "osaca/parser/immediate.py", "osaca/parser/identifier.py",
         "osaca/parser/condition.py", "osaca/parser/prefetch.py", "osaca/parser/flag.py", "osaca/parser/instruction_form.py",
         "osaca/parser/base_parser.py", "osaca/parser/parser_x86att.py", "osaca/parser/parser_AArch64.py", HW, ISA, AS]
TRUSTED = ["pyvc symbolic semantics incl. Python object identity / in-place list operations; z3 5.1.0", "A-float"]
ASSUMPTIONS = [
    "structure of the scenarios is bounded (tables <= 2 rows + default, <= 2 micro-ops per list, one memory operand); all numeric values symbolic - label Pb",
    "get_instruction enters through its contract (C07): it returns the entry for the operand list it matches, None otherwise",
    "store latency is 0 by the model code (get_store_latency), as the statement only adds the load latency",
]
PORTS = ["0", "1", "2", "2D", "3", "3D", "4"]
FL = dict(HAS_LD="performs_load", HAS_ST="performs_store", TP="tp_unknown", LT="lt_unknown", LD="is_load_instruction")


def snapshot(v, memo=None):
    if isinstance(v, SObj):
        return ("obj", v.cls, id(v), {k: snapshot(x) for k, x in v.fields.items()})
    if isinstance(v, (list, tuple)):
        return ("seq", id(v), [snapshot(x) for x in v])
    if isinstance(v, dict):
        return ("dict", id(v), {k: snapshot(x) for k, x in v.items()})
    return ("leaf", v)


def same(a, b, path=""):
    if a[0] != b[0]:
        return [path + ": kind changed"]
    if a[0] == "leaf":
        x, y = a[1], b[1]
        if isinstance(x, (SNum, SBool)) and isinstance(y, (SNum, SBool)):
            return [] if x.t.eq(y.t) else [path + ": value changed"]
        return [] if (x is y or (type(x) is type(y) and x == y)) else [path + f": {x!r} -> {y!r}"]
    if a[0] == "obj":
        if a[1] != b[1] or a[2] != b[2]:
            return [path + ": object replaced"]
        return same(("dict", 0, a[3]), ("dict", 0, b[3]), path)
    if a[0] == "seq":
        if len(a[2]) != len(b[2]):
            return [path + f": length {len(a[2])} -> {len(b[2])}"]
        return sum([same(x, y, path + f"[{i}]") for i, (x, y) in enumerate(zip(a[2], b[2]))], [])
    if a[0] == "dict":
        if set(a[2]) != set(b[2]):
            return [path + ": keys changed"]
        return sum([same(a[2][k], b[2][k], path + "." + str(k)) for k in a[2]], [])
    return []


def avg(uops):
    """uniform split of a concrete-structure micro-op list over PORTS -> list of z3 Real terms"""
    out = [z3.RealVal(0)] * len(PORTS)
    for cyc, ports in uops:
        ports = list(ports)
        for p in ports:
            i = PORTS.index(p)
            out[i] = out[i] + real_term(cyc) / len(ports)
    return out


SCENARIOS = []
for isa in ("x86", "aarch64"):
    for role in ("load", "store", "rmw"):
        for tables in ("typed", "untyped", "default", "typed-second", "othertyped-then-untyped"):
            for mult in (False, True):
                if mult and tables != "typed":
                    continue
                for found in ("full", "suffix", "none"):
                    if found != "full" and tables != "typed":
                        continue
                    for missing in ("none", "lat", "tp"):
                        if missing != "none" and (tables != "typed" or found != "full" or mult):
                            continue
                        SCENARIOS.append(dict(isa=isa, role=role, tables=tables, mult=mult, found=found, missing=missing))
        # mnemonic written in upper case (statement C07: the mnemonic agrees case-insensitively, with the suffix fall-backs)
        for found in ("full", "suffix"):
            SCENARIOS.append(dict(isa=isa, role=role, tables="typed", mult=False, found=found, missing="none", upper=True))
        # register form with alternative port assignments (a dict of micro-op lists)
        SCENARIOS.append(dict(isa=isa, role=role, tables="typed", mult=False, found="full", missing="none", alternatives=True))


def compose_unit(isa):
    def unit(res):
        ex = Engine([REPO + "/" + f for f in FILES])
        ex.no_init |= {"ParserX86ATT", "ParserAArch64", "MachineModel"}
        for sc in [s for s in SCENARIOS if s["isa"] == isa]:
            role, tables, mult, found, missing = sc["role"], sc["tables"], sc["mult"], sc["found"], sc["missing"]
            alts = sc.get("alternatives", False)
            R = {n: z3.Real(n) for n in ("lc1", "lc2", "sc1", "sc2", "dl", "ds", "ll", "tp", "lat", "rc1", "rc2", "ml", "ms")}
            pre = [v >= 0 for v in R.values()]
            rt = "gpr" if isa == "x86" else "x"  # register type of the data register

            def run():
                new = lambda c, **kw: ex.instantiate(c, kw=kw)
                reg = (lambda n: new("RegisterOperand", name=n)) if isa == "x86" else (lambda n: new("RegisterOperand", prefix="x", name=n))
                sn = lambda k: SNum(R[k], False)
                Mrow = lambda **kw: new("MemoryOperand", **kw)
                addr = dict(base="gpr", offset="imd", index=None, scale=1) if isa == "x86" else dict(base="x", offset="imd", index=None, scale=1)
                other = dict(base="gpr", offset=None, index="gpr", scale=8) if isa == "x86" else dict(base="x", offset=None, index="x", scale=8)
                l_typed = (Mrow(dst=rt, **addr), [[sn("lc1"), "23"], [1, ["2D", "3D"]]])
                l_othert = (Mrow(dst="xmm" if isa == "x86" else "q", **addr), [[sn("lc2"), "2"]])
                l_untyped = (Mrow(**addr), [[sn("lc2"), "23"]])
                l_nomatch = (Mrow(dst=rt, **other), [[7, "0"]])
                s_typed = (Mrow(src=rt, **addr), [[sn("sc1"), "23"], [1, ["4"]]])
                s_othert = (Mrow(src="xmm" if isa == "x86" else "q", **addr), [[sn("sc2"), "4"]])
                s_untyped = (Mrow(**addr), [[sn("sc2"), "4"]])
                s_nomatch = (Mrow(src=rt, **other), [[7, "0"]])
                # "othertyped-then-untyped": a row for ANOTHER register type comes first, the row for every type second: a row typed
                # for another register type is not "the model's micro-ops for its register type" (statement)
                lrows = {"typed": [l_nomatch, l_typed], "typed-second": [l_othert, l_typed], "untyped": [l_nomatch, l_untyped], "default": [l_nomatch],
                         "othertyped-then-untyped": [l_othert, l_untyped]}[tables]
                srows = {"typed": [s_nomatch, s_typed], "typed-second": [s_othert, s_typed], "untyped": [s_nomatch, s_untyped], "default": [s_nomatch],
                         "othertyped-then-untyped": [s_othert, s_untyped]}[tables]
                data = {"isa": isa, "ports": list(PORTS), "load_latency": {rt: sn("ll"), "xmm": 9, "q": 9},
                        "load_throughput": lrows, "load_throughput_default": [[sn("dl"), "23"]],
                        "store_throughput": srows, "store_throughput_default": [[sn("ds"), "23"], [1, "4"]]}
                if mult:
                    data["load_throughput_multiplier"] = {rt: sn("ml")}
                    data["store_throughput_multiplier"] = {rt: sn("ms")}
                mm = SObj("MachineModel", _data=data)
                uops = [[sn("rc1"), "01"], [sn("rc2"), "0"]]
                uops_b = [[sn("rc2"), "1"]]
                entry_uops = {0: uops, 1: uops_b} if alts else uops
                mn_full = "addq" if isa == "x86" else "add.s"
                if sc.get("upper"):
                    mn_full = mn_full.upper()
                entry = new("InstructionForm", mnemonic="ADD", operands=[reg("gpr") if isa == "x86" else new("RegisterOperand", prefix="x"),
                                                                           reg("gpr") if isa == "x86" else new("RegisterOperand", prefix="x")],
                            throughput=None if missing == "tp" else sn("tp"), latency=None if missing == "lat" else sn("lat"), port_pressure=entry_uops)
                parser = SObj("ParserX86ATT" if isa == "x86" else "ParserAArch64")
                sem = SObj("ArchSemantics", _machine_model=mm, _isa=isa, _parser=parser)
                mem = Mrow(offset=new("ImmediateOperand", value=SNum(z3.Int("disp"), True)), base=reg("rbx" if isa == "x86" else "2"))
                data_reg = reg("rax" if isa == "x86" else "1")
                ops = [data_reg, mem] if isa == "x86" else [data_reg, mem]
                iform = new("InstructionForm", mnemonic=mn_full, operands=ops, line="add ...", line_number=1)
                so = {"load": {"source": [mem], "destination": [data_reg], "src_dst": []},
                      "store": {"source": [data_reg], "destination": [mem], "src_dst": []},
                      "rmw": {"source": [data_reg], "destination": [], "src_dst": [mem]}}[role]
                iform.fields["_semantic_operands"] = so
                iform.fields["_flags"] = {"load": [FL["HAS_LD"]], "store": [FL["HAS_ST"]], "rmw": [FL["HAS_LD"], FL["HAS_ST"]]}[role]
                calls = []

                def get_instruction(ex_, so_, a, kw):
                    name, operands = a
                    calls.append((name, operands))
                    has_mem = any(isinstance(o, SObj) and o.cls == "MemoryOperand" for o in operands)
                    if has_mem or found == "none":
                        return None
                    short = name in ("add", "ADD")
                    if found == "full" or (found == "suffix" and short):
                        return entry
                    return None

                ex.abstract["get_instruction"] = get_instruction
                before = snapshot(mm.fields["_data"])
                ebefore = snapshot(entry)
                ex.call_method("ArchSemantics", "assign_tp_lt", sem, [iform])
                ex.extra.update(frame=same(before, snapshot(mm.fields["_data"]), "model") + same(ebefore, snapshot(entry), "entry"), iform=iform,
                                lrows=lrows, srows=srows, uops=uops, uops_b=uops_b, data=data, calls=calls)
                return iform

            paths = ex.explore(run, pre)

            def post(v, p, sc=sc):
                f = v.fields
                e = p.extra
                if found == "none":
                    zero = isinstance(f["_port_pressure"], list) and len(f["_port_pressure"]) == len(PORTS)
                    g = [z3.BoolVal(zero and FL["TP"] in f["_flags"] and FL["LT"] in f["_flags"])]
                    if zero:
                        g += [real_term(x) == 0 for x in f["_port_pressure"]]
                    g += [ex.eq_term(f["_throughput"], Fraction(0)), ex.eq_term(f["_latency"], Fraction(0)), ex.eq_term(f["_latency_wo_load"], Fraction(0))]
                    return z3.And(g)
                # expected rows
                load_uops = e["data"]["load_throughput_default"] if tables == "default" else e["lrows"][1][1]
                store_uops = e["data"]["store_throughput_default"] if tables == "default" else e["srows"][1][1]  # (an untyped row holds for every register type)
                data_uops = (list(load_uops) if role in ("load", "rmw") else []) + (list(store_uops) if role in ("store", "rmw") else [])
                exp_uops = list(e["uops"]) + data_uops
                got_uops = f["_port_uops"]
                same_list = lambda got, exp: isinstance(got, list) and len(got) == len(exp) and all(a is b for a, b in zip(got, exp))
                if alts:
                    # every alternative of the register form is followed by the load/store micro-ops; the pressure is that of option 0
                    g = [z3.BoolVal(isinstance(got_uops, dict) and list(got_uops) == [0, 1] and same_list(got_uops[0], exp_uops) and same_list(got_uops[1], list(e["uops_b"]) + data_uops))]
                else:
                    g = [z3.BoolVal(same_list(got_uops, exp_uops))]
                lp = avg(load_uops) if role in ("load", "rmw") else [z3.RealVal(0)] * len(PORTS)
                sp = avg(store_uops) if role in ("store", "rmw") else [z3.RealVal(0)] * len(PORTS)
                if mult:
                    lp = [x * R["ml"] for x in lp]
                    sp = [x * R["ms"] for x in sp]
                rp = avg(e["uops"])
                datap = [a + b for a, b in zip(lp, sp)]
                pp = f["_port_pressure"]
                if not (isinstance(pp, list) and len(pp) == len(PORTS)):
                    return False
                g += [real_term(pp[i]) == rp[i] + datap[i] for i in range(len(PORTS))]
                lat0 = z3.RealVal(0) if missing == "lat" else R["lat"]
                tp0 = z3.RealVal(0) if missing == "tp" else R["tp"]
                g.append(real_term(f["_latency"]) == lat0 + (R["ll"] if role in ("load", "rmw") else 0))
                g.append(real_term(f["_latency_wo_load"]) == lat0)
                mx = datap[0]
                for x in datap[1:]:
                    mx = z3.If(x > mx, x, mx)
                g.append(real_term(f["_throughput"]) == z3.If(tp0 > mx, tp0, mx))
                g.append(z3.BoolVal((FL["TP"] in f["_flags"]) == (missing == "tp") and (FL["LT"] in f["_flags"]) == (missing == "lat")))
                return z3.And(g)

            tag = f"{role}/{tables}/mult={int(mult)}/{found}/missing={missing}" + ("/alternatives" if alts else "") + ("/upper-case" if sc.get("upper") else "")
            res.add_paths(paths, post, kind=tag, label="Pb")
            for p in paths:
                if p.outcome[0] == "ret":
                    res.add("frame[" + tag + "]", p.pc, len(p.extra["frame"]) == 0, label="P").update(detail="; ".join(p.extra["frame"][:3]) or None)
        return res

    return unit


# ------------------------------------------------------------------ unbounded tables (label P)
I_, B_, R_ = z3.IntSort(), z3.BoolSort(), z3.RealSort()


class OptStr:
    """optional string field of a symbolic row (dst / src register type): `is None` is a term, no fork"""

    def __init__(self, has, code):
        self.has, self.code = has, code

    def sym_is_none(self, ex):
        return z3.Not(self.has)

    def sym_truthy(self, ex):
        return True  # a present type string is non-empty; for an absent one the contract never looks at the value

    def sym_method(self, ex, name, args, kw):
        if name == "lower":
            return self  # the abstract _check_operands contract is stated on the row, case folding is part of it
        raise Unsupported("OptStr." + name)


def table_units(which):
    """P: MachineModel.get_load_throughput / get_store_throughput for tables with ANY number of rows: the result is exactly the
    rows (in order) whose addressing matches (for stores with a source register: those typed for that type, if there is none those
    without a source type);
    if there is none, the pair (memory, copy of the default list).  _match_mem_entries: ISA dispatch and argument order."""
    def unit(res):
        ex = Engine([REPO + "/" + f for f in FILES])
        ex.no_init |= {"ParserX86ATT", "ParserAArch64", "MachineModel"}
        N = z3.Int("rows")
        rowmem = z3.Function("row_mem", I_, I_)
        match = z3.Function("addr_matches", I_, B_)  # _match_mem_entries(memory, row memory operand)
        has_src = z3.Function("row_has_src", I_, B_)
        src_ok = z3.Function("row_src_type_ok", I_, B_)
        rows_sch = Schema("rowmem", ["MemoryOperand"], {"src": ("custom", None), "dst": ("custom", None)})
        rows_sch.fn["src"] = lambda ex_, ref: OptStr(has_src(ref.t), ref.t)
        rows_sch.fn["dst"] = lambda ex_, ref: OptStr(has_src(ref.t), ref.t)
        uops_sch = Schema("rowuops", ["list"], {})
        table = lambda: SymSeq(N, lambda i: (SRef(rowmem(i), rows_sch), SRef(i, uops_sch)))
        memory = SObj("MemoryOperand")
        default = [[1, "23"]]

        def mme(ex_, so, a, kw):
            if a[0] is not memory:
                ex_.oblige("_match_mem_entries/first-argument-is-the-instruction-operand", False)
            return SBool(match(a[1].t))

        ex.abstract["_match_mem_entries"] = mme
        made = []  # (isa argument kind, OptStr) of every RegisterOperand the function builds

        def chk(ex_, so, a, kw):
            if not (isinstance(a[0], SObj) and a[0].cls == "SrcReg"):
                ex_.oblige("_check_operands/first-argument-is-the-source-register", False)
            f = a[1].fields
            v = f.get("_name") if ISA_KIND[0] == "x86" else f.get("_prefix")
            other = f.get("_prefix") if ISA_KIND[0] == "x86" else f.get("_name")
            if not isinstance(v, OptStr) or other is not None:
                ex_.oblige("RegisterOperand/built-with-name-on-x86-and-prefix-on-AArch64", False)
                return SBool(z3.BoolVal(False))
            return SBool(src_ok(v.code))

        ISA_KIND = ["x86"]
        ex.abstract["_check_operands"] = chk
        variants = [("load", None, "x86")] if which == "load" else [("store", False, "x86"), ("store", True, "x86"), ("store", True, "AArch64"), ("store", True, "aarch64")]
        for kind, with_src, isa_ in variants:
            ISA_KIND[0] = isa_.lower()

            def run():
                data = {"isa": isa_, "load_throughput": table(), "store_throughput": table(), "load_throughput_default": default, "store_throughput_default": default}
                mm = SObj("MachineModel", _data=data)
                if kind == "load":
                    return ex.call_method("MachineModel", "get_load_throughput", mm, [memory])
                return ex.call_method("MachineModel", "get_store_throughput", mm, [memory] + ([SObj("SrcReg")] if with_src else []))

            paths = ex.explore(run, [N >= 0])
            j, k = z3.Ints("j k")
            if not with_src:
                sel = lambda i: match(rowmem(i))
            else:
                # typed rows of the data register's type; if there is none, the rows without a source type (they hold for every type)
                typed = lambda i: z3.And(match(rowmem(i)), has_src(rowmem(i)), src_ok(rowmem(i)))
                jt = z3.Int("jt")
                anytyped = z3.Exists([jt], z3.And(0 <= jt, jt < N, typed(jt)))
                sel = lambda i: z3.If(anytyped, typed(i), z3.And(match(rowmem(i)), z3.Not(has_src(rowmem(i)))))
            anysel = z3.Exists([j], z3.And(0 <= j, j < N, sel(j)))

            def post(v, p):
                if isinstance(v, SymSeq):
                    # non-empty, every element is a selected row, order preserved, every selected row is present
                    e = lambda t: v.at(t)[1].t  # row index carried by the micro-op reference
                    return z3.And(anysel, v.length >= 1,
                                  z3.ForAll([j], z3.Implies(z3.And(0 <= j, j < v.length), z3.And(0 <= e(j), e(j) < N, sel(e(j))))),
                                  z3.ForAll([j, k], z3.Implies(z3.And(0 <= j, j < k, k < v.length), e(j) < e(k))),
                                  z3.ForAll([j], z3.Implies(z3.And(0 <= j, j < N, sel(j)), z3.Exists([k], z3.And(0 <= k, k < v.length, e(k) == j)))))
                if isinstance(v, list) and len(v) == 1 and isinstance(v[0], tuple):
                    ok = v[0][0] is memory and v[0][1] is not default and v[0][1] == default
                    return z3.And(z3.Not(anysel), z3.BoolVal(ok))
                return False

            res.add_paths(paths, post, kind=f"{kind}/{isa_}/src_reg={with_src}")
        # _match_mem_entries itself
        del ex.abstract["_match_mem_entries"]
        seen = []
        ex.abstract["_is_x86_mem_type"] = lambda ex_, so, a, kw: seen.append(("x86", a[0], a[1])) or True
        ex.abstract["_is_AArch64_mem_type"] = lambda ex_, so, a, kw: seen.append(("aarch64", a[0], a[1])) or True
        for isa in ("x86", "aarch64", "AArch64", "X86"):
            i_mem = SObj("MemoryOperand")

            def run2():
                seen.clear()
                return ex.call_method("MachineModel", "_match_mem_entries", SObj("MachineModel", _data={"isa": isa}), [memory, i_mem])

            paths = ex.explore(run2, [])
            for p in paths:
                ok = len(seen) == 1 and seen[0][0] == isa.lower() and seen[0][1] is i_mem and seen[0][2] is memory
                res.add(f"_match_mem_entries[{isa}]/entry-first-operand-second", p.pc, bool(ok))
        return res

    return unit


class UL:
    """ghost micro-op list: a concatenation of opaque parts ("E" = the register form's list, ("L", i) = micro-ops of row i of
    what get_load_throughput returned, ("S", i) likewise for stores); identity of parts is what the frame cares about"""

    def __init__(self, parts):
        self.parts = tuple(parts)

    def sym_binop(self, ex, op, other, reflected):
        import ast as _ast
        if not isinstance(op, _ast.Add):
            raise Unsupported("micro-op list operator")
        o = other.parts if isinstance(other, UL) else () if isinstance(other, list) and not other else None
        if o is None:
            raise Unsupported("micro-op list + " + type(other).__name__)
        return UL(o + self.parts if reflected else self.parts + o)

    def sym_chain(self, ex, its):
        out = ()
        for i in its:
            if isinstance(i, UL):
                out += i.parts
            elif isinstance(i, list) and not i:
                pass
            else:
                raise Unsupported("chain of micro-op list with " + type(i).__name__)
        return UL(out)

    def sym_list(self, ex):
        return UL(self.parts)

    def sym_method(self, ex, name, args, kw):
        if name == "copy":
            return UL(self.parts)
        raise Unsupported("micro-op list." + name)


def selection_unit(isa):
    """P: ArchSemantics.assign_tp_lt, composition branch (real code), for load/store tables of ANY length: among the rows that
    get_load_throughput returned (contract: C08/get_load_throughput) the micro-ops of the FIRST row whose destination type is
    given and matches the data register are used, else those of the first row without a type, else those of the first row; for stores the first row returned for
    (memory, data register type); the resulting port pressure is register form + multiplier * load row + multiplier * store
    row and the micro-op list is their concatenation in that order."""
    def unit(res):
        ex = Engine([REPO + "/" + f for f in FILES])
        ex.no_init |= {"ParserX86ATT", "ParserAArch64", "MachineModel"}
        NL, NS = z3.Ints("n_load_rows n_store_rows")
        typed = z3.Function("row_has_dst", I_, B_)
        ok = z3.Function("row_dst_type_ok", I_, B_)
        appL = z3.Function("avg_load_row", I_, I_, R_)
        appS = z3.Function("avg_store_row", I_, I_, R_)
        appE = [z3.Real(f"avg_entry_{j}") for j in range(len(PORTS))]
        rows_sch = Schema("lrow", ["MemoryOperand"], {"dst": ("custom", None), "src": ("custom", None)})
        rows_sch.fn["dst"] = lambda ex_, ref: OptStr(typed(ref.t), ref.t)
        rows_sch.fn["src"] = lambda ex_, ref: OptStr(typed(ref.t), ref.t)
        rt = "gpr" if isa == "x86" else "x"
        for role in ("load", "store", "rmw", "writeback-only" if isa != "x86" else None):
            if role is None:
                continue
            for mult in (False, True):
                R = {n: z3.Real(n) for n in ("ll", "tp", "lat", "ml", "ms")}
                pre = [v >= 0 for v in R.values()] + [NL >= 1, NS >= 1]
                sn = lambda k: SNum(R[k], False)

                def run():
                    new = lambda c, **kw: ex.instantiate(c, kw=kw)
                    reg = (lambda n: new("RegisterOperand", name=n)) if isa == "x86" else (lambda n: new("RegisterOperand", prefix="x", name=n))
                    data = {"isa": isa, "ports": list(PORTS), "load_latency": {rt: sn("ll")}}
                    if mult:
                        data["load_throughput_multiplier"] = {rt: sn("ml")}
                        data["store_throughput_multiplier"] = {rt: sn("ms")}
                    mm = SObj("MachineModel", _data=data)
                    entry_uops = UL(("E",))
                    entry = new("InstructionForm", mnemonic="ADD", operands=[reg("gpr") if isa == "x86" else new("RegisterOperand", prefix="x")] * 2,
                                throughput=sn("tp"), latency=sn("lat"), port_pressure=entry_uops)
                    parser = SObj("ParserX86ATT" if isa == "x86" else "ParserAArch64")
                    sem = SObj("ArchSemantics", _machine_model=mm, _isa=isa, _parser=parser)
                    wb = role == "writeback-only"
                    mem = new("MemoryOperand", offset=new("ImmediateOperand", value=8), base=reg("rbx" if isa == "x86" else "2"), **({"post_indexed": {"value": 8}} if wb else {}))
                    data_reg = reg("rax" if isa == "x86" else "1")
                    iform = new("InstructionForm", mnemonic="addq" if isa == "x86" else "add.s", operands=[data_reg, mem], line="add ...", line_number=1)
                    so = {"load": {"source": [mem], "destination": [data_reg], "src_dst": []},
                          "store": {"source": [data_reg], "destination": [mem], "src_dst": []},
                          "rmw": {"source": [data_reg], "destination": [], "src_dst": [mem]},
                          "writeback-only": {"source": [data_reg], "destination": [], "src_dst": [mem]}}[role]
                    iform.fields["_semantic_operands"] = so
                    iform.fields["_flags"] = {"load": [FL["HAS_LD"]], "store": [FL["HAS_ST"]], "rmw": [FL["HAS_LD"], FL["HAS_ST"]], "writeback-only": [FL["HAS_LD"], FL["HAS_ST"]]}[role]
                    asked = []

                    def get_instruction(ex_, so_, a, kw):
                        name, operands = a
                        if any(isinstance(o, SObj) and o.cls == "MemoryOperand" for o in operands):
                            return None
                        return entry

                    def glt(ex_, so_, a, kw):
                        asked.append(("load", a[0]))
                        return SymSeq(NL, lambda i: (SRef(i, rows_sch), UL((("L", i),))))

                    def gst(ex_, so_, a, kw):
                        asked.append(("store", a[0], a[1] if len(a) > 1 else None))
                        return SymSeq(NS, lambda i: (SRef(i, rows_sch), UL((("S", i),))))

                    def app(ex_, so_, a, kw):
                        u = a[0]
                        if isinstance(u, list) and not u:
                            return [Fraction(0)] * len(PORTS)
                        if isinstance(u, UL) and len(u.parts) == 1:
                            pt = u.parts[0]
                            if pt == "E":
                                return [SNum(x, False) for x in appE]
                            f = appL if pt[0] == "L" else appS
                            return [SNum(f(pt[1], j), False) for j in range(len(PORTS))]
                        raise Unsupported("average_port_pressure of a composite list")

                    def chk(ex_, so_, a, kw):
                        r = a[1]
                        if isinstance(r, OptStr):
                            return SBool(ok(r.code))
                        raise Unsupported("_check_operands on " + type(r).__name__)

                    ex.abstract.update(get_instruction=get_instruction, get_load_throughput=glt, get_store_throughput=gst, average_port_pressure=app,
                                       _check_operands=chk)
                    ex.abstract["_reg_of_type"] = lambda ex_, so_, a, kw: a[0] if isinstance(a[0], OptStr) else ("dummy", a[0])
                    ex.call_method("ArchSemantics", "assign_tp_lt", sem, [iform])
                    ex.extra.update(iform=iform, asked=asked, mem=mem)
                    return iform

                paths = ex.explore(run, pre)

                def post(v, p, role=role, mult=mult):
                    f = v.fields
                    pu = f.get("_port_uops")
                    if not isinstance(pu, UL):
                        return False
                    want_kinds = ["E"] + (["L"] if role != "store" else []) + (["S"] if role in ("store", "rmw") else [])
                    if [x if x == "E" else x[0] for x in pu.parts] != want_kinds:
                        return False
                    g = []
                    j = z3.Int("j")
                    lp = [z3.RealVal(0)] * len(PORTS)
                    sp = [z3.RealVal(0)] * len(PORTS)
                    if role != "store":
                        c = [x for x in pu.parts if x != "E" and x[0] == "L"][0][1]
                        c = c if z3.is_expr(c) else z3.IntVal(c)
                        # statement: the model's load micro-ops "for its addressing mode AND register type": the first row written for
                        # this register type; if there is none, the first row that holds for every type (no type given); only if
                        # there is neither, the first row
                        sel = lambda i: z3.And(typed(i), ok(i))
                        unt = lambda i: z3.Not(typed(i))
                        first = lambda pr: z3.And(pr(c), z3.ForAll([j], z3.Implies(z3.And(0 <= j, j < c), z3.Not(pr(j)))))
                        anysel = z3.Exists([j], z3.And(0 <= j, j < NL, sel(j)))
                        anyunt = z3.Exists([j], z3.And(0 <= j, j < NL, unt(j)))
                        g.append(z3.And(0 <= c, c < NL, z3.If(anysel, first(sel), z3.If(anyunt, first(unt), c == 0))))
                        lp = [appL(c, k) * (R["ml"] if mult else 1) for k in range(len(PORTS))]
                    if role in ("store", "rmw"):
                        c = [x for x in pu.parts if x != "E" and x[0] == "S"][0][1]
                        c = c if z3.is_expr(c) else z3.IntVal(c)
                        g.append(c == 0)
                        sp = [appS(0, k) * (R["ms"] if mult else 1) for k in range(len(PORTS))]
                    pp = f["_port_pressure"]
                    if not (isinstance(pp, list) and len(pp) == len(PORTS)):
                        return False
                    g += [real_term(pp[k]) == appE[k] + lp[k] + sp[k] for k in range(len(PORTS))]
                    # what the tables were asked for: the instruction's memory operand (and a register of the data register's type)
                    asked = p.extra["asked"]
                    g.append(z3.BoolVal(all(a[1] is p.extra["mem"] for a in asked) and [a[0] for a in asked] == (["load"] if role == "load" else ["store"] if role == "store" else ["load", "store"])))
                    has_st = FL["HAS_ST"] in f["_flags"]
                    g.append(z3.BoolVal(has_st == (role in ("store", "rmw"))))
                    return z3.And(g)

                res.add_paths(paths, post, kind=f"{role}/mult={int(mult)}")
        return res

    return unit


def add_semantics_unit(res):
    """P: ArchSemantics.add_semantics (real code) for kernels of ANY length: every line gets assign_src_dst and then assign_tp_lt,
    each exactly once and for that line only (loop body obligations for an arbitrary k) - so what one instruction is costed with
    never depends on another line being processed twice or skipped; hidden-load post-processing runs only if the model asks for it."""
    from pyvc.engine import PathEnd
    ex = Engine([REPO + "/" + AS])
    fn, _ = ex.find_method("ArchSemantics", "add_semantics")
    ex.index_loops(fn)
    I_ = z3.IntSort()
    N = z3.Int("klen")
    ins = Schema("insa", ["InstructionForm"], {"line_number": ("int",)})
    ins.fn["line_number"] = z3.Function("line_no", I_, I_)
    hidden = z3.Bool("model_has_hidden_loads")
    st = {"calls": []}

    class Hook:
        def on_body_start(self, ex_, env, k):
            st["calls"] = []

        def on_body_end(self, ex_, env, k):
            c = st["calls"]
            ok = [n for n, _ in c] == ["assign_src_dst", "assign_tp_lt"] and all(isinstance(a, SRef) for _, a in c)
            ex_.oblige("add_semantics/each-line-gets-src_dst-then-tp_lt-once", z3.And([a.t == k for _, a in c]) if ok else z3.BoolVal(False))

    ex.loop_hooks[("add_semantics", 0)] = Hook()
    ex.invariants[("add_semantics", 0)] = lambda ex_, env, k: z3.BoolVal(True)
    for nm in ("assign_src_dst", "assign_tp_lt"):
        ex.abstract[nm] = (lambda nm: lambda ex_, so, a, kw: st["calls"].append((nm, a[0])))(nm)
    ex.abstract["has_hidden_loads"] = lambda ex_, so, a, kw: SBool(hidden)

    def run():
        log = []
        kernel = SymSeq(N, lambda i: SRef(i, ins))
        ex.abstract["set_hidden_loads"] = lambda ex_, so, a, kw: log.append(a[0])
        ex.extra.update(log=log, kernel=kernel)
        return ex.call_method("ArchSemantics", "add_semantics", SObj("ArchSemantics", _machine_model=SObj("MachineModel")), [kernel])

    paths = ex.explore(run, [N >= 0])
    # the (deprecated) hidden-load post-processing changes pressures: it may only run when the model asks for it (running it is not demanded)
    res.add_paths(paths, lambda v, p: z3.Implies(z3.BoolVal(len(p.extra["log"]) >= 1), hidden), kind="add_semantics/hidden-loads-only-if-model")
    return res


def _loader_unit():
    from .c15 import loader_unit
    return loader_unit


def _matcher_units():
    """the memory-operand matchers that decide which load/store table row fits an addressing mode (verified for C07; a row
    without index register must not match an indexed operand, ...): part of this check's closure"""
    from . import c07
    out = []
    for u in c07.units("quick"):
        if "_is_x86_mem_type" in u.id or "_is_AArch64_mem_type" in u.id:
            out.append(Unit(u.id.replace("C07/", "C08/table-row-matcher/"), u.fn, u.label, u.functions, decisive=False, timeout=u.timeout))
    return out


def units(tier):
    return [
        Unit("C08/assign_tp_lt/composition/x86", compose_unit("x86"), "Pb",
             [(AS, "ArchSemantics.assign_tp_lt"), (HW, "MachineModel.get_load_throughput"), (HW, "MachineModel.get_store_throughput"), (HW, "MachineModel.get_load_latency"),
              (HW, "MachineModel._match_mem_entries"), (HW, "MachineModel.average_port_pressure"), (ISA, "ISASemantics.substitute_mem_address")], timeout=1500),
        Unit("C08/assign_tp_lt/composition/aarch64", compose_unit("aarch64"), "Pb",
             [(AS, "ArchSemantics.assign_tp_lt"), (HW, "MachineModel.get_load_throughput"), (HW, "MachineModel.get_store_throughput")], timeout=1500),
        Unit("C08/assign_tp_lt/row-selection(any number of rows)/x86", selection_unit("x86"), "P", [(AS, "ArchSemantics.assign_tp_lt")]),
        Unit("C08/assign_tp_lt/row-selection(any number of rows)/aarch64", selection_unit("aarch64"), "P", [(AS, "ArchSemantics.assign_tp_lt")]),
        Unit("C08/get_load_throughput(any number of rows)", table_units("load"), "P", [(HW, "MachineModel.get_load_throughput"), (HW, "MachineModel._match_mem_entries")]),
        Unit("C08/get_store_throughput(any number of rows)", table_units("store"), "P", [(HW, "MachineModel.get_store_throughput"), (HW, "MachineModel._match_mem_entries")]),
    ] + _matcher_units() + [
        Unit("C08/MachineModel.__init__(loader: load/store table rows keep type and pre/post-index flags)", _loader_unit(), "Pb", [(HW, "MachineModel.__init__")], decisive=False),
        Unit("C08/add_semantics(every line processed exactly once, any kernel length)", add_semantics_unit, "P", [(AS, "ArchSemantics.add_semantics")]),
        bounded_unit("C08/composition-vs-yaml-recomputation", "c08_compose", [(AS, "ArchSemantics.assign_tp_lt"), (AS, "ArchSemantics.add_semantics"), (HW, "MachineModel.__init__")], timeout=2400),
    ]
