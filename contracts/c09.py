"""C09 / C10 - the parsers recover every line and operand exactly as written.   (module shared by both properties)

The grammar objects are built by pyparsing combinators and interpreted by pyparsing: library code far outside the
subset, so the split is at the parseString(...).asDict() boundary.
P  BaseParser.parse_file: for a file of ANY number of lines, exactly one parse_line call per non-blank line, in order,
   with the verbatim text and the 1-based line number (+ start offset); blank lines produce nothing.
P  parse_line (both ISAs), pyparsing results as nondeterministic outcomes (A: each grammar either raises ParseException
   or returns a dict of its shape): exactly one of comment-only / label / directive / instruction is populated, in that
   priority; line and line_number are stored verbatim; failure of the instruction grammar -> ValueError.
B  grammar round trip on the real parse_line / parse_file (bounded/c09_roundtrip.py): every operand form x position x
   layout, register lists/ranges, files with interleaved non-instruction lines.
"""
import z3

from pyvc.engine import Engine, PathEnd
from pyvc.runner import Unit, REPO
from pyvc.sym import *  # noqa
from pyvc.bounded import bounded_unit

LEVEL = "proof"
BP = "osaca/parser/base_parser.py"
PX = "osaca/parser/parser_x86att.py"
PA = "osaca/parser/parser_AArch64.py"
TRUSTED = ["pyvc symbolic semantics; z3 5.1.0", "A: pyparsing parseString either raises ParseException or returns a result whose asDict() has the grammar's shape; str.split('\\n') / str.strip() by their defining properties"]
ASSUMPTIONS = [
    "the grammar itself (which strings are accepted and how they are structured) is only checked by the bounded round trip",
    "parse_line: result shapes of the four grammars are those observed from pyparsing for the grammar definitions in construct_parser",
]
I, B = z3.IntSort(), z3.BoolSort()


class LineVal:
    def __init__(self, t):
        self.t = t

    def sym_method(self, ex, name, args, kw):
        if name in ("strip", "rstrip", "lstrip") and not args:
            return StripVal(self.t)  # a different string in general: handing it on instead of the line is not verbatim
        raise Unsupported("str." + name)


class StripVal:
    def __init__(self, t):
        self.t = t

    def sym_method(self, ex, name, args, kw):
        if name in ("strip", "rstrip", "lstrip") and not args:
            return self
        raise Unsupported("str." + name)

    def sym_eq(self, ex, other):
        if other == "":
            return SBool(z3.Function("blank", I, B)(self.t))
        raise Unsupported("comparison of stripped line")


class FileVal:
    def __init__(self, n):
        self.n = n

    def sym_method(self, ex, name, args, kw):
        if name == "split" and args == ["\n"]:
            return SymSeq(self.n, lambda i: LineVal(i))
        raise Unsupported("str." + name)


class GhostList:
    def __init__(self):
        self.calls = []

    def sym_havoc(self, ex, tag):
        return self

    def sym_method(self, ex, name, args, kw):
        if name == "append":
            self.calls.append(args[0])
            return None
        raise Unsupported("list." + name)


def parse_file_unit(res):
    ex = Engine([REPO + "/" + BP])
    fn, _ = ex.find_method("BaseParser", "parse_file")
    ex.index_loops(fn)
    N, start = z3.Ints("N start_line")
    blank = z3.Function("blank", I, B)
    state = {}

    def parse_line(ex_, so, a, kw):
        state["pl"].append((a[0], a[1]))
        return ("parsed", len(state["pl"]))

    ex.abstract["parse_line"] = parse_line

    class Hook:
        def pre_havoc(self, ex_, env):
            if isinstance(env.get("asm_instructions"), list):
                if env["asm_instructions"]:
                    ex_.oblige("list-empty-before-loop", False)
                env["asm_instructions"] = state["ghost"] = GhostList()

        def on_body_start(self, ex_, env, k):
            state["pl"] = []
            state["ghost"].calls.clear()

        def check(self, ex_, env, k):
            g, pl = state["ghost"].calls, state["pl"]
            n = len(g)
            ex_.oblige("one-entry-iff-non-blank", z3.BoolVal(n == 1) == z3.Not(blank(k)) if n <= 1 and len(pl) == n else False)
            if n == 1 and len(pl) == 1:
                line, num = pl[0]
                ex_.oblige("verbatim-line-and-number", z3.And(z3.BoolVal(isinstance(line, LineVal)), line.t == k if isinstance(line, LineVal) else False,
                                                              num_term(num)[0] == k + 1 + start, z3.BoolVal(g[0] == ("parsed", 1))))

        def on_body_end(self, ex_, env, k):
            self.check(ex_, env, k)

    ex.loop_hooks[("parse_file", 0)] = Hook()
    ex.invariants[("parse_file", 0)] = lambda ex_, env, k: z3.BoolVal(True)
    for with_start in (False, True):
        def run():
            state.clear()
            state["pl"] = []
            args = [FileVal(N)] + ([SNum(start, True)] if with_start else [])
            out = ex.call_method("BaseParser", "parse_file", SObj("BaseParser"), args)
            return out

        paths = ex.explore(run, [N >= 1] + ([] if with_start else [start == 0]))
        # `continue` paths end the body early: the hook above runs at body end only, so re-check via the final paths
        res.add_paths(paths, lambda v, p: isinstance(v, GhostList), kind=f"post[start={with_start}]")
    return res


class Grammar:
    """A: pyparsing element - parseString(...) raises ParseException or returns a result with one of the listed shapes"""

    def __init__(self, name, shapes, log, fixed=None):
        self.name, self.shapes, self.log, self.fixed = name, shapes, log, fixed

    def sym_method(self, ex, mname, args, kw):
        if mname != "parseString":
            raise Unsupported("pyparsing." + mname)
        self.log.append(("call", self.name, args[0], kw.get("parseAll")))
        if self.fixed is not None:
            # whether this grammar accepts the line was decided before the code ran (it is a fact about the line, not
            # about the order in which the code consults the grammars)
            i = self.fixed.get(self.name)
            if i is not None:
                self.log.append(("ok", self.name, i))
                return Result(self.shapes[i]())
            self.log.append(("fail", self.name))
            raise PyRaise("ParseException", self.name)
        for i, sh in enumerate(self.shapes):
            if ex.choice():
                self.log.append(("ok", self.name, i))
                return Result(sh())
        self.log.append(("fail", self.name))
        raise PyRaise("ParseException", self.name)


class Result:
    def __init__(self, d):
        self.d = d

    def sym_method(self, ex, mname, args, kw):
        if mname == "asDict":
            return self.d
        raise Unsupported("ParseResults." + mname)


def parse_line_unit(isa):
    def unit(res):
        files = ["osaca/parser/operand.py", "osaca/parser/directive.py", "osaca/parser/label.py", "osaca/parser/instruction_form.py", BP, PX if isa == "x86" else PA]
        ex = Engine([REPO + "/" + f for f in files])
        cls = "ParserX86ATT" if isa == "x86" else "ParserAArch64"
        ex.no_init.add(cls)
        LN = z3.Int("line_number")
        cmt = lambda: {"comment": ["foo", "bar"]}
        if isa == "x86":
            lab = [lambda: {"label": {"identifier": {"name": ".L1"}, "name": [{"name": ".L1"}]}},
                   lambda: {"label": {"identifier": {"name": ".L1"}, "name": [{"name": ".L1"}], "comment": ["c", "d"]}}]
            dr = [lambda: {"directive": {"name": "byte", "parameters": ["100", "103"]}}, lambda: {"directive": {"name": "text"}},
                  lambda: {"directive": {"name": "p2align", "parameters": ["4"], "comment": ["cc"]}}]
        else:
            lab = [lambda: {"label": {"name": {"name": ".L1"}}}, lambda: {"label": {"name": {"name": ".L1"}, "comment": ["c", "d"]}}]
            dr = [lambda: {"directive": {"name": "byte", "value": "3", "parameters": ["213", "3"]}}, lambda: {"directive": {"name": "text", "parameters": []}},
                  lambda: {"directive": {"name": "p2align", "value": "4", "parameters": ["4"], "comment": ["cc"]}}]

        def run():
            log = []
            ex.extra["log"] = log
            # which grammars accept the line is a property of the LINE: decided up front.  A comment line is accepted by no other
            # grammar; a label such as '.L.str.1:' is also accepted by the directive grammar - it is a label all the same.
            shapes = {"comment": [cmt], "llvm": [lambda: {"comment": ["#", "LLVM-MCA-BEGIN"]}], "label": lab, "directive": dr}
            dec = {}
            for nm in ("comment", "llvm", "label", "directive"):
                dec[nm] = None
                if nm == "llvm" and isa == "x86":
                    continue
                if nm in ("label", "directive") and (dec["comment"] is not None or dec["llvm"] is not None):
                    continue
                for i_ in range(len(shapes[nm])):
                    if ex.choice():
                        dec[nm] = i_
                        break
            ex.extra["accepts"] = dec
            fields = dict(comment=Grammar("comment", [cmt], log, dec), label=Grammar("label", lab, log, dec), directive=Grammar("directive", dr, log, dec))
            if isa != "x86":
                fields["llvm_markers"] = Grammar("llvm", shapes["llvm"], log, dec)
            parser = SObj(cls, **fields)
            line = OpaqueStr("the line")
            ex.extra["line"] = line

            def parse_instruction(ex_, so, a, kw):
                log.append(("call", "instruction", a[0], True))
                if ex_.choice():
                    log.append(("ok", "instruction", 0))
                    f = ex_.instantiate("InstructionForm", kw=dict(mnemonic="add", operands=["op1", "op2"], comment_id="cmt"))
                    ex_.extra["iresult"] = f
                    return f
                log.append(("fail", "instruction"))
                raise PyRaise("ParseException" if isa == "x86" or ex_.choice() else "KeyError", "instruction")

            ex.abstract["parse_instruction"] = parse_instruction
            return ex.call_method(cls, "parse_line", parser, [line, SNum(LN, True)])

        paths = ex.explore(run, [])

        def first_ok(log):
            oks = [e for e in log if e[0] == "ok"]
            return oks

        def post(v, p):
            log = p.extra["log"]
            f = v.fields
            oks = [e[1] for e in log if e[0] == "ok"]
            calls_ok = all(e[2] is p.extra["line"] and e[3] is True for e in log if e[0] == "call")
            g = [calls_ok, f["_line"] is p.extra["line"], ex.eq_term(f["_line_number"], SNum(LN, True))]
            acc = p.extra["accepts"]
            kind = None
            if acc["comment"] is not None or acc["llvm"] is not None:
                kind = "comment"
            elif acc["label"] is not None:
                kind = "label"
            elif acc["directive"] is not None:
                kind = "directive"
            elif "instruction" in oks:
                kind = "instruction"
            g.append(kind is not None)
            g.append((f["_mnemonic"] is not None) == (kind == "instruction"))
            g.append((f["_label_id"] is not None) == (kind == "label"))
            g.append((f["_directive_id"] is not None) == (kind == "directive"))
            if kind == "comment":
                g.append(f["_comment_id"] is not None)
            if kind == "label":
                g.append(f["_label_id"] == ".L1")
                g.append((f["_comment_id"] is not None) == (acc["label"] == 1))
            if kind == "directive":
                d = f["_directive_id"]
                want = dr[acc["directive"]]()["directive"]
                g.append(isinstance(d, SObj) and d.fields.get("_name") == want["name"] and d.fields.get("_parameters") == want.get("parameters", []))
                g.append((f["_comment_id"] is not None) == ("comment" in want))
            if kind == "instruction":
                r = p.extra["iresult"].fields
                g.append(f["_mnemonic"] == r["_mnemonic"] and f["_operands"] is r["_operands"] and f["_comment_id"] == r["_comment_id"])
            return all(g)

        def exc_ok(p):
            log = p.extra["log"]
            return p.outcome[1] == "ValueError" and ("fail", "instruction") in log and all(v is None for v in p.extra["accepts"].values())

        n = res.add_paths(paths, post, exc_ok=exc_ok, kind="classification")
        res.note(f"{isa}: {len(paths)} outcome combinations, {n} returning")
        return res

    return unit


def parse_instruction_unit(isa):
    """P: parse_instruction (real code) for EVERY number of operands the grammar can deliver (0..5 AArch64, 0..4 x86) and, on
    AArch64, every choice of which operands resolve to a register list (members a, b): the operand list of the result is the
    concatenation, in source order, of what process_operand returns for operand1, operand2, ... (lists spliced in place);
    mnemonic and comment are taken from the parse result.  process_operand is abstract here (its contract: the
    operand-post-processing units)."""
    def unit(res):
        files = PFILES + [PX if isa == "x86" else PA]
        ex = Engine([REPO + "/" + f for f in files])
        cls = "ParserX86ATT" if isa == "x86" else "ParserAArch64"
        ex.no_init.add(cls)
        maxops = 4 if isa == "x86" else 5
        import itertools as it
        combos = []
        for k in range(maxops + 1):
            for kinds in it.product(("single", "list") if isa != "x86" else ("single",), repeat=k):
                for comment in (False, True):
                    if comment and k not in (0, 2):
                        continue
                    combos.append((k, kinds, comment))
        for k, kinds, comment in combos:
            def run():
                raw = {f"operand{i + 1}": {"tag": i} for i in range(k)}
                raw["mnemonic"] = "mn"
                if comment:
                    raw["comment"] = ["some", "words"]
                log = []
                outs = []

                def process_operand(ex_, so, a, kw):
                    i = a[0]["tag"]
                    v = [SObj("RegisterOperand", tag=(i, 0)), SObj("RegisterOperand", tag=(i, 1))] if kinds[i] == "list" else SObj("Operand", tag=(i,))
                    outs.append((i, v))
                    return v

                ex.abstract["process_operand"] = process_operand
                parser = SObj(cls, instruction_parser=Grammar("instruction", [lambda: raw], log), comment_id="comment")
                line = OpaqueStr("the instruction")
                r = ex.call_method(cls, "parse_instruction", parser, [line])
                ex.extra.update(outs=outs, log=log, line=line)
                return r

            paths = ex.explore(run, [])

            def post(v, p, k=k, kinds=kinds, comment=comment):
                outs, log = p.extra["outs"], p.extra["log"]
                if [i for i, _ in outs] != list(range(k)):
                    return False  # every operand post-processed exactly once (order of the calls = source order)
                want = []
                for i, o in outs:
                    want += o if isinstance(o, list) else [o]
                got = v.fields["_operands"]
                ok = isinstance(got, list) and len(got) == len(want) and all(a is b for a, b in zip(got, want))
                ok = ok and v.fields["_mnemonic"] == "mn" and v.fields["_comment_id"] == ("some words" if comment else None)
                ok = ok and [e for e in log if e[0] == "call"] == [("call", "instruction", p.extra["line"], True)]
                return bool(ok)

            res.add_paths(paths, post, exc_ok=lambda p: p.outcome[1] == "ParseException" and ("fail", "instruction") in p.extra.get("log", [("fail", "instruction")]),
                          kind=f"operands={k}/{''.join(x[0] for x in kinds)}/comment={int(comment)}")
        return res

    return unit


def process_operand_unit(isa):
    """P: process_operand (real code) - the dispatch from the grammar's operand dictionary to the post-processing routine, and the
    small routines themselves (register, sp, label, identifier, directive, condition, prefetch) on the operand shapes the
    grammars deliver: a memory / immediate / register-list operand is handed to exactly its routine (whose contract is a unit of
    its own) and that routine's result is returned unchanged; a register operand keeps its name as written (AArch64: prefix, shape
    and predication lower-cased, lanes and index kept; 'sp' becomes x-prefixed sp); identifier, label, directive, condition and
    prefetch operands keep their fields."""
    def unit(res):
        cls = "ParserX86ATT" if isa == "x86" else "ParserAArch64"
        ex = Engine([REPO + "/" + f for f in PFILES + [PX if isa == "x86" else PA]])
        ex.no_init.add(cls)
        heavy = ["process_memory_address", "process_immediate"] + ([] if isa == "x86" else ["resolve_range_list", "process_register_list"])
        mem = {"base": {"name": "rax"}} if isa == "x86" else {"base": {"prefix": "x", "name": "0"}}
        cases = [("memory", {"memory": mem}), ("immediate", {"immediate": {"value": "5"}}), ("immediate-identifier", {"immediate": {"identifier": {"name": ".L4"}}})]
        if isa == "x86":
            cases += [("register", {"register": {"name": nm}}) for nm in ("rax", "RAX", "ymm13", "Zmm31")]
            cases += [("identifier", {"identifier": {"name": ".L3"}}), ("label", {"label": {"identifier": {"name": "loop"}, "name": [{"name": "loop"}]}}), ("label+comment", {"label": {"identifier": {"name": "loop"}, "name": [{"name": "loop"}], "comment": ["x"]}}),
                      ("directive", {"directive": {"name": "byte", "parameters": ["100", "103"]}}), ("directive-bare", {"directive": {"name": "text"}})]
        else:
            cases += [("register", {"register": r}) for r in ({"prefix": "x", "name": "0"}, {"prefix": "W", "name": "zr"}, {"prefix": "v", "name": "1", "lanes": "4", "shape": "S"},
                                                             {"prefix": "v", "name": "3", "shape": "s", "index": "1"}, {"prefix": "p", "name": "0", "predication": "Z"}, {"prefix": "z", "name": "31", "shape": "d"})]
            cases += [("sp", {"register": {"prefix": None, "name": nm}}) for nm in ("sp", "SP")]
            cases += [("list", {"register": {"prefix": "v", "name": "1", "lanes": "4", "shape": "s", "list": ["v0.4s", "v1.4s"]}}),
                      ("range", {"register": {"prefix": "v", "name": "3", "lanes": "4", "shape": "s", "range": ["v0.4s", "v3.4s"]}}),
                      ("identifier", {"identifier": {"name": "sym", "relocation": ":lo12:"}}), ("label", {"label": {"name": {"name": "loop"}}}),
                      ("directive", {"directive": {"name": "word", "parameters": ["1"]}}), ("condition", {"condition": "ne"}),
                      ("prefetch", {"prfop": {"type": ["PLD"], "target": ["L1"], "policy": ["KEEP"]}})]
        for kind, operand in cases:
            def run(operand=operand):
                calls = []
                import copy
                for nm in heavy:
                    def stub(ex_, so, a, kw, nm=nm):
                        r = SObj("Processed", by=nm, arg=a[0])
                        calls.append((nm, a[0], r))
                        return r
                    ex.abstract[nm] = stub
                op = copy.deepcopy(operand)
                ex.extra.update(calls=calls, op=op)
                return ex.call_method(cls, "process_operand", SObj(cls), [op])

            paths = ex.explore(run, [])

            def post(v, p, kind=kind, operand=operand):
                calls, op = p.extra["calls"], p.extra["op"]
                F = lambda o, k: o.fields["_" + k]
                if kind == "memory":
                    return len(calls) == 1 and calls[0][0] == "process_memory_address" and calls[0][1] is op["memory"] and v is calls[0][2]
                if kind.startswith("immediate"):
                    return len(calls) == 1 and calls[0][0] == "process_immediate" and calls[0][1] is op["immediate"] and v is calls[0][2]
                if kind in ("list", "range"):
                    return ([c[0] for c in calls] == ["process_register_list", "resolve_range_list"] and calls[0][1] is op["register"]
                            and calls[1][1] is calls[0][2] and v is calls[1][2])
                if calls:
                    return False
                r = operand.get("register")
                if kind == "register":
                    if not (isinstance(v, SObj) and v.cls == "RegisterOperand") or F(v, "name") != r["name"]:
                        return False
                    if isa == "x86":
                        return F(v, "prefix") is None
                    low = lambda x: x.lower() if x is not None else None
                    return (F(v, "prefix") == r["prefix"].lower() and F(v, "shape") == low(r.get("shape")) and F(v, "lanes") == r.get("lanes")
                            and F(v, "index") == r.get("index") and F(v, "predication") == low(r.get("predication")))
                if kind == "sp":
                    return isinstance(v, SObj) and v.cls == "RegisterOperand" and F(v, "prefix") == "x" and F(v, "name").lower() == "sp"
                if kind == "identifier":
                    i = operand["identifier"]
                    return isinstance(v, SObj) and v.cls == "IdentifierOperand" and F(v, "name") == i["name"] and (isa == "x86" or F(v, "relocation") == i.get("relocation"))
                if kind.startswith("label"):
                    lab = operand["label"]
                    nm = lab["name"][0]["name"] if isa == "x86" else lab["name"]["name"]
                    return isinstance(v, tuple) and v[0].cls == "LabelOperand" and F(v[0], "name") == nm and v[1] == lab.get("comment")
                if kind.startswith("directive"):
                    d = operand["directive"]
                    return isinstance(v, tuple) and v[0].cls == "DirectiveOperand" and F(v[0], "name") == d["name"] and F(v[0], "parameters") == d.get("parameters", [])
                if kind == "condition":
                    return isinstance(v, SObj) and v.cls == "ConditionOperand" and F(v, "ccode") == "NE"
                if kind == "prefetch":
                    pf = operand["prfop"]
                    return isinstance(v, SObj) and v.cls == "PrefetchOperand" and (F(v, "type_id"), F(v, "target"), F(v, "policy")) == (pf["type"], pf["target"], pf["policy"])
                return False

            res.add_paths(paths, post, kind=f"{isa}/{kind}")
        return res

    return unit


def range_expansion_unit(res):
    """P (exhaustive over the finite domain): ParserAArch64.resolve_range_list for EVERY pair of register numbers 0..31 as range
    ends (1024 pairs) x {no element index, [1]}: the members are start, start+1, ... (mod 32) up to end - in that order, each
    post-processed once, with the element index carried to every member; and for every explicit list of 1..4 registers."""
    files = PFILES + [PA]
    ex = Engine([REPO + "/" + f for f in files])
    ex.no_init.add("ParserAArch64")
    made = []

    def pro(ex_, so, a, kw):
        made.append(a[0])
        return ("reg", a[0]["name"], a[0].get("index"), a[0].get("shape"))

    ex.abstract["process_register_operand"] = pro
    bad = []
    n = 0
    for start in range(32):
        for end in range(32):
            for index in (None, "1"):
                made.clear()
                opnd = {"register": {"range": [{"prefix": "v", "name": str(start), "shape": "s"}, {"prefix": "v", "name": str(end), "shape": "s"}], "index": index}}
                paths = ex.explore(lambda: ex.call_method("ParserAArch64", "resolve_range_list", SObj("ParserAArch64"), [opnd]), [])
                n += 1
                want = [str((start + k) % 32) for k in range((end - start) % 32 + 1)]
                ok = len(paths) == 1 and paths[0].outcome[0] == "ret" and isinstance(paths[0].outcome[1], list) and \
                    [x[1] for x in paths[0].outcome[1]] == want and all(x[2] == (None if index is None else 1) and x[3] == "s" for x in paths[0].outcome[1])
                if not ok:
                    bad.append((start, end, index, paths[0].outcome if paths else None))
    res.add("range/members-start..end-mod-32-in-order-with-index", [], not bad).update(detail=None if not bad else f"{len(bad)} of {n} ranges wrong, e.g. {str(bad[0])[:200]}")
    for k in (1, 2, 3, 4):
        made.clear()
        opnd = {"register": {"list": [{"prefix": "v", "name": str(30 + i if i < 2 else i), "shape": "d"} for i in range(k)], "index": "0"}}
        paths = ex.explore(lambda: ex.call_method("ParserAArch64", "resolve_range_list", SObj("ParserAArch64"), [opnd]), [])
        ok = len(paths) == 1 and paths[0].outcome[0] == "ret" and [x[1] for x in paths[0].outcome[1]] == [r["name"] for r in opnd["register"]["list"]] and all(x[2] == 0 for x in paths[0].outcome[1])
        res.add(f"list/{k}-members-in-order-with-index-0", [], bool(ok))
    res.note(f"{n} ranges evaluated")
    return res


NUMLANG = "decimal (no leading zeros) or 0x-hex literal with optional '-', at most 5 characters"
PFILES = ["osaca/parser/operand.py", "osaca/parser/register.py", "osaca/parser/memory.py", "osaca/parser/immediate.py", "osaca/parser/identifier.py",
          "osaca/parser/directive.py", "osaca/parser/label.py", "osaca/parser/condition.py", "osaca/parser/prefetch.py", "osaca/parser/instruction_form.py", BP]


def numlit(name):
    """symbolic numeric literal of the grammar's number language + its value (spec function intlit)"""
    s = BStr.fresh(name, 5)
    d = lambda c: z3.And(c >= 48, c <= 57)
    h = lambda c: z3.Or(d(c), z3.And(c >= 97, c <= 102), z3.And(c >= 65, c <= 70))
    def form(st):
        ch = lambda i: s.chars[st + i]
        dec = z3.And(s.length >= st + 1, z3.And([z3.Or(s.length <= i, d(s.chars[i])) for i in range(st, 5)]), z3.Or(ch(0) != 48, s.length == st + 1))
        hx = z3.And(s.length >= st + 3, ch(0) == 48, ch(1) == 120, z3.And([z3.Or(s.length <= i, h(s.chars[i])) for i in range(st + 2, 5)]))
        return z3.Or(dec, hx)
    lang = z3.And(s.wf(), z3.Or(form(0), z3.And(s.chars[0] == 45, form(1))))
    return s, lang


def intlit(ex, s):
    """value of the literal, via the engine's model of int(s, 0) (differentially tested against CPython)"""
    from pyvc.builtins import bstr_to_int0
    return bstr_to_int0(ex, s)


def x86_mem_unit(res):
    ex = Engine([REPO + "/" + f for f in PFILES + [PX]])
    ex.no_init.add("ParserX86ATT")
    import itertools
    for okind, has_b, has_i, skind in itertools.product(("none", "value", "ident", "bare"), (False, True), (False, True), ("none", "1", "2", "4", "8")):
        if okind == "bare" and (has_b or has_i):
            continue
        if skind != "none" and not has_i:
            continue
        off, lang = numlit("off")

        def run():
            d = {}
            if okind == "value":
                d["offset"] = {"value": off}
            elif okind == "ident":
                d["offset"] = {"identifier": {"name": "foo"}}
            elif okind == "bare":
                d["offset"] = off
            if has_b:
                d["base"] = {"name": "rax"}
            if has_i:
                d["index"] = {"name": "rbx"}
            if skind != "none":
                d["scale"] = skind
            return ex.call_method("ParserX86ATT", "process_memory_address", SObj("ParserX86ATT"), [d])

        paths = ex.explore(run, [lang])

        def post(v, p):
            if not (isinstance(v, SObj) and v.cls == "MemoryOperand"):
                return False
            f = v.fields
            g = [f["_scale"] == (1 if skind == "none" else int(skind))]
            g.append((f["_base"] is None) if not has_b else (isinstance(f["_base"], SObj) and f["_base"].fields["_name"] == "rax"))
            g.append((f["_index"] is None) if not has_i else (isinstance(f["_index"], SObj) and f["_index"].fields["_name"] == "rbx"))
            o = f["_offset"]
            if okind == "none":
                g.append(o is None)
            elif okind == "ident":
                g.append(isinstance(o, SObj) and o.cls == "IdentifierOperand" and o.fields["_name"] == "foo")
            else:
                if not (isinstance(o, SObj) and o.cls == "ImmediateOperand"):
                    return False
                ex.pc = list(p.pc)
                want = intlit(ex, off)
                return z3.And(z3.BoolVal(all(g)), ex.eq_term(o.fields["_value"], want))
            return all(g)

        res.add_paths(paths, post, kind=f"x86-mem[{okind},{int(has_b)}{int(has_i)},{skind}]")
    # process_immediate
    val, lang = numlit("imm")
    paths = ex.explore(lambda: ex.call_method("ParserX86ATT", "process_immediate", SObj("ParserX86ATT"), [{"value": val}]), [lang])

    def post_imm(v, p):
        if not (isinstance(v, SObj) and v.cls == "ImmediateOperand"):
            return False
        ex.pc = list(p.pc)
        return ex.eq_term(v.fields["_value"], intlit(ex, val))

    res.add_paths(paths, post_imm, kind="x86-immediate")
    paths = ex.explore(lambda: ex.call_method("ParserX86ATT", "process_immediate", SObj("ParserX86ATT"), [{"identifier": {"name": "sym"}}]), [])
    res.add_paths(paths, lambda v, p: isinstance(v, SObj) and v.cls == "IdentifierOperand" and v.fields["_name"] == "sym", kind="x86-immediate-identifier")
    return res


def a64_imm_unit(res):
    """P: ParserAArch64.process_immediate / normalize_imd / process_identifier (real code) on every immediate shape the grammar
    delivers: plain value (any literal of the number language, decimal or hexadecimal, signed) -> ImmediateOperand of type int whose
    value is the literal's value; base immediate with 'lsl #n' (n = 0..63) -> value = base * 2**n, the shift kept; floating point
    (mantissa with/without exponent) -> ImmediateOperand of type double/float carrying the mantissa text resp. the (mantissa, sign,
    exponent) fields exactly as written; identifier (with relocation/offset) -> IdentifierOperand with those fields."""
    ex = Engine([REPO + "/" + f for f in PFILES + [PA]])
    ex.no_init.add("ParserAArch64")
    call = lambda d: ex.call_method("ParserAArch64", "process_immediate", SObj("ParserAArch64"), [d])
    val, lang = numlit("imm")
    paths = ex.explore(lambda: call({"value": val}), [lang])

    def post_val(v, p):
        if not (isinstance(v, SObj) and v.cls == "ImmediateOperand" and v.fields["_imd_type"] == "int" and v.fields["_shift"] is None and v.fields["_identifier"] is None):
            return False
        ex.pc = list(p.pc)
        return ex.eq_term(v.fields["_value"], intlit(ex, val))

    res.add_paths(paths, post_val, kind="a64-immediate/value")
    for n, spelled in [(n, str(n)) for n in range(64)] + [(12, "0xc"), (16, "0x10"), (48, "0X30")]:  # the amount is a number of the same language
        paths = ex.explore(lambda spelled=spelled: call({"base_immediate": {"value": val}, "shift_op": "lsl", "immediate": {"value": spelled}, "shift": [{"value": spelled}]}), [lang])

        def post_sh(v, p, n=n, spelled=spelled):
            if not (isinstance(v, SObj) and v.cls == "ImmediateOperand" and v.fields["_imd_type"] == "int" and v.fields["_shift"] == {"value": spelled}):
                return False
            ex.pc = list(p.pc)
            base = intlit(ex, val)
            return num_term(v.fields["_value"])[0] == num_term(base)[0] * (2 ** n)

        res.add_paths(paths, post_sh, kind=f"a64-immediate/lsl-{spelled}")
    for kind in ("double", "float"):
        for fp in ({"mantissa": "1.5"}, {"mantissa": "2.5", "e_sign": "-", "exponent": "3"}, {"mantissa": "1.0", "e_sign": "+", "exponent": "2"}):
            paths = ex.explore(lambda: call({kind: dict(fp)}), [])

            def post_fp(v, p, kind=kind, fp=fp):
                if not (isinstance(v, SObj) and v.cls == "ImmediateOperand" and v.fields["_imd_type"] == kind):
                    return False
                got = v.fields["_value"]
                from fractions import Fraction as F
                num = F(fp["mantissa"]) * (F(10) ** (int(fp.get("exponent", "0")) * (-1 if fp.get("e_sign") == "-" else 1)))
                # as written (text / fields) or already converted to its numeric value: both recover the operand
                return got == (fp if "exponent" in fp else fp["mantissa"]) or (isinstance(got, (int, F)) and not isinstance(got, bool) and got == num)

            res.add_paths(paths, post_fp, kind=f"a64-immediate/{kind}/{'exp' if 'exponent' in fp else 'plain'}")
    for ident in ({"name": "sym"}, {"relocation": ":lo12:", "name": "sym"}, {"name": "sym", "offset": [{"value": "4"}]}):
        paths = ex.explore(lambda: call({"identifier": dict(ident)}), [])
        res.add_paths(paths, lambda v, p, ident=ident: isinstance(v, SObj) and v.cls == "IdentifierOperand" and v.fields["_name"] == "sym"
                      and v.fields["_relocation"] == ident.get("relocation") and v.fields["_offset"] == ident.get("offset"), kind="a64-immediate/identifier")
    return res


def a64_mem_unit_for(bases, ikinds):
    return lambda res: a64_mem_unit(res, bases, ikinds)


def a64_mem_unit(res, bases=("x", "sp", "zr"), ikinds=("none", "x", "w")):
    ex = Engine([REPO + "/" + f for f in PFILES + [PA]])
    ex.no_init.add("ParserAArch64")
    import itertools
    shifts = [None] + [(op, n) for op in ("lsl", "LSL", "uxtw", "sxtw", "uxtb", "lsr", "mul vl") for n in (None, "0", "1", "2", "3", "4")]
    for okind, base, ikind, pre, post_ in itertools.product(("none", "value", "ident"), bases, ikinds, (False, True), (False, True)):
        if (okind != "none") and ikind != "none":
            continue
        if pre and post_:
            continue
        for shift in (shifts if ikind != "none" else [None]):
            off, lang = numlit("off")
            pv, lang2 = numlit("post")

            def run():
                d = {"base": {"prefix": "x", "name": "2"} if base == "x" else {"prefix": None, "name": base}}
                if okind == "value":
                    d["offset"] = [{"value": off}]
                    d["immediate"] = {"value": off}
                elif okind == "ident":
                    d["offset"] = [{"identifier": {"relocation": ":lo12:", "name": "sym"}}]
                if ikind != "none":
                    ix = {"prefix": ikind, "name": "3"}
                    if shift is not None:
                        ix["shift_op"] = shift[0]
                        if shift[1] is not None:
                            ix["shift"] = [{"value": shift[1]}]
                            ix["immediate"] = {"value": shift[1]}
                    d["index"] = ix
                if pre:
                    d["pre_indexed"] = "!"
                if post_:
                    d["post_indexed"] = {"value": pv}
                return ex.call_method("ParserAArch64", "process_memory_address", SObj("ParserAArch64"), [d])

            paths = ex.explore(run, [lang, lang2])

            def post(v, p):
                if not (isinstance(v, SObj) and v.cls == "MemoryOperand"):
                    return False
                f = v.fields
                b = f["_base"]
                g = [isinstance(b, SObj) and b.fields["_prefix"] == "x" and b.fields["_name"] == ("2" if base == "x" else base)]
                want_scale = 1
                if shift is not None and shift[1] is not None and shift[0].lower() in ("lsl", "uxtw", "uxtb", "sxtw"):
                    want_scale = 2 ** int(shift[1])
                g.append(f["_scale"] == want_scale)
                ix = f["_index"]
                g.append((ix is None) if ikind == "none" else (isinstance(ix, SObj) and ix.fields["_prefix"] == ikind and ix.fields["_name"] == "3"))
                g.append(bool(f["_pre_indexed"]) == pre)
                terms = []
                ex.pc = list(p.pc)
                if post_:
                    pi = f["_post_indexed"]
                    if not (isinstance(pi, dict) and set(pi) == {"value"}):
                        return False
                    terms.append(ex.eq_term(pi["value"], intlit(ex, pv)))
                else:
                    g.append(f["_post_indexed"] is False)
                o = f["_offset"]
                if okind == "none":
                    g.append(o is None)
                elif okind == "ident":
                    g.append(isinstance(o, SObj) and o.cls == "IdentifierOperand" and o.fields["_name"] == "sym" and o.fields["_relocation"] == ":lo12:")
                else:
                    if not (isinstance(o, SObj) and o.cls == "ImmediateOperand"):
                        return False
                    terms.append(ex.eq_term(o.fields["_value"], intlit(ex, off)))
                return z3.And([z3.BoolVal(all(g))] + terms)

            res.add_paths(paths, post, kind=f"a64-mem[{okind},{base},{ikind},{shift},{int(pre)}{int(post_)}]")
    return res


def units_for(prop):
    isa = "x86" if prop == "C09" else "aarch64"
    return [
        Unit(f"{prop}/parse_file", parse_file_unit, "P", [(BP, "BaseParser.parse_file")]),
        Unit(f"{prop}/parse_line/classification", parse_line_unit(isa), "P", [(PX if isa == "x86" else PA, ("ParserX86ATT" if isa == "x86" else "ParserAArch64") + ".parse_line")]),
        Unit(f"{prop}/parse_instruction/operand-order", parse_instruction_unit(isa), "P", [(PX if isa == "x86" else PA, ("ParserX86ATT" if isa == "x86" else "ParserAArch64") + ".parse_instruction")]),
        Unit(f"{prop}/process_operand/dispatch-and-small-operands", process_operand_unit(isa), "P", [(PX if isa == "x86" else PA, ("ParserX86ATT" if isa == "x86" else "ParserAArch64") + ".process_operand")]),
    ] + ([Unit("C09/operand-post-processing", x86_mem_unit, "P", [(PX, "ParserX86ATT.process_memory_address"), (PX, "ParserX86ATT.process_immediate")])] if isa == "x86" else
         [Unit(f"C10/operand-post-processing/base={b}/index={i}", a64_mem_unit_for((b,), (i,)), "P", [(PA, "ParserAArch64.process_memory_address")])
          for b in ("x", "sp", "zr") for i in ("none", "x", "w")]) + [
    ] + ([Unit("C10/operand-post-processing/immediates", a64_imm_unit, "P", [(PA, "ParserAArch64.process_immediate"), (PA, "ParserAArch64.normalize_imd"), (PA, "ParserAArch64.process_identifier")])] if isa != "x86" else []) + [
    ] + ([Unit("C10/resolve_range_list(all 32x32 ranges)", range_expansion_unit, "P", [(PA, "ParserAArch64.resolve_range_list")])] if isa != "x86" else []) + [
        bounded_unit(f"{prop}/render-parse-roundtrip", "c09_roundtrip", [(PX if isa == "x86" else PA, ("ParserX86ATT" if isa == "x86" else "ParserAArch64") + ".parse_line"),
                     (PX if isa == "x86" else PA, ("ParserX86ATT" if isa == "x86" else "ParserAArch64") + ".construct_parser"), (BP, "BaseParser.parse_file")],
                     extra_args=[isa], timeout=2400, decisive=True),
    ]


def units(tier):
    return units_for("C09")
