"""C11 - kernel selection is exact and non-instruction lines are transparent.

P  find_marked_section (line list of unbounded length, loop invariant over the scan position): under the property's
   precondition (exactly one start marker S followed by exactly one end marker E; every mov-like line has two operands)
   the result is (S + 1 + number of .byte lines, E); a line differing in value, register, mnemonic or follow-up
   directive is not a marker.  match_bytes is used through its contract, which is verified separately:
Pb match_bytes (<= 3 consecutive .byte lines with <= 4 parameters each, all byte values symbolic)
P  find_marked_kernel_x86ATT / _AArch64: marker constants = the documented ones; reduce_to_section (-1 -> whole range)
L  transparency: the non-instruction instances of the C01/C03 contracts (zero pressure vector, throughput 0, latency 0,
   no operands, neither read nor written, yields nothing) are units of this check
P  assign_optimal_throughput: one balancing-loop iteration on a line without micro-ops leaves every loop-carried local and the line unchanged
B  end-to-end on the real inspect: marked file vs --lines vs extracted-only file vs noise-line insertion give identical
   per-instruction and summary numbers; --lines expansion; decoy markers (bounded/c11_select.py)
"""
import ast
from fractions import Fraction
import z3

from pyvc.engine import Engine, PathEnd
from pyvc.runner import Unit, REPO
from pyvc.sym import *  # noqa
from pyvc.bounded import bounded_unit

LEVEL = "proof"
MU = "osaca/semantics/marker_utils.py"
OS = "osaca/osaca.py"
TRUSTED = ["pyvc symbolic semantics; z3 5.1.0", "parser.normalize_imd / get_full_reg_name enter as uninterpreted attributes of the operands (their post-processing is C09/C10)"]
ASSUMPTIONS = [
    "input space of the property: exactly one start marker followed by exactly one end marker; every instruction line whose mnemonic is mov/movl and that is followed by a directive has two operands (otherwise the code raises IndexError)",
    "match_bytes: structural bound 3 .byte lines x 0-4 parameters, plus 4 lines x 0-2 parameters for the four-byte marker (values symbolic) - label Pb",
    "get_line_range / inspect selection: the --lines string enters through ghost structure (items, kinds, numbers); the effect of str.replace/split/in/int on it is an assumed contract (A) stated in lines_ghost; the end-to-end clauses are bounded only",
]
I, B = z3.IntSort(), z3.BoolSort()


def section_unit(isa):
    def unit(res):
        ex = Engine([REPO + "/" + MU])
        fn = ex.funcs["find_marked_section"]
        ex.index_loops(fn)
        N, S, E = z3.Ints("N S E")
        larr = z3.Array("lines", I, I)
        mnem = z3.Function("mnem", I, I)  # StrId code or -1 (None)
        has_mn = z3.Function("has_mn", I, B)
        has_cm = z3.Function("has_cm", I, B)
        cmt = z3.Function("cmt", I, I)
        has_dir = z3.Function("has_dir", I, B)
        op0, op1 = z3.Function("op0", I, I), z3.Function("op1", I, I)
        opcls = z3.Function("opcls", I, I)  # 0 immediate, 1 register, 2 other
        immval = z3.Function("immval", I, I)
        regname = z3.Function("regname", I, I)
        mb = z3.Function("match_bytes_ok", I, B)  # match_bytes(lines, i, nop_bytes)[0]
        mc = z3.Function("match_bytes_count", I, I)
        ops = Schema("mop", ["ImmediateOperand", "RegisterOperand", "IdentifierOperand"], {})
        ops.cls = opcls

        def operands(ex_, ref):
            return [SRef(op0(ref.t), ops), SRef(op1(ref.t), ops)]

        ln = Schema("mline", ["InstructionForm"], {"mnemonic": ("optstr",), "comment": ("optstr",), "directive": ("custom", None), "operands": ("custom", None)})
        ln.fn["mnemonic"] = (has_mn, mnem)
        ln.fn["comment"] = (has_cm, cmt)
        ln.fn["directive"] = lambda ex_, ref: Opaque("directive") if ex_.branch(has_dir(ref.t)) else None
        ln.fn["operands"] = operands
        if isa == "x86":
            movs, reg, rev, nop = ["mov", "movl"], "ebx", False, [100, 103, 144]
        else:
            movs, reg, rev, nop = ["mov"], "x1", True, [213, 3, 32, 31]
        parser = SObj("Parser")
        ex.abstract["normalize_imd"] = lambda ex_, so, a, kw: SNum(immval(a[0].t), True)
        ex.abstract["get_full_reg_name"] = lambda ex_, so, a, kw: StrId(regname(a[0].t))

        def match_bytes(ex_, so, a, kw):
            lines, idx, bl = a
            ex_.oblige("match_bytes/args", z3.BoolVal(bl == nop))
            it = num_term(idx)[0]
            return (SBool(mb(it)), SNum(mc(it), True))

        ex.abstract["match_bytes"] = match_bytes
        line = lambda i: z3.Select(larr, i)
        src = (lambda i: op0(line(i))) if not rev else (lambda i: op1(line(i)))
        dst = (lambda i: op1(line(i))) if not rev else (lambda i: op0(line(i)))

        def mov_marker(i, val):
            l = line(i)
            return z3.And(has_mn(l), z3.Or([mnem(l) == StrId.code(m) for m in movs]), i + 1 < N, has_dir(line(i + 1)),
                          opcls(src(i)) == 0, immval(src(i)) == val, opcls(dst(i)) == 1, regname(dst(i)) == StrId.code(reg), mb(i + 1))

        def cm_marker(i, text):
            l = line(i)
            return z3.And(z3.Not(has_mn(l)), has_cm(l), cmt(l) == StrId.code(text))

        is_start = lambda i: z3.Or(cm_marker(i, "OSACA-BEGIN"), mov_marker(i, 111))
        is_end = lambda i: z3.Or(cm_marker(i, "OSACA-END"), mov_marker(i, 222))
        start_of = lambda i: z3.If(cm_marker(i, "OSACA-BEGIN"), i + 1, i + 1 + mc(i + 1))
        q = z3.Int("q")
        pre = [N >= 0, 0 <= S, S < E, E < N, is_start(S), is_end(E),
               z3.ForAll([q], z3.Implies(z3.And(0 <= q, q < N, q != S), z3.Not(is_start(q)))),
               z3.ForAll([q], z3.Implies(z3.And(0 <= q, q < N, q != E), z3.Not(is_end(q)))),
               z3.ForAll([q], z3.And(opcls(q) >= 0, opcls(q) <= 2)),
               z3.ForAll([q], z3.Implies(mb(q), mc(q) >= 1)),  # contract of match_bytes (verified in C11/match_bytes)
               # a line is not start and end marker at once (111 != 222, BEGIN != END) - holds by construction
               ]

        def inv(ex_, env, k):
            ist, ien = num_term(env["index_start"])[0], num_term(env["index_end"])[0]
            return z3.And(ist == z3.If(S < k, start_of(S), -1), ien == z3.If(E < k, E, -1), k <= E + 1)

        ex.invariants[("find_marked_section", 0)] = inv

        def run():
            lines = SymSeq(N, lambda i: SRef(z3.Select(larr, i), ln))
            comments = {"start": "OSACA-BEGIN", "end": "OSACA-END"}
            return ex.call_function("find_marked_section", [lines, parser, movs, reg, [111, 222], nop], dict(reverse=rev, comments=comments))

        paths = ex.explore(run, pre)

        def post(v, p):
            if not (isinstance(v, tuple) and len(v) == 2):
                return False
            return z3.And(num_term(v[0])[0] == start_of(S), num_term(v[1])[0] == E)

        n = res.add_paths(paths, post, kind="post")
        res.note(f"{isa}: {len(paths)} paths, {n} returning")
        return res

    return unit


class ByteStr:
    def __init__(self, t):
        self.t = t

    def sym_int(self, ex, base):
        return SNum(self.t, True)


def match_bytes_unit(res):
    ex = Engine([REPO + "/" + f for f in ("osaca/parser/operand.py", "osaca/parser/directive.py", "osaca/parser/instruction_form.py", MU)])
    import itertools
    for marker in ([100, 103, 144], [213, 3, 32, 31]):
        # number of parameters of up to three consecutive .byte lines (0-4 each) and, for the four-byte marker, of four lines
        # with 0-2 parameters each (one byte per line is the layout IACA's AArch64 marker is usually written in)
        layouts = list(itertools.product(range(0, 5), repeat=3)) + ([l for l in itertools.product(range(0, 3), repeat=4) if l[3]] if len(marker) == 4 else [])
        for layout in layouts:
            if 0 in layout and any(x for x in layout[layout.index(0):]):
                continue
            nlines = len([x for x in layout if x])
            bs = [[z3.Int(f"b{i}_{j}") for j in range(layout[i])] for i in range(nlines)]
            for tail in ("end", "other-directive", "instruction"):
                def run():
                    lines = [ex.instantiate("InstructionForm", kw=dict(mnemonic="mov"))]
                    for row in bs:
                        d = ex.instantiate("DirectiveOperand", kw=dict(name="byte", parameters=[ByteStr(x) for x in row]))
                        lines.append(ex.instantiate("InstructionForm", kw=dict(directive_id=d)))
                    if tail == "other-directive":
                        d = ex.instantiate("DirectiveOperand", kw=dict(name="align", parameters=[ByteStr(z3.IntVal(100))]))
                        lines.append(ex.instantiate("InstructionForm", kw=dict(directive_id=d)))
                    elif tail == "instruction":
                        lines.append(ex.instantiate("InstructionForm", kw=dict(mnemonic="add")))
                    return ex.call_function("match_bytes", [lines, 1, marker])

                paths = ex.explore(run, [])
                flat = [x for row in bs for x in row]

                def post(v, p):
                    if not (isinstance(v, tuple) and len(v) == 2):
                        return False
                    ok = z3.And([flat[i] == marker[i] for i in range(len(marker))]) if len(flat) >= len(marker) else z3.BoolVal(False)
                    okv = v[0].t if isinstance(v[0], SBool) else z3.BoolVal(bool(v[0]))
                    cnt = num_term(v[1])[0]
                    # the marker consists of the .byte lines needed for its documented bytes: the count handed back (used to skip
                    # the marker) must not swallow further .byte lines, which belong to the marked code
                    needed = next((m for m in range(1, nlines + 1) if sum(layout[:m]) >= len(marker)), nlines)
                    return z3.And(okv == ok, z3.Implies(ok, cnt == needed))

                res.add_paths(paths, post, kind=f"m{len(marker)}/{''.join(map(str, layout))}/{tail}", label="Pb")
    return res


def constants_unit(res):
    ex = Engine([REPO + "/" + MU])
    ex.no_init |= {"ParserX86ATT", "ParserAArch64"}
    ex.class_alias.update(ParserX86ATT="ParserX86ATT", ParserAArch64="ParserAArch64")
    ex.classes.setdefault("ParserX86ATT", {"__consts__": {}})
    ex.classes.setdefault("ParserAArch64", {"__consts__": {}})
    got = {}

    def fms(ex_, so, a, kw):
        got["args"] = (a, kw)
        return (SNum(z3.Int("st"), True), SNum(z3.Int("en"), True))

    ex.abstract["find_marked_section"] = fms
    N = z3.Int("N")
    seq = SymSeq(N, lambda i: SNum(i, True))
    want = {"find_marked_kernel_x86ATT": (["mov", "movl"], "ebx", [111, 222], [100, 103, 144], False, "ParserX86ATT"),
            "find_marked_kernel_AArch64": (["mov"], "x1", [111, 222], [213, 3, 32, 31], True, "ParserAArch64")}
    for fn, (movs, reg, vals, nop, rev, pcls) in want.items():
        paths = ex.explore(lambda: ex.call_function(fn, [seq]), [N >= 0])
        for p in paths:
            a, kw = got["args"]
            ok = (a[0] is seq and isinstance(a[1], SObj) and a[1].cls == pcls and a[2] == movs and a[3] == reg and a[4] == vals and a[5] == nop
                  and bool(kw.get("reverse", False)) == rev and kw.get("comments") == {"start": "OSACA-BEGIN", "end": "OSACA-END"})
            res.add(f"{fn}/documented-marker-constants", p.pc, bool(ok))
    # reduce_to_section
    st, en = z3.Ints("st en")
    for isa in ("x86", "aarch64", "X86", "AArch64"):
        paths = ex.explore(lambda: ex.call_function("reduce_to_section", [seq, isa]), [N >= 0, st >= -1, en >= -1, st <= N, en <= N])

        def post(v, p):
            if not isinstance(v, SymSeq):
                return False
            lo = z3.If(st == -1, 0, st)
            hi = z3.If(en == -1, N, en)
            k = z3.Int("kk")
            return z3.And(v.length == z3.If(hi > lo, hi - lo, 0), z3.ForAll([k], z3.Implies(z3.And(0 <= k, k < v.length), num_term(v.at(k))[0] == lo + k)))

        res.add_paths(paths, post, kind=f"reduce_to_section[{isa}]")
    return res


# ------------------------------------------------------------------ --lines (P, any number of items)
# The --lines string is described by ghost structure: n >= 1 items joined by ",", item i is a single number lo(i) or a
# range lo(i)-hi(i) / lo(i):hi(i), numbers written in decimal.  A: str.replace / str.split / "in" / int() act on such a
# string as the classes below say (replace(":", "-") turns colon ranges into dash ranges and touches nothing else, split(",")
# yields the items, "-" in item <=> the item is written with a dash, item.split("-") yields the two number strings,
# int(number string) = the number; anything else is a ValueError).
def lines_ghost():
    kind = z3.Function("item_kind", I, I)  # 0 single, 1 dash range, 2 colon range
    lo, hi = z3.Function("item_lo", I, I), z3.Function("item_hi", I, I)
    n = z3.Int("n_items")

    class NumStr:
        def __init__(self, v):
            self.v = v

        def sym_int(self, ex, base):
            if base is not None:
                raise Unsupported("int(number, base)")
            return SNum(self.v, True)

    class ItemStr:
        def __init__(self, i, replaced):
            self.i, self.replaced = i, replaced

        def sym_contains(self, ex, item):
            if item == "-":
                return SBool(kind(self.i) == 1 if not self.replaced else kind(self.i) != 0)
            if item == ":":
                return SBool(kind(self.i) == 2) if not self.replaced else False
            raise Unsupported("substring test on a --lines item")

        def sym_method(self, ex, name, args, kw):
            if name == "split" and args in (["-"], [":"]):
                dash = args == ["-"]
                splits = ex.branch((kind(self.i) != 0) if (dash and self.replaced) else (kind(self.i) == (1 if dash else 2)) if not self.replaced else z3.BoolVal(False))
                if splits:
                    return [NumStr(lo(self.i)), NumStr(hi(self.i))]
                return [self]
            raise Unsupported("--lines item." + name)

        def sym_int(self, ex, base):
            if ex.branch(kind(self.i) == 0):
                return SNum(lo(self.i), True)
            raise PyRaise("ValueError", "int() of a range item")

    class LinesStr:
        def __init__(self, replaced=False):
            self.replaced = replaced

        def sym_truthy(self, ex):
            return True

        def sym_method(self, ex, name, args, kw):
            if name == "replace" and args == [":", "-"]:
                return LinesStr(True)
            if name == "split" and args == [","]:
                r = self.replaced
                return SymSeq(n, lambda i: ItemStr(i, r))
            raise Unsupported("--lines string." + name)

    class FlatList:  # ghost for lines_int: the concatenation of the expansions of the first `count` items
        havoc_when_passed = False

        def __init__(self):
            self.count, self.ok = z3.IntVal(0), []

        def sym_havoc(self, ex, tag):
            self.count = z3.FreshInt(tag)
            return self

        def sym_binop(self, ex, op, other, reflected):
            import ast as _ast
            if not isinstance(op, _ast.Add) or reflected or not isinstance(other, SymSeq):
                raise Unsupported("lines_int operator")
            c, j = self.count, z3.FreshInt("j")
            want = z3.If(hi(c) + 1 > lo(c), hi(c) + 1 - lo(c), 0)
            ex.oblige("lines_int/range-item-expands-to-lo..hi", z3.And(kind(c) != 0, other.length == want,
                                                                     z3.Implies(z3.And(0 <= j, j < other.length), num_term(other.at(j))[0] == lo(c) + j)))
            self.count = c + 1
            return self

        def sym_method(self, ex, name, args, kw):
            if name == "append":
                c = self.count
                ex.oblige("lines_int/single-item-appends-its-number", z3.And(kind(c) == 0, num_term(args[0])[0] == lo(c)))
                self.count = c + 1
                return None
            if name == "extend" and len(args) == 1 and isinstance(args[0], SymSeq):
                import ast as _ast
                self.sym_binop(ex, _ast.Add(), args[0], False)  # xs.extend(ys) is xs += ys
                return None
            raise Unsupported("lines_int." + name)

        def sym_contains(self, ex, item):
            x, q = num_term(item)[0], z3.FreshInt("q")
            return SBool(z3.Exists([q], z3.And(0 <= q, q < self.count, x >= lo(q), x <= z3.If(kind(q) == 0, lo(q), hi(q)))))

    pre = [n >= 1]
    q = z3.Int("q")
    pre.append(z3.ForAll([q], z3.And(kind(q) >= 0, kind(q) <= 2, lo(q) >= 0, hi(q) >= 0)))
    return dict(kind=kind, lo=lo, hi=hi, n=n, LinesStr=LinesStr, FlatList=FlatList, pre=pre)


def line_range_unit(res):
    """P: get_line_range (real code) for a --lines string with ANY number of items: the result is the concatenation, in order,
    of the expansions of the items (single number -> that number; a-b and a:b -> a, a+1, ..., b); no item raises."""
    ex = Engine([REPO + "/" + OS])
    fn = ex.funcs["get_line_range"]
    ex.index_loops(fn)
    G = lines_ghost()
    FlatList = G["FlatList"]

    def _acc(env):
        # the accumulator of get_line_range: the one local that is an (initially empty) list / the ghost list, whatever its name
        names = [n_ for n_, v_ in env.items() if isinstance(v_, FlatList) or (isinstance(v_, list) and not v_)]
        return names[0] if len(names) == 1 else "lines_int"

    class Hook:
        def pre_havoc(self, ex_, env):
            a = _acc(env)
            if isinstance(env.get(a), list) and not env[a]:
                env[a] = FlatList()

    def inv(ex_, env, k):
        v = env.get(_acc(env))
        if isinstance(v, list) and not v:
            return k == 0
        return v.count == k if isinstance(v, FlatList) else z3.BoolVal(False)

    ex.loop_hooks[("get_line_range", 0)] = Hook()
    ex.invariants[("get_line_range", 0)] = inv
    paths = ex.explore(lambda: ex.call_function("get_line_range", [G["LinesStr"]()]), G["pre"])
    res.add_paths(paths, lambda v, p: v.count == G["n"] if isinstance(v, FlatList) else False, kind="post")
    return res


def inspect_selection_unit(res):
    """P: osaca.inspect (real code, up to the point where the machine model is loaded) for parsed files of ANY length:
    with --lines the kernel is exactly the parsed lines, in file order, whose number is named by an item of the string
    (get_line_range runs inline on the ghost string) and no length warning is given; without --lines the kernel is
    reduce_to_section(parsed_code, isa) and the length warning is set iff nothing was cut and the kernel has > 100 lines;
    the no-micro-architecture warning flag is set iff --arch was not given."""
    ex = Engine([REPO + "/" + OS])
    ex.eval_print_args = True
    ex.index_loops(ex.funcs["get_line_range"])
    G = lines_ghost()
    FlatList, kind, lo, hi, n = G["FlatList"], G["kind"], G["lo"], G["hi"], G["n"]

    def _acc(env):
        # the accumulator of get_line_range: the one local that is an (initially empty) list / the ghost list, whatever its name
        names = [n_ for n_, v_ in env.items() if isinstance(v_, FlatList) or (isinstance(v_, list) and not v_)]
        return names[0] if len(names) == 1 else "lines_int"

    class Hook:
        def pre_havoc(self, ex_, env):
            a = _acc(env)
            if isinstance(env.get(a), list) and not env[a]:
                env[a] = FlatList()

    def inv(ex_, env, k):
        v = env.get(_acc(env))
        if isinstance(v, list) and not v:
            return k == 0
        return v.count == k if isinstance(v, FlatList) else z3.BoolVal(False)

    ex.loop_hooks[("get_line_range", 0)] = Hook()
    ex.invariants[("get_line_range", 0)] = inv
    NP, NK = z3.Ints("n_parsed n_section")
    lineno = z3.Function("line_number", I, I)
    # parsed lines: a number and - for instruction lines only - a mnemonic (labels, directives, comments have none)
    ins = Schema("pline", ["InstructionForm"], {"line_number": ("int",), "mnemonic": ("optstr",)})
    ins.fn["line_number"] = lineno
    ins.fn["mnemonic"] = (z3.Function("line_has_mnemonic", I, z3.BoolSort()), z3.Function("mnemonic_id", I, I))
    parsed = SymSeq(NP, lambda i: SRef(i, ins))
    section = SymSeq(NK, lambda i: SRef(z3.Function("section_line", I, I)(i), ins))
    for with_lines, with_arch, first_fails in [(l, a, f) for l in (False, True) for a in (False, True) for f in (False, True) if not (f and l)]:
        if True:
            def run():
                code = Opaque("code")

                class File:
                    def sym_method(self, ex_, name, args, kw):
                        if name == "read":
                            return code
                        raise Unsupported("file." + name)

                    def sym_getattr(self, ex_, attr):
                        return "file.s" if attr == "name" else PyMethod(self, attr)

                class Parser:
                    def __init__(self, arch):
                        self.arch = arch

                    def sym_method(self, ex_, name, args, kw):
                        if name == "parse_file" and args[0] is code:
                            seen.setdefault("parsers", []).append(self.arch)
                            if first_fails and len(seen["parsers"]) == 1:
                                raise PyRaise("ValueError", "wrong parser for this file")
                            return parsed
                        raise Unsupported("parser." + name)

                args = SObj("Namespace", file=File(), arch="zen2" if with_arch else None, verbose=SBool(z3.Bool("verbose")), ignore_unknown=SBool(z3.Bool("ignore_unknown")),
                            lines=G["LinesStr"]() if with_lines else None, fixed=SBool(z3.Bool("fixed")), lcd_timeout=SNum(z3.Int("lcd_timeout"), True),
                            consider_flag_deps=SBool(z3.Bool("flag_deps")), dotpath=None, yaml_out=Opaque("yaml stream") if with_arch else None)
                ex.abstract["get_asm_parser"] = lambda ex_, so, a, kw: Parser(a[0])
                seen = {}
                ISA_OF = {"zen2": "x86", "a64fx": "aarch64"}

                class BaseParserG:
                    def sym_method(self, ex_, name, a, kw):
                        if name == "detect_ISA" and a[0] is code:
                            return "x86"
                        raise Unsupported("BaseParser." + name)

                class MachineModelG:
                    def sym_method(self, ex_, name, a, kw):
                        if name == "get_isa_for_arch":
                            seen["isa_for"] = a[0]
                            return ISA_OF[a[0]]
                        raise Unsupported("MachineModel." + name)

                    def __call__(self, ex_, *a, **kw):
                        return mm(ex_, None, list(a), kw)

                class Rec:  # ghost for the collaborators after model loading: records the calls
                    def __init__(self, what):
                        self.what = what

                    def sym_method(self, ex_, name, a, kw):
                        log.append((self.what, name, list(a), dict(kw)))
                        if name == "get_throughput_sum":
                            # arbitrary per-port totals (a decision taken from them is a decision taken from unknown numbers)
                            return [SNum(z3.FreshReal("port_total"), False) for _ in range(3)]
                        return Opaque(self.what + "." + name)

                    def sym_getattr(self, ex_, attr):
                        if attr == "timed_out":
                            return timed_out
                        return PyMethod(self, attr)

                def ctor(what):
                    def c(ex_, *a, **kw):
                        log.append((what, "__init__", list(a), dict(kw)))
                        r = Rec(what)
                        made[what] = r
                        return r
                    return c

                log, made = [], {}
                timed_out = SBool(z3.Bool("lcd_timed_out"))
                ex.names.update(ArchSemantics=ctor("ArchSemantics"), KernelDG=ctor("KernelDG"), Frontend=ctor("Frontend"), YAML=ctor("YAML"))

                ex.names.update(BaseParser=BaseParserG(), MachineModel=MachineModelG(), DEFAULT_ARCHS={"x86": "zen2", "aarch64": "a64fx"})

                def rts(ex_, so, a, kw):
                    seen["rts"] = (a[0], a[1])
                    return section

                def mm(ex_, so, a, kw):
                    env = ex_.cur_env
                    ex_.extra.update(kernel=env["kernel"], plw=env["print_length_warning"], paw=env["print_arch_warning"], rts=seen.get("rts"), log=log, made=made,
                                     timed_out=timed_out, mm_args=(list(a), dict(kw)), parsers=list(seen.get("parsers", [])))
                    made["MachineModel"] = Rec("MachineModel")
                    return made["MachineModel"]

                ex.abstract["reduce_to_section"] = rts
                ex.call_function("inspect", [args])

            paths = ex.explore(run, G["pre"] + [NP >= 0, NK >= 0, NK <= NP])
            tag = f"lines={int(with_lines)}/arch={int(with_arch)}/first-parse-fails={int(first_fails)}"
            got = 0
            for p in paths:
                if "kernel" not in p.extra:
                    if p.outcome[0] == "exc" and not (first_fails and with_arch):
                        res.add(f"exception-freedom[{tag}]", p.pc, False).update(detail=str(p.outcome[1:]))
                    continue
                got += 1
                k, plw, paw = p.extra["kernel"], p.extra["plw"], p.extra["paw"]
                res.add(f"arch-warning-iff-no---arch[{tag}]", p.pc, (paw is True) == (not with_arch) and isinstance(paw, bool))
                if with_lines:
                    ok = isinstance(k, SymSeq) and getattr(k, "filter_of", None) is not None and k.filter_of[0] is parsed and plw is False
                    res.add(f"selection-is-a-filter-of-the-parsed-lines-in-file-order[{tag}]", p.pc, bool(ok))
                    if ok:
                        _, idx, L, pred = k.filter_of
                        j, q = z3.Ints("j q")
                        named = lambda x: z3.Exists([q], z3.And(0 <= q, q < n, x >= lo(q), x <= z3.If(kind(q) == 0, lo(q), hi(q))))
                        res.add(f"selected-iff-named-by-an-item[{tag}]", list(p.pc) + [0 <= j, j < NP], pred(j) == named(lineno(j)))
                        res.add(f"kernel-element-is-the-selected-line-itself[{tag}]", list(p.pc) + [0 <= j, j < L], k.at(j).t == idx(j))
                else:
                    want_isa = "aarch64" if (first_fails and not with_arch) else "x86"
                    ok = k is section and p.extra["rts"] is not None and p.extra["rts"][0] is parsed and p.extra["rts"][1] == want_isa
                    res.add(f"kernel-is-reduce_to_section(parsed, isa of the parser that accepted the file)[{tag}]", p.pc, bool(ok)).update(
                        detail=None if ok else f"reduce_to_section called with isa {p.extra['rts'][1] if p.extra['rts'] else None}, the file was parsed as {want_isa}")
                    want = z3.And(NK == NP, NK > 100)
                    res.add(f"length-warning-iff-whole-file-and->100-lines[{tag}]", p.pc, (bool_term(plw) == want) if not isinstance(plw, bool) else (z3.BoolVal(plw) == want))
                # ---- wiring of the rest of inspect: the SAME kernel object goes through semantics, (two) balancing passes
                # unless --fixed, graph construction and both reports; the warning flags and options are handed on unchanged
                log, made = p.extra["log"], p.extra["made"]
                fixed, ign, verb = z3.Bool("fixed"), z3.Bool("ignore_unknown"), z3.Bool("verbose")
                calls = [(w, m) for w, m, a, kw in log]
                opt = [e for e in log if e[1] == "assign_optimal_throughput"]
                sem_ok = [e for e in log if e[:2] == ("ArchSemantics", "add_semantics")]
                w = []
                want_arch = "a64fx" if (first_fails and not with_arch) else "zen2"
                w.append(p.extra["mm_args"][1].get("arch") == want_arch and not p.extra["mm_args"][0])
                w.append(p.extra["parsers"] == (["zen2", "a64fx"] if (first_fails and not with_arch) else ["zen2"]))
                w.append(len(sem_ok) == 1 and sem_ok[0][2][0] is k)
                w.append(all(e[2][0] is k for e in opt) and len(opt) in (0, 2))
                kd = [e for e in log if e[:2] == ("KernelDG", "__init__")]
                w.append(len(kd) == 1 and kd[0][2][0] is k and kd[0][2][2] is made.get("MachineModel") and kd[0][2][3] is made.get("ArchSemantics"))
                fa = [e for e in log if e[:2] == ("Frontend", "full_analysis")]
                fd = [e for e in log if e[:2] == ("Frontend", "full_analysis_dict")]
                w.append(len(fa) == 1 and fa[0][2][0] is k and fa[0][2][1] is made.get("KernelDG") and fa[0][3].get("arch_warning") is paw and fa[0][3].get("length_warning") is plw
                         and fa[0][3].get("lcd_warning") is p.extra["timed_out"])
                w.append(len(fd) == (1 if with_arch else 0) and all(e[2][0] is k and e[2][1] is made.get("KernelDG") and e[3].get("arch_warning") is paw
                                                                   and e[3].get("length_warning") is plw and e[3].get("lcd_warning") is p.extra["timed_out"] for e in fd))
                order = [c for c in calls if c in (("ArchSemantics", "add_semantics"), ("ArchSemantics", "assign_optimal_throughput"), ("KernelDG", "__init__"), ("Frontend", "full_analysis"))]
                w.append(order == sorted(order, key=lambda c: [("ArchSemantics", "add_semantics"), ("ArchSemantics", "assign_optimal_throughput"), ("KernelDG", "__init__"), ("Frontend", "full_analysis")].index(c)))
                res.add(f"wiring/same-kernel-object-and-flags-handed-on[{tag}]", p.pc, bool(all(w))).update(detail=None if all(w) else f"clauses {w}")
                res.add(f"wiring/two-balancing-passes-iff-not---fixed[{tag}]", p.pc, z3.BoolVal(len(opt) == 2) == z3.Not(fixed))
                if fa:
                    iu, vb = fa[0][3].get("ignore_unknown"), fa[0][3].get("verbose")
                    res.add(f"wiring/options-handed-on[{tag}]", p.pc, z3.And(bool_term(iu) == ign, bool_term(vb) == verb) if iu is not None and vb is not None else False)
                    flagdeps = kd[0][2][5] if kd and len(kd[0][2]) > 5 else (kd[0][3].get("flag_dependencies") if kd else None)
                    tmo = kd[0][2][4] if kd and len(kd[0][2]) > 4 else (kd[0][3].get("timeout") if kd else None)
                    res.add(f"wiring/graph-options[{tag}]", p.pc, z3.And(bool_term(flagdeps) == z3.Bool("flag_deps"), num_term(tmo)[0] == z3.Int("lcd_timeout")) if flagdeps is not None and tmo is not None else False)
            if first_fails and with_arch:
                # an explicitly chosen architecture is not second-guessed: the parse error propagates
                res.add(f"parse-error-propagates-with---arch[{tag}]", [], got == 0 and all(p.outcome[0] == "exc" and p.outcome[1] == "ValueError" for p in paths))
            else:
                res.add(f"reaches-the-reports[{tag}]", [], got >= 1)
    return res


def balancing_noise_unit(res):
    """assign_optimal_throughput: one iteration of the balancing loop on a line that carries no micro-ops (what assign_tp_lt gives a
    comment / label / directive line: port_uops == [], see C11/transparency/assign_tp_lt) is the identity on everything the loop
    carries from one line to the next - the locals (whether alternatives were seen, the best alternative so far, ...) and the line
    itself; no other function is called.  Together with the totals ignoring such a line (C01: throughput 0.0 / zero vector) an
    inserted non-instruction line cannot change what the step computes for the instruction lines."""
    from .c01 import sem_engine, new_iform
    ex = sem_engine()
    fn, _ = ex.find_method("ArchSemantics", "assign_optimal_throughput")
    loops = ex.index_loops(fn)
    state = {}

    class Kernel:
        """the kernel list: only its use as the loop's sequence matters here"""
        def sym_method(self, ex_, name, a, kw):
            if name == "reverse":
                return None
            raise Unsupported("kernel." + name)

        def sym_getslice(self, ex_, lo, hi, step):
            return self

        def sym_getitem(self, ex_, i):
            raise Unsupported("kernel[i] on a line without micro-ops")

    class Ghost:
        """a value of a carried local that the contract knows nothing about"""
        def __init__(self, name):
            self.name = name

    class Hook:
        def sym_for(self, ex_, s_, it, env, cls):
            body_mods = [m for m in ex_.modified_names(s_.body)]
            tnames = {n.id for n in ast.walk(s_.target) if isinstance(n, ast.Name)}
            carried = [m for m in body_mods if m not in tnames]
            # arbitrary loop-carried state: every local the body may rebind gets an unknown value
            before = {}
            for m in carried:
                cur = env.get(m)
                if isinstance(cur, (bool, SBool)):
                    before[m] = SBool(z3.FreshBool(m))
                elif isinstance(cur, (int, SNum, Fraction)) and not isinstance(cur, bool):
                    before[m] = SNum(z3.FreshReal(m), False)
                else:
                    before[m] = Ghost(m)
                env[m] = before[m]
            line = new_iform(ex_, mnemonic=None, operands=[])
            line.fields["_port_uops"] = []
            PP = SymSeq(z3.Int("P"), lambda i: SNum(z3.RealVal(0), False))
            line.fields["_port_pressure"] = PP
            snapshot = dict(line.fields)
            ex_.assign(s_.target, (SNum(z3.Int("idx"), True), line), env, cls)
            state["iterations"] = state.get("iterations", 0) + 1
            try:
                ex_.exec_block(s_.body, env, cls)
            except (BreakEx, ContinueEx):
                pass
            g = []
            for m in carried:
                a, b = before[m], env.get(m)
                if isinstance(a, SBool):
                    g.append(ex_.eq_term(a, b) if isinstance(b, (bool, SBool)) else z3.BoolVal(False))
                elif isinstance(a, SNum):
                    g.append(ex_.eq_term(a, b) if isinstance(b, (SNum, int, Fraction)) else z3.BoolVal(False))
                else:
                    g.append(z3.BoolVal(a is b))
                ex_.oblige("carried-local-unchanged[%s]" % m, g[-1])
            ex_.oblige("line-unchanged", z3.BoolVal(all(line.fields.get(k) is v or line.fields.get(k) == v for k, v in snapshot.items()) and set(line.fields) == set(snapshot)))
            raise PathEnd()

    if len(loops) < 1 or not isinstance(loops[0], ast.For):
        raise Unsupported("assign_optimal_throughput: outer balancing loop not found")
    ex.loop_hooks[("assign_optimal_throughput", 0)] = Hook()
    calls = []

    def tsum(ex_, so, a, kw):
        calls.append("get_throughput_sum")
        return SymSeq(z3.Int("P"), lambda i: SNum(z3.Real("ts"), False))

    ex.abstract["get_throughput_sum"] = tsum

    def run():
        P = z3.Int("P")
        ports = SymSeq(P, lambda i: StrId(z3.Select(z3.Array("pl", I, I), i)))
        mm = SObj("MachineModel", _data={"ports": ports, "isa": "aarch64"})
        sem = SObj("ArchSemantics", _machine_model=mm, _isa="aarch64", _parser=SObj("ParserAArch64"))
        ex.call_method("ArchSemantics", "assign_optimal_throughput", sem, [Kernel()])

    paths = ex.explore(run, [z3.Int("P") >= 1])
    res.add_paths(paths, None, kind="returns")
    res.add("loop-body-reached", [], state.get("iterations", 0) >= 1 and sum(len(p.obligations) for p in paths) >= 2)
    return res


def _doubling():
    from .c05 import doubling_unit
    return doubling_unit


def _doubling_any():
    from .c05 import doubling_any_unit
    return doubling_any_unit


def _search_mode_units():
    """Non-instruction lines count towards the 50-line threshold that selects the multi-process LCD search: inserting them can
    switch the search mode, so 'the two modes compute the same set' (verified for C16) is part of this check's closure."""
    from . import c16
    out = []
    for u in c16.units("quick"):
        if any(k in u.id for k in ("/partition", "/_extend_path", "search-call-agreement", "order-insensitive-postprocessing")):
            out.append(Unit(u.id.replace("C16/", "C11/search-mode-independence/"), u.fn, u.label, u.functions, timeout=u.timeout))
    return out


def _node_by_lineno():
    from .c16 import node_by_lineno_unit
    return node_by_lineno_unit


def units(tier):
    from .c01 import tp_lt_trivial_unit
    AS = "osaca/semantics/arch_semantics.py"
    return [
        Unit("C11/find_marked_section/x86", section_unit("x86"), "P", [(MU, "find_marked_section")]),
        Unit("C11/find_marked_section/aarch64", section_unit("aarch64"), "P", [(MU, "find_marked_section")]),
        Unit("C11/match_bytes", match_bytes_unit, "Pb", [(MU, "match_bytes")]),
        Unit("C11/marker-constants+reduce_to_section", constants_unit, "P", [(MU, "find_marked_kernel_x86ATT"), (MU, "find_marked_kernel_AArch64"), (MU, "reduce_to_section")]),
        Unit("C11/transparency/assign_tp_lt(no mnemonic)", tp_lt_trivial_unit, "P", [(AS, "ArchSemantics.assign_tp_lt")]),
        Unit("C11/transparency/assign_optimal_throughput(a line without micro-ops leaves the balancing state unchanged)", balancing_noise_unit, "P", [(AS, "ArchSemantics.assign_optimal_throughput")]),
        Unit("C11/line-numbers-are-only-labels/LCD-doubling(symbolic line numbers)", _doubling(), "Pb", [("osaca/semantics/kernel_dg.py", "KernelDG.check_for_loopcarried_dep")]),
        Unit("C11/line-numbers-are-only-labels/LCD-doubling(any kernel length, arbitrary positive line numbers)", _doubling_any(), "P", [("osaca/semantics/kernel_dg.py", "KernelDG.check_for_loopcarried_dep")]),
        Unit("C11/line-numbers-are-only-labels/_get_node_by_lineno", _node_by_lineno(), "P", [("osaca/semantics/kernel_dg.py", "KernelDG._get_node_by_lineno")]),
        *_search_mode_units(),
        Unit("C11/get_line_range(any number of items)", line_range_unit, "P", [(OS, "get_line_range")]),
        Unit("C11/inspect/kernel-selection(any file length)", inspect_selection_unit, "P", [(OS, "inspect"), (OS, "get_line_range")]),
        bounded_unit("C11/selection-and-transparency-end-to-end", "c11_select", [(OS, "inspect"), (OS, "get_line_range"), (MU, "reduce_to_section"),
                     ("osaca/parser/base_parser.py", "BaseParser.parse_file")], timeout=2400),
    ]
