"""C11 - kernel selection is exact and non-instruction lines are transparent.

P  find_marked_section (line list of unbounded length, loop invariant over the scan position): under the property's
   precondition (exactly one start marker S followed by exactly one end marker E; every mov-like line has two operands)
   the result is (S + 1 + number of .byte lines, E); a line differing in value, register, mnemonic or follow-up
   directive is not a marker.  match_bytes is used through its contract, which is verified separately:
Pb match_bytes (<= 3 consecutive .byte lines with <= 4 parameters each, all byte values symbolic)
P  find_marked_kernel_x86ATT / _AArch64: marker constants = the documented ones; reduce_to_section (-1 -> whole range)
L  transparency: the non-instruction instances of the C01/C03 contracts (zero pressure vector, throughput 0, latency 0,
   no operands, neither read nor written, yields nothing) are units of this check
B  end-to-end on the real inspect: marked file vs --lines vs extracted-only file vs noise-line insertion give identical
   per-instruction and summary numbers; --lines expansion; decoy markers (bounded/c11_select.py)
"""
import z3

from pyvc.engine import Engine, PathEnd
from pyvc.runner import Unit, REPO
from pyvc.sym import *  # noqa
from pyvc.bounded import bounded_unit

LEVEL = "proof"
MU = "osaca/semantics/marker_utils.py"
OS = "osaca/osaca.py"
TRUSTED = ["pyvc symbolic semantics; z3 5.1.0", "parser.normalize_imd / get_full_reg_name enter as uninterpreted attributes of the operands (their post-processing is C09/C10)"]
ASSUMPTIONS = [
    "input space of the property: exactly one start marker followed by exactly one end marker; every instruction line whose mnemonic is mov/movl and that is followed by a directive has two operands (otherwise the code raises IndexError)",
    "match_bytes: structural bound 3 .byte lines x 4 parameters (values symbolic) - label Pb",
    "get_line_range (str.replace/split/int on symbolic strings) and the end-to-end clauses are bounded only",
]
I, B = z3.IntSort(), z3.BoolSort()


def section_unit(isa):
    def unit(res):
        ex = Engine([REPO + "/" + MU])
        fn = ex.funcs["find_marked_section"]
        ex.index_loops(fn)
        N, S, E = z3.Ints("N S E")
        larr = z3.Array("lines", I, I)
        mnem = z3.Function("mnem", I, I)  # StrId code or -1 (None)
        has_mn = z3.Function("has_mn", I, B)
        has_cm = z3.Function("has_cm", I, B)
        cmt = z3.Function("cmt", I, I)
        has_dir = z3.Function("has_dir", I, B)
        op0, op1 = z3.Function("op0", I, I), z3.Function("op1", I, I)
        opcls = z3.Function("opcls", I, I)  # 0 immediate, 1 register, 2 other
        immval = z3.Function("immval", I, I)
        regname = z3.Function("regname", I, I)
        mb = z3.Function("match_bytes_ok", I, B)  # match_bytes(lines, i, nop_bytes)[0]
        mc = z3.Function("match_bytes_count", I, I)
        ops = Schema("mop", ["ImmediateOperand", "RegisterOperand", "IdentifierOperand"], {})
        ops.cls = opcls

        def operands(ex_, ref):
            return [SRef(op0(ref.t), ops), SRef(op1(ref.t), ops)]

        ln = Schema("mline", ["InstructionForm"], {"mnemonic": ("optstr",), "comment": ("optstr",), "directive": ("custom", None), "operands": ("custom", None)})
        ln.fn["mnemonic"] = (has_mn, mnem)
        ln.fn["comment"] = (has_cm, cmt)
        ln.fn["directive"] = lambda ex_, ref: Opaque("directive") if ex_.branch(has_dir(ref.t)) else None
        ln.fn["operands"] = operands
        if isa == "x86":
            movs, reg, rev, nop = ["mov", "movl"], "ebx", False, [100, 103, 144]
        else:
            movs, reg, rev, nop = ["mov"], "x1", True, [213, 3, 32, 31]
        parser = SObj("Parser")
        ex.abstract["normalize_imd"] = lambda ex_, so, a, kw: SNum(immval(a[0].t), True)
        ex.abstract["get_full_reg_name"] = lambda ex_, so, a, kw: StrId(regname(a[0].t))

        def match_bytes(ex_, so, a, kw):
            lines, idx, bl = a
            ex_.oblige("match_bytes/args", z3.BoolVal(bl == nop))
            it = num_term(idx)[0]
            return (SBool(mb(it)), SNum(mc(it), True))

        ex.abstract["match_bytes"] = match_bytes
        line = lambda i: z3.Select(larr, i)
        src = (lambda i: op0(line(i))) if not rev else (lambda i: op1(line(i)))
        dst = (lambda i: op1(line(i))) if not rev else (lambda i: op0(line(i)))

        def mov_marker(i, val):
            l = line(i)
            return z3.And(has_mn(l), z3.Or([mnem(l) == StrId.code(m) for m in movs]), i + 1 < N, has_dir(line(i + 1)),
                          opcls(src(i)) == 0, immval(src(i)) == val, opcls(dst(i)) == 1, regname(dst(i)) == StrId.code(reg), mb(i + 1))

        def cm_marker(i, text):
            l = line(i)
            return z3.And(z3.Not(has_mn(l)), has_cm(l), cmt(l) == StrId.code(text))

        is_start = lambda i: z3.Or(cm_marker(i, "OSACA-BEGIN"), mov_marker(i, 111))
        is_end = lambda i: z3.Or(cm_marker(i, "OSACA-END"), mov_marker(i, 222))
        start_of = lambda i: z3.If(cm_marker(i, "OSACA-BEGIN"), i + 1, i + 1 + mc(i + 1))
        q = z3.Int("q")
        pre = [N >= 0, 0 <= S, S < E, E < N, is_start(S), is_end(E),
               z3.ForAll([q], z3.Implies(z3.And(0 <= q, q < N, q != S), z3.Not(is_start(q)))),
               z3.ForAll([q], z3.Implies(z3.And(0 <= q, q < N, q != E), z3.Not(is_end(q)))),
               z3.ForAll([q], z3.And(opcls(q) >= 0, opcls(q) <= 2)),
               z3.ForAll([q], z3.Implies(mb(q), mc(q) >= 1)),  # contract of match_bytes (verified in C11/match_bytes)
               # a line is not start and end marker at once (111 != 222, BEGIN != END) - holds by construction
               ]

        def inv(ex_, env, k):
            ist, ien = num_term(env["index_start"])[0], num_term(env["index_end"])[0]
            return z3.And(ist == z3.If(S < k, start_of(S), -1), ien == z3.If(E < k, E, -1), k <= E + 1)

        ex.invariants[("find_marked_section", 0)] = inv

        def run():
            lines = SymSeq(N, lambda i: SRef(z3.Select(larr, i), ln))
            comments = {"start": "OSACA-BEGIN", "end": "OSACA-END"}
            return ex.call_function("find_marked_section", [lines, parser, movs, reg, [111, 222], nop], dict(reverse=rev, comments=comments))

        paths = ex.explore(run, pre)

        def post(v, p):
            if not (isinstance(v, tuple) and len(v) == 2):
                return False
            return z3.And(num_term(v[0])[0] == start_of(S), num_term(v[1])[0] == E)

        n = res.add_paths(paths, post, kind="post")
        res.note(f"{isa}: {len(paths)} paths, {n} returning")
        return res

    return unit


class ByteStr:
    def __init__(self, t):
        self.t = t

    def sym_int(self, ex, base):
        return SNum(self.t, True)


def match_bytes_unit(res):
    ex = Engine([REPO + "/" + f for f in ("osaca/parser/operand.py", "osaca/parser/directive.py", "osaca/parser/instruction_form.py", MU)])
    import itertools
    for marker in ([100, 103, 144], [213, 3, 32, 31]):
        for layout in itertools.product(range(0, 5), repeat=3):  # number of parameters of up to three consecutive .byte lines
            if 0 in layout and any(x for x in layout[layout.index(0):]):
                continue
            nlines = len([x for x in layout if x])
            bs = [[z3.Int(f"b{i}_{j}") for j in range(layout[i])] for i in range(nlines)]
            for tail in ("end", "other-directive", "instruction"):
                def run():
                    lines = [ex.instantiate("InstructionForm", kw=dict(mnemonic="mov"))]
                    for row in bs:
                        d = ex.instantiate("DirectiveOperand", kw=dict(name="byte", parameters=[ByteStr(x) for x in row]))
                        lines.append(ex.instantiate("InstructionForm", kw=dict(directive_id=d)))
                    if tail == "other-directive":
                        d = ex.instantiate("DirectiveOperand", kw=dict(name="align", parameters=[ByteStr(z3.IntVal(100))]))
                        lines.append(ex.instantiate("InstructionForm", kw=dict(directive_id=d)))
                    elif tail == "instruction":
                        lines.append(ex.instantiate("InstructionForm", kw=dict(mnemonic="add")))
                    return ex.call_function("match_bytes", [lines, 1, marker])

                paths = ex.explore(run, [])
                flat = [x for row in bs for x in row]

                def post(v, p):
                    if not (isinstance(v, tuple) and len(v) == 2):
                        return False
                    ok = z3.And([flat[i] == marker[i] for i in range(len(marker))]) if len(flat) >= len(marker) else z3.BoolVal(False)
                    okv = v[0].t if isinstance(v[0], SBool) else z3.BoolVal(bool(v[0]))
                    cnt = num_term(v[1])[0]
                    return z3.And(okv == ok, z3.Implies(ok, cnt == nlines))

                res.add_paths(paths, post, kind=f"m{len(marker)}/{''.join(map(str, layout))}/{tail}", label="Pb")
    return res


def constants_unit(res):
    ex = Engine([REPO + "/" + MU])
    ex.no_init |= {"ParserX86ATT", "ParserAArch64"}
    ex.class_alias.update(ParserX86ATT="ParserX86ATT", ParserAArch64="ParserAArch64")
    ex.classes.setdefault("ParserX86ATT", {"__consts__": {}})
    ex.classes.setdefault("ParserAArch64", {"__consts__": {}})
    got = {}

    def fms(ex_, so, a, kw):
        got["args"] = (a, kw)
        return (SNum(z3.Int("st"), True), SNum(z3.Int("en"), True))

    ex.abstract["find_marked_section"] = fms
    N = z3.Int("N")
    seq = SymSeq(N, lambda i: SNum(i, True))
    want = {"find_marked_kernel_x86ATT": (["mov", "movl"], "ebx", [111, 222], [100, 103, 144], False, "ParserX86ATT"),
            "find_marked_kernel_AArch64": (["mov"], "x1", [111, 222], [213, 3, 32, 31], True, "ParserAArch64")}
    for fn, (movs, reg, vals, nop, rev, pcls) in want.items():
        paths = ex.explore(lambda: ex.call_function(fn, [seq]), [N >= 0])
        for p in paths:
            a, kw = got["args"]
            ok = (a[0] is seq and isinstance(a[1], SObj) and a[1].cls == pcls and a[2] == movs and a[3] == reg and a[4] == vals and a[5] == nop
                  and bool(kw.get("reverse", False)) == rev and kw.get("comments") == {"start": "OSACA-BEGIN", "end": "OSACA-END"})
            res.add(f"{fn}/documented-marker-constants", p.pc, bool(ok))
    # reduce_to_section
    st, en = z3.Ints("st en")
    for isa in ("x86", "aarch64", "X86", "AArch64"):
        paths = ex.explore(lambda: ex.call_function("reduce_to_section", [seq, isa]), [N >= 0, st >= -1, en >= -1, st <= N, en <= N])

        def post(v, p):
            if not isinstance(v, SymSeq):
                return False
            lo = z3.If(st == -1, 0, st)
            hi = z3.If(en == -1, N, en)
            k = z3.Int("kk")
            return z3.And(v.length == z3.If(hi > lo, hi - lo, 0), z3.ForAll([k], z3.Implies(z3.And(0 <= k, k < v.length), num_term(v.at(k))[0] == lo + k)))

        res.add_paths(paths, post, kind=f"reduce_to_section[{isa}]")
    return res


def units(tier):
    from .c01 import tp_lt_trivial_unit
    AS = "osaca/semantics/arch_semantics.py"
    return [
        Unit("C11/find_marked_section/x86", section_unit("x86"), "P", [(MU, "find_marked_section")]),
        Unit("C11/find_marked_section/aarch64", section_unit("aarch64"), "P", [(MU, "find_marked_section")]),
        Unit("C11/match_bytes", match_bytes_unit, "Pb", [(MU, "match_bytes")]),
        Unit("C11/marker-constants+reduce_to_section", constants_unit, "P", [(MU, "find_marked_kernel_x86ATT"), (MU, "find_marked_kernel_AArch64"), (MU, "reduce_to_section")]),
        Unit("C11/transparency/assign_tp_lt(no mnemonic)", tp_lt_trivial_unit, "P", [(AS, "ArchSemantics.assign_tp_lt")]),
        bounded_unit("C11/selection-and-transparency-end-to-end", "c11_select", [(OS, "inspect"), (OS, "get_line_range"), (MU, "reduce_to_section"),
                     ("osaca/parser/base_parser.py", "BaseParser.parse_file")], timeout=2400),
    ]
