"""C07 - instruction-form lookup is sound and complete for operand kinds.

P  MachineModel._check_operands with _check_x86_operands / _check_AArch64_operands, _is_x86_reg_type, _is_AArch64_reg_type,
   _is_x86_mem_type, _is_AArch64_mem_type: for every (entry-operand shape x parsed-operand shape) with symbolic leaves the
   result equals the reference matcher contracts/spec_matcher.py (the same text is executed natively by the bounded unit).
P  MachineModel._match_operands (operand lists of unbounded length, loop invariant): equal length and all positions agree.
Pb MachineModel.get_instruction (<= 3 entries under the name): upper-cased name key, first entry in list order that matches, None otherwise.
P  suffix fall-backs of assign_tp_lt / assign_src_dst: in contracts/c08.py (shared units)
B  every entry of the shipped models: the instruction synthesised from the entry's own pattern is found, and the entry
   returned is the first in file order that the reference matcher accepts (bounded/c07_entries.py).
"""
import itertools
import z3

from pyvc.engine import Engine
from pyvc.runner import Unit, REPO, VERIF
from pyvc.sym import *  # noqa
from pyvc.bounded import bounded_unit
from . import spec_regs as SR

LEVEL = "proof"
HW = "osaca/semantics/hw_model.py"
PX = "osaca/parser/parser_x86att.py"
OPF = ["osaca/parser/operand.py", "osaca/parser/register.py", "osaca/parser/memory.py", "osaca/parser/immediate.py", "osaca/parser/identifier.py",
       "osaca/parser/condition.py", "osaca/parser/prefetch.py", "osaca/parser/flag.py", "osaca/parser/instruction_form.py"]
TRUSTED = ["pyvc symbolic semantics; z3 5.1.0", "contracts/spec_matcher.py (reference matcher written from the statement)"]
ASSUMPTIONS = [
    "spec decisions excluded from the claim: x86 mask registers k0-7 vs 'gpr' entries; AArch64 'lanes'; AArch64 operand without arrangement vs entry with one; entry classes that are no classes (mm0, ximm, have)",
    "x86 register operands: all architectural names except k0-7 in any letter case; address registers of memory operands: 8 representative names",
    "entry operands range over the vocabulary of the shipped model files (class strings / None / '*')",
    "get_instruction: <= 3 entries per mnemonic (structure bounded)",
]
X86_REGNAMES = [n for n in SR.X86_NAMES if not (n[0] == "k" and n[1:].isdigit())]
ADDR_REGS = ["rax", "RAX", "r13", "rsp", "eax", "xmm2", "ymm3", "rip"]


def tb(v):
    if isinstance(v, SBool):
        return v.t
    if isinstance(v, (SObj, MatchObj)):
        return z3.BoolVal(True)
    return z3.BoolVal(bool(v))


def engine(isa):
    ex = Engine([REPO + "/" + f for f in OPF + [PX, HW]] + [VERIF + "/contracts/spec_matcher.py"])
    ex.no_init |= {"ParserX86ATT", "MachineModel"}
    return ex


def mm(isa):
    return SObj("MachineModel", _data={"isa": isa})


# ------------------------------------------------------------------ x86
def x86_parsed_operands(ex, kind, tag=""):
    """-> (constructor(), precondition list, offset kind) for one parsed-operand shape"""
    if kind == "reg":
        n = BStr.fresh("rn" + tag, 5)
        pre = [n.wf(), bstr_map(n, char_lower).is_one_of(X86_REGNAMES)]
        return (lambda: ex.instantiate("RegisterOperand", kw=dict(name=n))), pre, None
    if kind == "imm":
        return (lambda: ex.instantiate("ImmediateOperand", kw=dict(value=SNum(z3.Int("iv" + tag), True)))), [], None
    if kind == "ident":
        return (lambda: ex.instantiate("IdentifierOperand", kw=dict(name="lbl"))), [], None
    if kind == "wild":
        return (lambda: {"*": "*"}), [], None
    raise ValueError(kind)


def x86_unit_regs(res):
    ex = engine("x86")
    for pk in ("reg", "imm", "ident", "wild"):
        for ek in ("gpr", "xmm", "ymm", "zmm", "mm", "*", "imm", "ident"):
            mk, pre, _ = x86_parsed_operands(ex, pk)

            def run():
                op = mk()
                if ek == "imm":
                    e = ex.instantiate("ImmediateOperand", kw=dict(imd_type="int"))
                elif ek == "ident":
                    e = ex.instantiate("IdentifierOperand", kw=dict())
                else:
                    e = ex.instantiate("RegisterOperand", kw=dict(name=ek))
                got = ex.call_method("MachineModel", "_check_operands", mm("x86"), [e, op])
                if pk == "reg" and ek not in ("imm", "ident"):
                    want = ex.call_function("x86_reg_agrees", [ek, op])
                elif pk == "wild":
                    want = ek not in ("imm", "ident")
                else:
                    want = (pk == ek)
                return (got, want)

            paths = ex.explore(run, pre)
            res.add_paths(paths, lambda v, p: tb(v[0]) == tb(v[1]), kind=f"x86[{ek} <- {pk}]")
    return res


def x86_unit_mem(ebase, eoffs=(None, "imd", "id", "*")):
    def unit(res):
        ex = engine("x86")
        for eoff, eidx, escale in itertools.product(eoffs, (None, "gpr", "xmm", "*"), ("sym", "*")):
            for pb, po, pi in itertools.product((False, True), ("none", "imm", "ident"), (False, True)):
                bn, inn = BStr.fresh("bn", 4), BStr.fresh("in", 4)
                es, ps, ov = z3.Ints("es ps ov")
                pre = [bn.wf(), inn.wf(), bn.is_one_of(ADDR_REGS), inn.is_one_of(ADDR_REGS), es >= 1, ps >= 1]

                def run():
                    R = lambda n: ex.instantiate("RegisterOperand", kw=dict(name=n))
                    off = {"none": None, "imm": ex.instantiate("ImmediateOperand", kw=dict(value=SNum(ov, True))), "ident": ex.instantiate("IdentifierOperand", kw=dict(name="sym"))}[po]
                    m = ex.instantiate("MemoryOperand", kw=dict(offset=off, base=R(bn) if pb else None, index=R(inn) if pi else None, scale=SNum(ps, True)))
                    e = ex.instantiate("MemoryOperand", kw=dict(offset=eoff, base=ebase, index=eidx, scale="*" if escale == "*" else SNum(es, True)))
                    got = ex.call_method("MachineModel", "_check_operands", mm("x86"), [e, m])
                    want = ex.call_function("x86_mem_agrees", [e, m, {"none": None, "imm": "imd", "ident": "id"}[po]])
                    return (got, want)

                paths = ex.explore(run, pre)
                res.add_paths(paths, lambda v, p: tb(v[0]) == tb(v[1]), kind=f"x86mem[e=({ebase},{eoff},{eidx},{escale}) <- p=({int(pb)},{po},{int(pi)})]")
        # a memory operand never matches a non-memory entry and vice versa
        for ek in ("gpr", "imm", "ident"):
            def run2():
                m = ex.instantiate("MemoryOperand", kw=dict(base=ex.instantiate("RegisterOperand", kw=dict(name="rax"))))
                e = ex.instantiate("RegisterOperand", kw=dict(name="gpr")) if ek == "gpr" else ex.instantiate("ImmediateOperand", kw=dict(imd_type="int")) if ek == "imm" else ex.instantiate("IdentifierOperand", kw=dict())
                return ex.call_method("MachineModel", "_check_operands", mm("x86"), [e, m])
            res.add_paths(ex.explore(run2, []), lambda v, p: z3.Not(tb(v)), kind=f"x86mem[{ek} <- mem]")
        return res

    return unit


# ------------------------------------------------------------------ AArch64
A64_PREFIXES = list("xwbhsdqvzp")
A64_SHAPES = [None, "b", "h", "s", "d", "*"]


def a64_unit_regs(res):
    ex = engine("aarch64")
    for eprefix in A64_PREFIXES + ["*"]:
        for eshape in A64_SHAPES:
            pp_ = BStr.fresh("pp", 1)
            ps_ = BStr.fresh("ps", 1)
            for has_shape in (False, True):
                if not has_shape and eshape is not None:
                    continue  # spec decision: operand without arrangement vs entry with one (excluded)
                pre = [pp_.wf(), ps_.wf(), pp_.is_one_of(A64_PREFIXES), ps_.is_one_of(["b", "h", "s", "d", "q"])]

                def run():
                    op = ex.instantiate("RegisterOperand", kw=dict(prefix=pp_, name="3", shape=ps_ if has_shape else None))
                    e = ex.instantiate("RegisterOperand", kw=dict(prefix=eprefix, shape=eshape))
                    got = ex.call_method("MachineModel", "_check_operands", mm("aarch64"), [e, op])
                    want = ex.call_function("a64_reg_agrees", [e, op])
                    return (got, want)

                paths = ex.explore(run, pre)
                res.add_paths(paths, lambda v, p: tb(v[0]) == tb(v[1]), kind=f"a64[{eprefix}.{eshape} <- reg shape={has_shape}]")
    # other kinds
    iv = z3.Int("iv")
    for etype in ("int", "float", "double", "*"):
        for ptype in ("int", "float", "double"):
            for has_value in (True, False):
                def run():
                    op = ex.instantiate("ImmediateOperand", kw=dict(imd_type=ptype, value=SNum(iv, True) if has_value else None))
                    e = ex.instantiate("ImmediateOperand", kw=dict(imd_type=etype))
                    got = ex.call_method("MachineModel", "_check_operands", mm("aarch64"), [e, op])
                    want = ex.call_function("imm_agrees_a64", [etype, ptype, has_value])
                    return (got, want)
                res.add_paths(ex.explore(run, []), lambda v, p: tb(v[0]) == tb(v[1]), kind=f"a64imm[{etype} <- {ptype},{has_value}]")
    kinds = {
        "reg": lambda: ex.instantiate("RegisterOperand", kw=dict(prefix="x", name="1")),
        "imm": lambda: ex.instantiate("ImmediateOperand", kw=dict(imd_type="int", value=1)),
        "ident": lambda: ex.instantiate("IdentifierOperand", kw=dict(name="lbl")),
        "immident": lambda: ex.instantiate("ImmediateOperand", kw=dict(identifier="lbl")),
        "cond": lambda: ex.instantiate("ConditionOperand", kw=dict(ccode="EQ")),
        "prf": lambda: ex.instantiate("PrefetchOperand", kw=dict(type_id=["PLD"], target=["L1"], policy=["KEEP"])),
        "mem": lambda: ex.instantiate("MemoryOperand", kw=dict(base=ex.instantiate("RegisterOperand", kw=dict(prefix="x", name="1")))),
        "wild": lambda: {"*": "*"},
    }
    ekinds = {
        "reg": lambda: ex.instantiate("RegisterOperand", kw=dict(prefix="x")),
        "imm": lambda: ex.instantiate("ImmediateOperand", kw=dict(imd_type="int")),
        "ident": lambda: ex.instantiate("IdentifierOperand", kw=dict()),
        "cond*": lambda: ex.instantiate("ConditionOperand", kw=dict(ccode="*")),
        "condEQ": lambda: ex.instantiate("ConditionOperand", kw=dict(ccode="EQ")),
        "condNE": lambda: ex.instantiate("ConditionOperand", kw=dict(ccode="NE")),
        "prf": lambda: ex.instantiate("PrefetchOperand", kw=dict()),
        "mem": lambda: ex.instantiate("MemoryOperand", kw=dict(base="x", offset="*", index="*", scale="*")),
    }
    agree = {("reg", "reg"), ("imm", "imm"), ("ident", "ident"), ("immident", "ident"), ("cond", "cond*"), ("cond", "condEQ"), ("prf", "prf"), ("mem", "mem"), ("wild", "reg")}
    for pk, mkp in kinds.items():
        for ek, mke in ekinds.items():
            def run():
                return ex.call_method("MachineModel", "_check_operands", mm("aarch64"), [mke(), mkp()])
            want = (pk, ek) in agree
            res.add_paths(ex.explore(run, []), lambda v, p, want=want: tb(v) == z3.BoolVal(want), kind=f"a64kind[{ek} <- {pk}]")
    return res


def a64_unit_mem(ebase, eoffs=(None, "imd", "*"), eidxs=(None, "x", "z", "*")):
    def unit(res):
        ex = engine("aarch64")
        for eoff, eidx, escale, epre, epost in itertools.product(eoffs, eidxs, ("sym", "*"), (False, True, "*"), (False, True, "*")):
            for pb, po, pi, ppre, ppost in itertools.product((True,), ("none", "imm", "ident"), (False, True), (False, True), ("no", "true", "dict", "regdict")):
                if ppre and ppost != "no":
                    continue
                ip = BStr.fresh("ip", 1)
                bp = BStr.fresh("bp", 1)
                es, ps, ov = z3.Ints("es ps ov")
                pre = [ip.wf(), bp.wf(), ip.is_one_of(["x", "w", "z"]), bp.is_one_of(["x", "w"]), es >= 1, ps >= 1]

                def run():
                    off = {"none": None, "imm": ex.instantiate("ImmediateOperand", kw=dict(value=SNum(ov, True))), "ident": ex.instantiate("IdentifierOperand", kw=dict(name="sym"))}[po]
                    m = ex.instantiate("MemoryOperand", kw=dict(offset=off, base=ex.instantiate("RegisterOperand", kw=dict(prefix=bp, name="1")),
                                                              index=ex.instantiate("RegisterOperand", kw=dict(prefix=ip, name="2")) if pi else None, scale=SNum(ps, True),
                                                              pre_indexed=ppre, post_indexed={"no": False, "true": True, "dict": {"value": SNum(ov, True)},
                                                                                                  # post-index by a register, as the parser stores it ('ld1 {v0.2d}, [x0], x1')
                                                                                                  "regdict": {"identifier": {"name": "x1"}}}[ppost]))
                    e = ex.instantiate("MemoryOperand", kw=dict(offset=eoff, base=ebase, index=eidx, scale="*" if escale == "*" else SNum(es, True), pre_indexed=epre, post_indexed=epost))
                    got = ex.call_method("MachineModel", "_check_operands", mm("aarch64"), [e, m])
                    want = ex.call_function("a64_mem_agrees", [e, m, {"none": None, "imm": "imd", "ident": "id"}[po]])
                    return (got, want)

                if po == "ident":
                    continue  # identifier displacements: entries use IdentifierOperand objects there (not in the shipped vocabulary)
                paths = ex.explore(run, pre)
                res.add_paths(paths, lambda v, p: tb(v[0]) == tb(v[1]), kind=f"a64mem[e=({ebase},{eoff},{eidx},{escale},{epre},{epost}) <- p=({po},{int(pi)},{int(ppre)},{ppost})]")
        return res

    return unit


# ------------------------------------------------------------------ _match_operands / get_instruction
def match_operands_unit(res):
    ex = Engine([REPO + "/" + HW])
    ex.no_init.add("MachineModel")
    fn, _ = ex.find_method("MachineModel", "_match_operands")
    ex.index_loops(fn)
    I_ = z3.IntSort()
    chk = z3.Function("chk", I_, I_, z3.BoolSort())
    sch = Schema("mo", ["Operand"], {})
    ia, oa = z3.Array("i_operands", I_, I_), z3.Array("operands", I_, I_)
    il, ol = z3.Ints("ilen olen")
    j = z3.Int("j")
    ex.abstract["_check_operands"] = lambda ex_, so, a, kw: SBool(chk(a[0].t, a[1].t))
    # invariant in terms of the abstraction ("all operands before k matched"): carried by an accumulator flag if the code keeps one
    # (whatever its name), by control flow if the loop returns early at the first mismatch
    def inv(ex_, env, k):
        allok = z3.ForAll([j], z3.Implies(z3.And(0 <= j, j < k), chk(z3.Select(ia, j), z3.Select(oa, j))))
        flags = [v for n, v in env.items() if isinstance(v, (bool, SBool)) and n not in ("self",)]
        return tb(flags[0]) == allok if len(flags) == 1 else allok

    ex.invariants[("_match_operands", 0)] = inv

    def run():
        return ex.call_method("MachineModel", "_match_operands", SObj("MachineModel"), [SymSeq.of_refs(ia, il, sch), SymSeq.of_refs(oa, ol, sch)])

    paths = ex.explore(run, [il >= 0, ol >= 0])
    spec = z3.And(il == ol, z3.ForAll([j], z3.Implies(z3.And(0 <= j, j < ol), chk(z3.Select(ia, j), z3.Select(oa, j)))))
    res.add_paths(paths, lambda v, p: tb(v) == spec, kind="post")
    return res


def get_instruction_unit(res):
    ex = Engine([REPO + "/" + f for f in OPF + [HW]])
    ex.no_init.add("MachineModel")
    m = [z3.Bool(f"match{i}") for i in range(3)]
    for n in range(0, 4):
        for name_case in ("add", "ADD", "Add", None):
            def run():
                entries = [ex.instantiate("InstructionForm", kw=dict(mnemonic="ADD", operands=[i])) for i in range(n)]
                ex.extra["entries"] = entries
                ex.abstract["_match_operands"] = lambda ex_, so, a, kw: SBool(m[a[0][0]])
                data = {"instruction_forms_dict": {"ADD": entries, "SUB": [ex.instantiate("InstructionForm", kw=dict(mnemonic="SUB"))]}}
                return ex.call_method("MachineModel", "get_instruction", SObj("MachineModel", _data=data), [name_case, ["parsed-operands"]])

            paths = ex.explore(run, [])

            def post(v, p):
                ents = p.extra["entries"]
                if name_case is None:
                    return v is None
                g = []
                for i in range(n):
                    first = z3.And([z3.Not(m[k]) for k in range(i)] + [m[i]])
                    g.append(z3.Implies(first, z3.BoolVal(v is ents[i])))
                g.append(z3.Implies(z3.And([z3.Not(m[k]) for k in range(n)] + [z3.BoolVal(True)]), z3.BoolVal(v is None)))
                return z3.And(g)

            res.add_paths(paths, post, kind=f"n{n}/{name_case}", label="Pb")
    return res


def get_instruction_any_unit(res):
    """P: MachineModel.get_instruction for a name's entry list of ANY length: the first entry, in list order, whose operand
    pattern matches (contract of _match_operands: own unit), None if there is none or the name is None / unknown; the key
    is the upper-cased name."""
    ex = Engine([REPO + "/" + f for f in OPF + [HW]])
    ex.no_init.add("MachineModel")
    I_ = z3.IntSort()
    N = z3.Int("n_entries")
    mt = z3.Function("entry_matches", I_, z3.BoolSort())
    ent = Schema("mentry", ["InstructionForm"], {"operands": ("custom", None)})
    ent.fn["operands"] = lambda ex_, ref: ("pattern", ref.t)
    parsed = ["parsed-operands"]

    def mo(ex_, so, a, kw):
        if not (isinstance(a[0], tuple) and a[0][0] == "pattern" and a[1] is parsed):
            ex_.oblige("_match_operands/called-with-(entry pattern, parsed operands)", False)
            return SBool(z3.BoolVal(False))
        return SBool(mt(a[0][1]))

    for name_case in ("add", "ADD", "Add", "sub", None):
        def run():
            ex.abstract["_match_operands"] = mo
            data = {"instruction_forms_dict": {"ADD": SymSeq(N, lambda i: SRef(i, ent))}}
            return ex.call_method("MachineModel", "get_instruction", SObj("MachineModel", _data=data), [name_case, parsed])

        paths = ex.explore(run, [N >= 0])
        j = z3.Int("j")

        def post(v, p, name_case=name_case):
            if name_case in (None, "sub"):
                return v is None
            none = z3.ForAll([j], z3.Implies(z3.And(0 <= j, j < N), z3.Not(mt(j))))
            if v is None:
                return none
            if not isinstance(v, SRef):
                return False
            return z3.And(0 <= v.t, v.t < N, mt(v.t), z3.ForAll([j], z3.Implies(z3.And(0 <= j, j < v.t), z3.Not(mt(j)))))

        res.add_paths(paths, post, kind=f"name={name_case}")
    return res


def operand_to_class_unit(res):
    """P: MachineModel.operand_to_class (the loader's conversion of one operand pattern): for every operand class and every
    subset of the optional keys, the constructed operand carries exactly the values written in the file (the very objects; register
    prefix / shape lower-cased, condition code upper-cased), absent flags default to False, absent names to None; an operand of
    an unknown class is kept as it is.  This is the link between 'patterns as written' (loader fidelity, bounded) and the matcher
    contracts above."""
    import itertools
    ex = Engine([REPO + "/" + f for f in OPF + [HW]])
    ex.no_init.add("MachineModel")
    tok = lambda nm: Opaque(nm)
    cases = []
    opt_reg = ["name", "prefix", "shape", "mask", "pre_indexed", "post_indexed", "source", "destination"]
    for present in itertools.chain.from_iterable(itertools.combinations(opt_reg, r) for r in (0, 1, 2, 8)):
        cases.append(("register", set(present)))
    for present in itertools.chain.from_iterable(itertools.combinations(["source", "destination", "pre_indexed", "post_indexed"], r) for r in range(5)):
        for basekind, indexkind in (("str", "str"), ("dict", "dict"), ("none", "none"), ("dict", "dictprefix")):
            cases.append(("memory", set(present) | {"b:" + basekind, "i:" + indexkind}))
    for cls_, keys in (("immediate", ["source", "destination"]), ("identifier", ["name", "source", "destination"]), ("condition", ["source", "destination"]),
                       ("flag", ["source", "destination"]), ("prfop", ["type", "target", "policy"])):
        for present in itertools.chain.from_iterable(itertools.combinations(keys, r) for r in range(len(keys) + 1)):
            cases.append((cls_, set(present)))
    cases.append(("somethingelse", set()))
    for cls_, present in cases:
        def run(cls_=cls_, present=present):
            o = {"class": cls_}
            vals = {}
            for k in present:
                if ":" in k:
                    continue
                vals[k] = ("Xx" if k in ("prefix", "shape") else "*" if k in ("pre_indexed", "post_indexed") else tok(k))  # '*': the files' wildcard
                o[k] = vals[k]
            if cls_ == "memory":
                bk, ik = [k[2:] for k in sorted(present) if k.startswith("b:")][0], [k[2:] for k in sorted(present) if k.startswith("i:")][0]
                vals["base"] = {"str": "gpr", "none": None, "dict": {"name": "rsp"}}[bk]
                vals["index"] = {"str": "gpr", "none": None, "dict": {"name": "rcx"}, "dictprefix": {"name": "3", "prefix": "w"}}[ik]
                vals["offset"], vals["scale"] = tok("offset"), tok("scale")
                o.update(base=vals["base"], index=vals["index"], offset=vals["offset"], scale=vals["scale"])
            if cls_ == "immediate":
                vals["imd"] = o["imd"] = tok("imd")
            if cls_ == "condition":
                vals["ccode"] = o["ccode"] = "ne"
            if cls_ == "flag":
                vals["name"] = o["name"] = tok("flagname")
            out = []
            ex.call_method("MachineModel", "operand_to_class", SObj("MachineModel"), [o, out])
            ex.extra.update(vals=vals, o=o)
            return out

        paths = ex.explore(run, [])

        def post(v, p, cls_=cls_, present=present):
            vals, o = p.extra["vals"], p.extra["o"]
            if not (isinstance(v, list) and len(v) == 1):
                return False
            x = v[0]
            if cls_ == "somethingelse":
                return x is o
            want_cls = {"register": "RegisterOperand", "memory": "MemoryOperand", "immediate": "ImmediateOperand", "identifier": "IdentifierOperand",
                        "condition": "ConditionOperand", "flag": "FlagOperand", "prfop": "PrefetchOperand"}[cls_]
            if not (isinstance(x, SObj) and x.cls == want_cls):
                return False
            f = x.fields
            same = lambda got, k, dflt: (got is vals[k]) if k in vals else (got is dflt or got == dflt)
            g = []
            if cls_ != "prfop":
                g += [same(f.get("_source"), "source", False), same(f.get("_destination"), "destination", False)]
            if cls_ == "register":
                g += [same(f.get("_name"), "name", None), f.get("_prefix") == ("xx" if "prefix" in present else None), f.get("_shape") == ("xx" if "shape" in present else None),
                      same(f.get("_mask"), "mask", False), same(f.get("_pre_indexed"), "pre_indexed", False), same(f.get("_post_indexed"), "post_indexed", False)]
            if cls_ == "memory":
                g += [f.get("_offset") is vals["offset"], f.get("_scale") is vals["scale"], same(f.get("_pre_indexed"), "pre_indexed", False), same(f.get("_post_indexed"), "post_indexed", False)]
                for part in ("base", "index"):
                    w, got = vals[part], f.get("_" + part)
                    if isinstance(w, dict):
                        g.append(isinstance(got, SObj) and got.cls == "RegisterOperand" and got.fields.get("_name") == w["name"] and got.fields.get("_prefix") == (w.get("prefix") if part == "index" else None))
                    else:
                        g.append(got is w or got == w)
            if cls_ == "immediate":
                g.append(f.get("_imd_type") is vals["imd"])
            if cls_ == "identifier":
                g.append(same(f.get("_name"), "name", None))
            if cls_ == "condition":
                g.append(f.get("_ccode") == "NE")
            if cls_ == "flag":
                g.append(f.get("_name") is vals["name"])
            if cls_ == "prfop":
                g += [same(f.get("_type_id"), "type", None), same(f.get("_target"), "target", None), same(f.get("_policy"), "policy", None)]
            return all(bool(b) for b in g)

        res.add_paths(paths, post, kind=f"{cls_}/{'+'.join(sorted(present)) or 'minimal'}")
    return res


def _loader_unit():
    from .c15 import loader_unit
    return loader_unit


def units(tier):
    us = [Unit("C07/x86/_check_operands/registers-and-kinds", x86_unit_regs, "P",
               [(HW, "MachineModel._check_operands"), (HW, "MachineModel._check_x86_operands"), (HW, "MachineModel._is_x86_reg_type"), (PX, "ParserX86ATT.is_vector_register")], timeout=1500)]
    for eb in (None, "gpr", "*"):
        for eo in ((None, "imd"), ("id", "*")):
            us.append(Unit(f"C07/x86/_is_x86_mem_type/entry-base={eb}/offset={'|'.join(map(str, eo))}", x86_unit_mem(eb, eo), "P",
                           [(HW, "MachineModel._is_x86_mem_type"), (HW, "MachineModel._is_x86_reg_type")], timeout=1800))
    us.append(Unit("C07/aarch64/_check_operands/registers-and-kinds", a64_unit_regs, "P",
                   [(HW, "MachineModel._check_AArch64_operands"), (HW, "MachineModel._is_AArch64_reg_type")], timeout=1500))
    for eb in ("x", "*"):
        for eo in (None, "imd", "*"):
            for ei in ((None, "x"), ("z", "*")):
                us.append(Unit(f"C07/aarch64/_is_AArch64_mem_type/entry-base={eb}/offset={eo}/index={'|'.join(map(str, ei))}", a64_unit_mem(eb, (eo,), ei), "P",
                               [(HW, "MachineModel._is_AArch64_mem_type")], timeout=1800))
    from .c03 import roles_unit
    from .c08 import compose_unit
    ISAF = "osaca/semantics/isa_semantics.py"
    us += [
        Unit("C07/suffix-fall-backs/assign_src_dst/x86", roles_unit("x86"), "Pb", [(ISAF, "ISASemantics.assign_src_dst")], timeout=1500),
        Unit("C07/suffix-fall-backs/assign_src_dst/aarch64", roles_unit("aarch64"), "Pb", [(ISAF, "ISASemantics.assign_src_dst")], timeout=1500),
        Unit("C07/suffix-fall-backs/assign_tp_lt/x86", compose_unit("x86"), "Pb", [("osaca/semantics/arch_semantics.py", "ArchSemantics.assign_tp_lt")], timeout=1500),
        Unit("C07/suffix-fall-backs/assign_tp_lt/aarch64", compose_unit("aarch64"), "Pb", [("osaca/semantics/arch_semantics.py", "ArchSemantics.assign_tp_lt")], timeout=1500),
        Unit("C07/MachineModel.__init__(loader: per-mnemonic index in file order)", _loader_unit(), "Pb", [(HW, "MachineModel.__init__")], decisive=False),
        Unit("C07/operand_to_class(loader: patterns as written)", operand_to_class_unit, "P", [(HW, "MachineModel.operand_to_class")]),
        Unit("C07/_match_operands", match_operands_unit, "P", [(HW, "MachineModel._match_operands")]),
        Unit("C07/get_instruction", get_instruction_unit, "Pb", [(HW, "MachineModel.get_instruction")]),
        Unit("C07/get_instruction(any number of entries)", get_instruction_any_unit, "P", [(HW, "MachineModel.get_instruction")]),
        bounded_unit("C07/shipped-entries-self-lookup", "c07_entries", [(HW, "MachineModel.get_instruction"), (HW, "MachineModel.__init__"), (HW, "MachineModel.operand_to_class")], timeout=2400),
    ]
    return us
