"""C15 - every shipped model entry is well-formed and can be costed.

E  exhaustive evaluation of the data-structure invariant wf_model on EVERY instruction form of every non-empty shipped
   model, both ISA databases and all load/store tables, loaded through the current loader; plus the real --db-check
   counters against an independent count over the plain YAML (bounded/c15_wf.py; finite space, enumerated completely).
P  under wf_model costing raises nothing: MachineModel.average_port_pressure raises KeyError exactly for a port that is not
   in the port list and nothing else (C01 units, for any number of ports / micro-ops) and _handle_instruction_found /
   the composition branch are exception-free under wf (C01 / C08 units).
P  _check_sanity_arch_db: the three missing_* lists receive exactly the entries whose value is None, once each.
"""
import z3

from pyvc.engine import Engine
from pyvc.runner import Unit, REPO
from pyvc.sym import *  # noqa
from pyvc.bounded import bounded_unit
from .c09 import GhostList

LEVEL = "proof"
DBI = "osaca/db_interface.py"
HW = "osaca/semantics/hw_model.py"
TRUSTED = ["pyvc symbolic semantics; z3 5.1.0", "bounded/c15_wf.py wf_model predicate (written from the statement)"]
ASSUMPTIONS = ["the data half is an exhaustive run over the files in the working tree (emptied models csx/skx/bdw are skipped, as the property says)",
               "CLI costing of one synthesised instruction per entry is the thorough tier of the harness"]
I = z3.IntSort()


def sanity_counter_unit(res):
    ex = Engine([REPO + "/" + DBI])
    fn = ex.funcs["_check_sanity_arch_db"]
    ex.index_loops(fn)
    N = z3.Int("N")
    tpn = z3.Function("tp_is_none", I, z3.BoolSort())
    ltn = z3.Function("lt_is_none", I, z3.BoolSort())
    ppn = z3.Function("pp_is_none", I, z3.BoolSort())

    class Entry:
        def __init__(self, t):
            self.t = t

        def sym_getitem(self, ex_, k):
            if k == "throughput":
                return None if ex_.branch(tpn(self.t)) else Fraction(1)
            if k == "latency":
                return None if ex_.branch(ltn(self.t)) else Fraction(1)
            if k == "port_pressure":
                return None if ex_.branch(ppn(self.t)) else [[1, "0"]]
            if k == "name":
                return "nop"
            if k == "operands":
                return []
            raise PyRaise("KeyError", str(k))

        def sym_setitem(self, ex_, k, v):
            return None

    class GL(GhostList):
        def sym_contains(self, ex_, item):
            return SBool(z3.FreshBool("member"))

        def sym_len(self, ex_):
            return SNum(z3.FreshInt("len"), True)

    lists = ("missing_throughput", "missing_latency", "missing_port_pressure", "suspicious_instructions", "duplicate_instr_arch")
    state = {}

    class Hook:
        def pre_havoc(self, ex_, env):
            for n in lists:
                if isinstance(env.get(n), list):
                    env[n] = state[n] = GL()

        def on_body_start(self, ex_, env, k):
            for n in lists:
                state[n].calls.clear()
            state["k"] = k

        def on_body_end(self, ex_, env, k):
            for n, pred in (("missing_throughput", tpn), ("missing_latency", ltn), ("missing_port_pressure", ppn)):
                calls = state[n].calls
                ok = len(calls) <= 1 and all(isinstance(c, Entry) for c in calls)
                ex_.oblige(f"{n}/exactly-the-entries-with-None", z3.And(z3.BoolVal(len(calls) == 1) == pred(k), z3.BoolVal(ok), calls[0].t == k if calls and ok else z3.BoolVal(True)))

    class EndAfterLoop:
        def sym_for(self, ex_, s, it, env, cls):
            from pyvc.engine import PathEnd
            raise PathEnd()

    ex.loop_hooks[("_check_sanity_arch_db", 0)] = Hook()
    ex.loop_hooks[("_check_sanity_arch_db", 2)] = EndAfterLoop()
    ex.invariants[("_check_sanity_arch_db", 0)] = lambda ex_, env, k: z3.BoolVal(True)

    class MM:
        def __init__(self, isa):
            self.isa = isa

        def sym_method(self, ex_, name, args, kw):
            if name == "get_ISA":
                return self.isa
            if name == "get_instruction":
                return None if ex_.choice() else Opaque("entry")
            if name == "_check_for_duplicate":
                return SBool(z3.FreshBool("dup"))
            raise Unsupported(name)

        def sym_getitem(self, ex_, k):
            if k == "instruction_forms":
                return SymSeq(N, lambda i: Entry(i))
            raise PyRaise("KeyError", str(k))

    for isa in ("x86", "aarch64"):
        def run():
            state.clear()
            return ex.call_function("_check_sanity_arch_db", [MM(isa), MM(isa)], dict(internet_check=False))

        paths = ex.explore(run, [N >= 0])
        res.add_paths(paths, None, kind=f"post[{isa}]")
    return res


def sanity_report_unit(res):
    """P: _get_sanity_report and sanity_check (real code).  (1) for lists of ANY length and any total > 0 the summary names, in
    the sentence about throughput / latency / port pressure, the length of the list of forms lacking that value together with the
    total (the sentences are recognised by these words; other wording -> contract not applicable); (2) sanity_check hands the
    lists it got from _check_sanity_arch_db (whose contract is the counter unit) to the report in exactly that role, the total is
    the number of instruction forms of the model, the report is printed to the output stream (the function's boolean result is not part of the property)."""
    ex = Engine([REPO + "/" + DBI])
    names = ("m_tp", "m_l", "m_pp", "suspic", "dup_arch", "dup_isa", "only_isa", "bad")
    L = {n: z3.Int("len_" + n) for n in names}
    total = z3.Int("total")
    for verbose in (False, True):
        def run(verbose=verbose):
            ex.abstract["_get_sanity_report_verbose"] = lambda ex_, so, a, kw: OpaqueStr("verbose part")
            lists = [SymSeq(L[n], lambda i: "entry") for n in names]
            return ex.call_function("_get_sanity_report", [SNum(total, True)] + lists, kw=dict(verbose=verbose))

        paths = ex.explore(run, [total > 0] + [L[n] >= 0 for n in names])

        def post(v, p):
            pieces = [x for x in getattr(v, "parts", []) if isinstance(getattr(x, "template", None), str)]
            if not pieces:
                raise Unsupported("report is not assembled from formatted pieces: contract not applicable")
            g = []
            for word, n in (("throughput", "m_tp"), ("latency", "m_l"), ("port pressure", "m_pp")):
                hit = [x for x in pieces if word in x.template]
                if len(hit) != 1:
                    raise Unsupported(f"no unique sentence about {word}: contract not applicable")
                ints = [num_term(a)[0] for a in hit[0].args if is_num(a) and num_term(a)[1]]
                g.append(z3.Or([t == L[n] for t in ints]) if ints else z3.BoolVal(False))
                g.append(z3.Or([t == total for t in ints]) if ints else z3.BoolVal(False))
            return z3.And(g)

        res.add_paths(paths, post, kind=f"_get_sanity_report/verbose={int(verbose)}")

    # wiring of sanity_check
    n_forms = z3.Int("n_forms")
    for pp_empty in (True, False):
        for bad_empty in (True, False):
            def run2(pp_empty=pp_empty, bad_empty=bad_empty):
                log = []
                G = {n: ([] if (n == "m_pp" and pp_empty) or (n == "bad" and bad_empty) else [n]) for n in names}
                data = SymSeq(n_forms, lambda i: "form")

                class MM:
                    def __init__(self, arch):
                        self.arch = arch

                    def sym_getitem(self, ex_, k):
                        if k == "instruction_forms":
                            return data
                        raise Unsupported("model key " + str(k))

                    def sym_method(self, ex_, name, a, kw):
                        if name == "get_ISA":
                            return "x86"
                        raise Unsupported("model method " + name)

                def mk(*a, **kw):
                    m = MM(kw.get("arch", a[0] if a else None))
                    log.append(("model", m))
                    return m

                ex.names["MachineModel"] = mk
                ex.abstract["_check_sanity_arch_db"] = lambda ex_, so, a, kw: (G["m_tp"], G["m_l"], G["m_pp"], G["suspic"], G["dup_arch"], G["bad"])
                ex.abstract["_check_sanity_isa_db"] = lambda ex_, so, a, kw: (G["dup_isa"], G["only_isa"])

                def report(ex_, so, a, kw):
                    log.append(("report", list(a), dict(kw)))
                    return "THE REPORT"

                ex.abstract["_get_sanity_report"] = report
                ex.eval_print_args = True
                ex.abstract["print"] = lambda ex_, so, a, kw: log.append(("print", list(a), dict(kw)))
                out = SObj("Stream")
                ex.extra.update(log=log, G=G, out=out)
                return ex.call_function("sanity_check", ["zen1"], kw=dict(output_file=out))

            paths = ex.explore(run2, [n_forms >= 0])

            def post2(v, p, pp_empty=pp_empty, bad_empty=bad_empty):
                log, G = p.extra["log"], p.extra["G"]
                rep = [e for e in log if e[0] == "report"]
                if len(rep) != 1:
                    return False
                a, kw = rep[0][1], rep[0][2]
                allargs = dict(zip(("total", "m_tp", "m_l", "m_pp", "suspic_instr", "dup_arch", "dup_isa", "only_isa", "bad_operands"), a))
                allargs.update(kw)
                want = dict(m_tp="m_tp", m_l="m_l", m_pp="m_pp", suspic_instr="suspic", dup_arch="dup_arch", dup_isa="dup_isa", only_isa="only_isa", bad_operands="bad")
                if any(allargs.get(k) is not G[n] for k, n in want.items()) or not is_num(allargs.get("total")):
                    return False
                printed = [e for e in log if e[0] == "print"]
                ok = (len(printed) == 1 and printed[0][1] == ["THE REPORT"] and printed[0][2].get("file") is p.extra["out"]) if printed else True
                return z3.And(num_term(allargs["total"])[0] == n_forms, z3.BoolVal(bool(ok)))

            res.add_paths(paths, post2, kind=f"sanity_check/wiring/pp_empty={int(pp_empty)}/bad_empty={int(bad_empty)}")
    return res


def loader_unit(res):
    """Pb: MachineModel.__init__ (real code; file access, the YAML reader, the pickle cache and operand_to_class - which has its own
    unit in C07 - abstract) on a model-file structure with three instruction-form entries (one with an alias list, two that differ
    only in the case of their name, with and without operands / hidden operands / optional keys; latency and throughput symbolic)
    and load/store tables with typed, untyped, pre- and post-indexed rows: the per-mnemonic index lists, under the upper-cased name
    and in file order (an alias list expanded at its position), one entry per (entry, name) carrying exactly the file entry's
    latency, throughput, port pressure, micro-op count, operation and dependency-breaking flag, its operands converted one by one in
    order (hidden operands likewise); every load/store table row becomes (memory pattern with the row's base, offset, index, scale,
    type and pre/post-index flags, the row's port pressure); the internal version is recorded."""
    import collections
    files = ["osaca/parser/operand.py", "osaca/parser/memory.py", "osaca/parser/instruction_form.py", HW]
    ex = Engine([REPO + "/" + f for f in files])
    lat, tp = z3.Real("file_latency"), z3.Real("file_throughput")

    def run():
        d1, d2, h1 = {"class": "register", "name": "gpr"}, {"class": "memory", "base": "*"}, {"class": "flag", "name": "CF"}
        pp0, pp2 = [[1, "01"]], {0: [[1, "0"]], 1: [[1, "1"]]}
        e0 = {"name": "add", "operands": [d1, d2], "latency": SNum(lat, False), "throughput": SNum(tp, False), "port_pressure": pp0}
        e1 = {"name": ["vmul", "vmuls"], "operands": [], "hidden_operands": [h1], "latency": None, "throughput": None, "port_pressure": None}
        e2 = {"name": "Add", "operands": [d1], "latency": 3, "throughput": 1, "port_pressure": pp2, "uops": 3, "operation": "op1 = op1 + 1", "breaks_dependency_on_equal_operands": True}
        lrows = [{"base": "gpr", "offset": "imd", "index": None, "scale": 1, "dst": "ymm", "port_pressure": [[2, "2"]]},
                 {"base": "x", "offset": None, "index": "x", "scale": 8, "pre_indexed": True, "port_pressure": [[1, "3"]]}]
        srows = [{"base": "gpr", "offset": None, "index": None, "scale": 1, "src": "xmm", "post_indexed": True, "port_pressure": [[1, "4"]]}]
        data = {"isa": "x86", "ports": ["0", "1"], "instruction_forms": [e0, e1, e2], "load_throughput": lrows, "store_throughput": srows}
        log = []

        class Yaml:
            def sym_method(self, ex_, name, a, kw):
                if name == "load":
                    log.append("load")
                    return data
                raise Unsupported("yaml." + name)

        class File:
            def sym_enter(self, ex_):
                return self

        def otc(ex_, so, a, kw):
            a[1].append(("converted", a[0]))

        ex.abstract["operand_to_class"] = otc
        ex.abstract["_create_yaml_object"] = lambda ex_, so, a, kw: Yaml()
        ex.abstract["_get_cached"] = lambda ex_, so, a, kw: False
        ex.abstract["_write_in_cache"] = lambda ex_, so, a, kw: log.append("cache-written")
        ex.abstract["open"] = lambda ex_, so, a, kw: File()
        ex.abstract["utils.find_datafile"] = lambda ex_, so, a, kw: "the/file.yml"
        ex.extra.update(entries=(e0, e1, e2), ops=(d1, d2, h1), lrows=lrows, srows=srows, pp=(pp0, pp2), log=log)
        return ex.instantiate("MachineModel", kw=dict(path_to_yaml="the/file.yml"))

    paths = ex.explore(run, [])

    def post(v, p):
        if not (isinstance(v, SObj) and v.cls == "MachineModel"):
            return False
        data = v.fields["_data"]
        (e0, e1, e2), (d1, d2, h1), (pp0, pp2) = p.extra["entries"], p.extra["ops"], p.extra["pp"]
        idx = data["instruction_forms_dict"]
        if sorted(idx.keys()) != ["ADD", "VMUL", "VMULS"] or [len(idx[k]) for k in ("ADD", "VMUL", "VMULS")] != [2, 1, 1]:
            return False
        F = lambda o, k: o.fields["_" + k]
        a0, a2, m1, m2 = idx["ADD"][0], idx["ADD"][1], idx["VMUL"][0], idx["VMULS"][0]
        ok = (F(a0, "mnemonic") == "ADD" and F(a2, "mnemonic") == "ADD" and F(m1, "mnemonic") == "VMUL" and F(m2, "mnemonic") == "VMULS"
              and F(a0, "operands") == [("converted", d1), ("converted", d2)] and F(a0, "operands")[0][1] is d1 and F(a0, "operands")[1][1] is d2
              and F(a2, "operands") == [("converted", d1)] and F(m1, "operands") == [] and F(m2, "operands") == []
              and F(m1, "hidden_operands") == [("converted", h1)] and F(m2, "hidden_operands") == [("converted", h1)] and F(a0, "hidden_operands") == []
              and F(a0, "port_pressure") is pp0 and F(a2, "port_pressure") is pp2 and F(m1, "port_pressure") is None
              and F(a2, "uops") == 3 and F(a0, "uops") is None and F(a2, "operation") == "op1 = op1 + 1" and F(a0, "operation") is None
              and F(a2, "breaks_dependency_on_equal_operands") is True and F(a0, "breaks_dependency_on_equal_operands") is False
              and F(m1, "latency") is None and F(m1, "throughput") is None and F(a2, "latency") == 3 and F(a2, "throughput") == 1)
        g = [z3.BoolVal(bool(ok)), real_term(F(a0, "latency")) == lat, real_term(F(a0, "throughput")) == tp]
        lt, st = data["load_throughput"], data["store_throughput"]
        M = lambda m, k: m.fields["_" + k]
        rows_ok = (isinstance(lt, list) and len(lt) == 2 and isinstance(st, list) and len(st) == 1 and all(isinstance(r, tuple) and len(r) == 2 and isinstance(r[0], SObj) and r[0].cls == "MemoryOperand" for r in lt + st))
        if not rows_ok:
            return False
        for (m, ppv), row, kind in [(lt[0], p.extra["lrows"][0], "dst"), (lt[1], p.extra["lrows"][1], "dst"), (st[0], p.extra["srows"][0], "src")]:
            g.append(z3.BoolVal(bool(M(m, "base") == row["base"] and M(m, "offset") == row["offset"] and M(m, "index") == row["index"] and M(m, "scale") == row["scale"]
                                     and M(m, kind) == row.get(kind) and bool(M(m, "pre_indexed")) == bool(row.get("pre_indexed", False))
                                     and bool(M(m, "post_indexed")) == bool(row.get("post_indexed", False)) and ppv is row["port_pressure"])))
        g.append(z3.BoolVal("internal_version" in data and p.extra["log"].count("load") == 1))
        return z3.And(g)

    res.add_paths(paths, post, kind="loader/3-entries", label="Pb")
    return res


def _isa_db_units():
    """entries of the ISA databases must also survive the loader's operand conversion (a register given as a mapping inside a
    memory operand: the hidden stack access of push / pop) and carry operation strings that can be evaluated: units of C07 / C06"""
    from .c07 import operand_to_class_unit
    from .c06 import reg_changes_unit
    ISAF = "osaca/semantics/isa_semantics.py"
    return [Unit("C15/operand_to_class(every operand shape of the model and ISA files)", operand_to_class_unit, "P", [(HW, "MachineModel.operand_to_class")], decisive=False),
            Unit("C15/ISA-DB operations can be evaluated/x86", reg_changes_unit("x86"), "P", [(ISAF, "ISASemantics.get_reg_changes")], decisive=False),
            Unit("C15/ISA-DB operations can be evaluated/aarch64", reg_changes_unit("aarch64"), "P", [(ISAF, "ISASemantics.get_reg_changes")], decisive=False)]


def _table_lookup_units():
    """'analysing an instruction that matches any shipped form never crashes' includes the forms that are costed by composition
    (register form + load / store table row): the row lookups must hand back a row for every address shape and register type -
    the default row if nothing else fits (units of C08)"""
    from . import c08
    out = []
    for u in c08.units("quick"):
        if "get_store_throughput(" in u.id or "get_load_throughput(" in u.id:
            out.append(Unit(u.id.replace("C08/", "C15/composed-forms/"), u.fn, u.label, u.functions, decisive=False, timeout=u.timeout))
    return out


def _run_dispatch():
    from .c13 import run_dispatch_unit
    return run_dispatch_unit


def units(tier):
    from .c01 import avg_unit, avg_pb_unit, handle_found_unit
    AS = "osaca/semantics/arch_semantics.py"
    return [
        bounded_unit("C15/wf_model-on-every-shipped-entry+db-check-counts", "c15_wf", [(HW, "MachineModel.__init__"), (HW, "MachineModel.operand_to_class"),
                     (HW, "MachineModel.average_port_pressure"), (DBI, "sanity_check"), (DBI, "_check_sanity_arch_db"), (DBI, "_get_sanity_report")], timeout=2700, decisive=True),
        Unit("C15/average_port_pressure/exception-freedom-under-wf", avg_unit, "P", [(HW, "MachineModel.average_port_pressure")]),
        Unit("C15/average_port_pressure/Pb-floor", avg_pb_unit, "Pb", [(HW, "MachineModel.average_port_pressure")]),
        Unit("C15/_handle_instruction_found", handle_found_unit, "P", [(AS, "ArchSemantics._handle_instruction_found")]),
        *_table_lookup_units(),
    ] + _isa_db_units() + [
        Unit("C15/run(--db-check reaches sanity_check)", _run_dispatch(), "P", [("osaca/osaca.py", "run")], decisive=False),
        Unit("C15/MachineModel.__init__(loader: entries, aliases, tables)", loader_unit, "Pb", [(HW, "MachineModel.__init__")]),
        Unit("C15/_get_sanity_report+sanity_check(counts shown = list lengths)", sanity_report_unit, "P", [(DBI, "_get_sanity_report"), (DBI, "sanity_check")]),
        Unit("C15/_check_sanity_arch_db/counters", sanity_counter_unit, "P", [(DBI, "_check_sanity_arch_db")]),
    ]
