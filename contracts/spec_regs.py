"""Architectural register families (reference spec for C12, written from the property statement and the
Intel SDM / Arm ARM, independently of the code).  Pure Python, importable by the prover and the replayer."""

X86_FAMILIES = {}
for fam, names in {
    "A": ["rax", "eax", "ax", "al", "ah"],
    "B": ["rbx", "ebx", "bx", "bl", "bh"],
    "C": ["rcx", "ecx", "cx", "cl", "ch"],
    "D": ["rdx", "edx", "dx", "dl", "dh"],
    "SP": ["rsp", "esp", "sp", "spl"],
    "BP": ["rbp", "ebp", "bp", "bpl"],
    "SI": ["rsi", "esi", "si", "sil"],
    "DI": ["rdi", "edi", "di", "dil"],
}.items():
    for n in names:
        X86_FAMILIES[n] = fam
for i in range(8, 16):
    for suf in ("", "d", "w", "b"):
        X86_FAMILIES[f"r{i}{suf}"] = f"R{i}"
for i in range(32):
    for p in "xyz":
        X86_FAMILIES[f"{p}mm{i}"] = f"V{i}"
for i in range(8):
    X86_FAMILIES[f"mm{i}"] = f"MM{i}"
    X86_FAMILIES[f"k{i}"] = f"K{i}"

X86_NAMES = sorted(X86_FAMILIES)
X86_FAMILY_IDS = {f: i for i, f in enumerate(sorted(set(X86_FAMILIES.values())))}


def x86_family(name):
    return X86_FAMILIES.get(name.lower())


A64_GPR = "wx"
A64_VEC = "bhsdqvz"
A64_PRED = "p"
A64_PREFIXES = A64_GPR + A64_VEC + A64_PRED
A64_NUMBERS = [str(i) for i in range(32)]


def a64_class(prefix):
    p = prefix.lower()
    return "gpr" if p in A64_GPR else "vec" if p in A64_VEC else "pred" if p in A64_PRED else None


def a64_family(prefix, name):
    """(class, name); sp is x-prefixed by the parser; the zero register carries no state and is excluded
    from the claim (spec decision, see DESIGN.md C12)."""
    return (a64_class(prefix), name)
