"""C05 - loop-carried dependencies are exactly the cross-iteration dependency cycles.

P  check_for_loopcarried_dep, phase (a) "doubling": for kernels of 1..3 lines with SYMBOLIC positive, strictly increasing line
   numbers: every first-copy id < offset <= every second-copy id = line + offset, all ids distinct, second copies are
   shallow copies differing only in line_number, originals untouched (frame).  [structure bounded, values symbolic: Pb]
B  whole pipeline vs. an independent enumeration of winding-number-1 cycles over the reference dependency relation of
   two concatenated iterations (bounded/dg_oracle.py C05: all kernels of length <= 3 over the vocabulary + random
   kernels, both ISAs, with/without flag dependencies, kernels located at line 1 and at line 1500);
   report/LCD-column consistency is checked by the C13 harness (shared).
L  window lemma: with forward edges, a path from instruction i to its copy in the next iteration stays inside the two concatenated
   iterations and has at most n edges (so no cut-off at the end of the doubled kernel and no depth bound below n is admissible).
U  the remaining step of DESIGN C05(f) - the dependency relation computed on the doubled kernel equals the periodic relation
   restricted to it - is argued from the find_depending contract, not mechanised.
"""
import z3

from pyvc.engine import Engine, PathEnd
from pyvc.runner import Unit, REPO
from pyvc.sym import *  # noqa
from pyvc.bounded import bounded_unit

LEVEL = "exploration"
RULE = "all kernels of length <= 3 over the per-ISA vocabulary + seeded random kernels of length 4-7; with/without flag dependencies; first line 1 and 1500"
KDG = "osaca/semantics/kernel_dg.py"
FE = "osaca/frontend.py"
TRUSTED = ["pyvc symbolic semantics; z3 5.1.0", "copy.copy of an InstructionForm = new object with the same attribute bindings (A)"]
ASSUMPTIONS = [
    "phase (a) (doubling): proved for any kernel length with the line numbers positive (1-based file lines); the <= 3-line unit (label Pb) additionally runs the real copy.copy on concrete objects (object identity of copies, untouched originals)",
    "cycle-set characterisation (phases b-d, winding number 1) decided by the bounded oracle comparison, not by proof",
    "networkx all_simple_paths (A) is exercised for real in the bounded unit",
]


def doubling_unit(res):
    ex = Engine([REPO + "/" + f for f in ("osaca/parser/instruction_form.py", KDG)])
    captured = {}

    def create_DG(ex_, so, a, kw):
        ex_.extra["tmp_kernel"] = a[0]
        raise PathEnd()

    ex.abstract["create_DG"] = create_DG
    for n in (1, 2, 3):
        ln = [z3.Int(f"line{i}") for i in range(n)]
        pre = [ln[0] >= 1] + [ln[i] < ln[i + 1] for i in range(n - 1)]

        def run():
            kernel = []
            for i in range(n):
                f = ex.instantiate("InstructionForm", kw=dict(mnemonic="op", line_number=SNum(ln[i], True), line=f"op{i}"))
                kernel.append(f)
            ex.extra["kernel"] = kernel
            ex.extra["snapshot"] = [dict(f.fields) for f in kernel]
            return ex.call_method("KernelDG", "check_for_loopcarried_dep", SObj("KernelDG", kernel=kernel), [kernel, -1, False])

        paths = ex.explore(run, pre)
        for p in paths:
            if p.outcome[0] != "end" or "tmp_kernel" not in p.extra:
                res.add(f"n{n}/reaches-create_DG", p.pc, False, label="Pb")
                continue
            tk = p.extra["tmp_kernel"]
            k = p.extra["kernel"]
            ok_struct = isinstance(tk, list) and len(tk) == 2 * n and all(tk[i] is k[i] for i in range(n)) and all(tk[n + i] is not k[i] for i in range(n))
            res.add(f"n{n}/structure", p.pc, bool(ok_struct), label="Pb")
            if not ok_struct:
                continue
            ids = [num_term(f.fields["_line_number"])[0] for f in tk]
            # offset is whatever was added to the second copies; it must be the same for all and separate the two copies
            off = ids[n] - ln[0]
            g = [ids[n + i] == ln[i] + off for i in range(n)] + [ids[i] == ln[i] for i in range(n)]
            g += [ids[i] < off for i in range(n)] + [ids[n + i] >= off for i in range(n)] + [z3.Distinct(ids)]
            res.add(f"n{n}/ids", p.pc, z3.And(g), label="Pb",
                    concretize=lambda m, ln=ln: dict(replay="c05_offset", key="offset", args=dict(lines=[m.eval(x, model_completion=True).as_long() for x in ln])))
            # shallow copy differing only in line_number; originals unchanged
            same = all(set(tk[n + i].fields) == set(k[i].fields) and all(tk[n + i].fields[a] is k[i].fields[a] for a in k[i].fields if a != "_line_number") for i in range(n))
            frame = all(k[i].fields[a] is p.extra["snapshot"][i][a] for i in range(n) for a in k[i].fields)
            res.add(f"n{n}/shallow-copies", p.pc, bool(same), label="Pb")
            res.add(f"n{n}/frame-originals-untouched", p.pc, bool(frame), label="Pb")
    return res


def doubling_any_unit(res):
    """P: the doubling phase of check_for_loopcarried_dep (real code) for kernels of ANY length with arbitrary positive line
    numbers: offset > every line number of the kernel (so the numbers of the second copy are disjoint from the
    first's: lemma); the list handed to create_DG is the kernel itself followed, for every k, by exactly one shallow copy of
    kernel[k] whose line number is kernel[k]'s plus the offset (the original keeps its number: copies are separate objects);
    create_DG gets that list and the flag-dependency option unchanged."""
    from pyvc.sym import RefCopy
    ex = Engine([REPO + "/" + KDG])
    fn, _ = ex.find_method("KernelDG", "check_for_loopcarried_dep")
    ex.index_loops(fn)
    I_ = z3.IntSort()
    klen = z3.Int("klen")
    lines = z3.Function("line_no", I_, I_)
    ins = Schema("insd", ["InstructionForm"], {"line_number": ("int",)})
    ins.fn["line_number"] = lines
    flagdep = z3.Bool("flag_dependencies")
    st = {}

    class TK:
        """the growing list: the kernel it started from + the appended items of the current iteration"""
        def __init__(self, base):
            self.base, self.calls = base, []

        def sym_havoc(self, ex_, tag):
            return self

        def sym_method(self, ex_, name, a, kw):
            if name == "append":
                self.calls.append(a[0])
                return None
            raise Unsupported("list." + name)

    class Hook:
        def pre_havoc(self, ex_, env):
            # the growing list: whatever local (other than the parameter) is bound to the copy of the kernel made before the loop
            names = [n for n, v in env.items() if n not in ("kernel", "self") and isinstance(v, SymSeq)]
            st["tk_name"] = "tmp_kernel" if "tmp_kernel" in env or len(names) != 1 else names[0]
            tk = env.get(st["tk_name"])
            q = z3.Int("q0")
            ok = isinstance(tk, SymSeq)
            ex_.oblige("doubling/list-starts-as-the-kernel", z3.And(tk.length == klen, z3.ForAll([q], z3.Implies(z3.And(0 <= q, q < klen), tk.at(q).t == q))) if ok else z3.BoolVal(False))
            env[st["tk_name"]] = st["tk"] = TK(tk)
            off = env["offset"]
            st["off"] = num_term(off)[0]
            i = z3.Int("i_any")
            ex_.oblige("doubling/offset-above-every-line", z3.Implies(z3.And(0 <= i, i < klen), lines(i) < st["off"]))

        def on_body_start(self, ex_, env, k):
            st["tk"].calls.clear()

        def on_body_end(self, ex_, env, k):
            calls = st["tk"].calls
            ok = len(calls) == 1 and isinstance(calls[0], RefCopy) and isinstance(calls[0].orig, SRef) and set(calls[0].over) == {"line_number"}
            ex_.oblige("doubling/one-shallow-copy-per-line-with-number+offset",
                       z3.And(calls[0].orig.t == k, num_term(calls[0].over["line_number"])[0] == lines(k) + st["off"]) if ok else z3.BoolVal(False))

    ex.loop_hooks[("check_for_loopcarried_dep", 0)] = Hook()
    ex.invariants[("check_for_loopcarried_dep", 0)] = lambda ex_, env, k: z3.BoolVal(True)

    def create_DG(ex_, so, a, kw):
        ex_.extra["dg_args"] = (a, kw)
        raise PathEnd()

    ex.abstract["create_DG"] = create_DG

    def run():
        kernel = SymSeq(klen, lambda i: SRef(i, ins))
        ex.call_method("KernelDG", "check_for_loopcarried_dep", SObj("KernelDG", kernel=kernel), [kernel, -1, SBool(flagdep)])

    q = z3.Int("q")
    paths = ex.explore(run, [klen >= 1, z3.ForAll([q], lines(q) >= 1)])
    reached = 0
    res.add_paths(paths, None, kind="doubling")
    for p in paths:
        if "dg_args" in p.extra:
            reached += 1
            a, kw = p.extra["dg_args"]
            fd = a[1] if len(a) > 1 else kw.get("flag_dependencies")
            res.add("doubling/create_DG-gets-the-doubled-list-and-the-option", p.pc, z3.And(z3.BoolVal(a[0] is st["tk"]), bool_term(fd) == flagdep if isinstance(fd, (SBool, bool)) else z3.BoolVal(False)))
    res.add("doubling/reaches-create_DG", [], reached >= 1)
    # lemma: the numbers of the second copy are disjoint from the first's and pairwise distinct iff the first's are
    off, i, j = z3.Ints("offset i j")
    hyp = [z3.ForAll([q], z3.Implies(z3.And(0 <= q, q < klen), z3.And(lines(q) >= 1, lines(q) < off))), 0 <= i, i < klen, 0 <= j, j < klen]
    res.add("lemma/second-copy-disjoint-from-first", hyp, lines(j) + off != lines(i), label="L")
    res.add("lemma/second-copy-distinct-iff-first", hyp, (lines(i) + off == lines(j) + off) == (lines(i) == lines(j)), label="L")
    return res


def kdg_wiring_unit(res):
    """P: KernelDG.__init__ and get_loopcarried_dependencies (real code): the graph is create_DG(kernel, flag option), the
    stored result is what check_for_loopcarried_dep returned for the SAME kernel object with the timeout and flag option handed on
    unchanged, and the getter returns exactly that stored object (no recomputation, no copy that could drop entries)."""
    ex = Engine([REPO + "/" + KDG])
    flag, tmo = z3.Bool("flag_dependencies"), z3.Int("timeout")

    def run():
        log = []
        kernel, dgm, result = [SObj("InstructionForm", tag=0)], SObj("DiGraph"), {"1": "entry"}
        ex.abstract["create_DG"] = lambda ex_, so, a, kw: (log.append(("create_DG", a, kw)), dgm)[1]
        ex.abstract["check_for_loopcarried_dep"] = lambda ex_, so, a, kw: (log.append(("lcd", a, kw)), result)[1]
        ex.abstract["nx.algorithms.dag.is_directed_acyclic_graph"] = lambda ex_, so, a, kw: (log.append(("dag?", a, kw)), True)[1]
        o = ex.instantiate("KernelDG", [kernel, SObj("Parser"), SObj("MachineModel"), SObj("ArchSemantics")], kw=dict(timeout=SNum(tmo, True), flag_dependencies=SBool(flag)))
        ex.extra.update(log=log, kernel=kernel, dgm=dgm, result=result, o=o)
        return ex.call_method("KernelDG", "get_loopcarried_dependencies", o, [])

    paths = ex.explore(run, [])

    def post(v, p):
        log, kernel, dgm, result, o = (p.extra[k] for k in ("log", "kernel", "dgm", "result", "o"))
        c = [e for e in log if e[0] == "create_DG"]
        l_ = [e for e in log if e[0] == "lcd"]
        if len(c) != 1 or len(l_) != 1 or v is not result or o.fields.get("dg") is not dgm or o.fields.get("kernel") is not kernel:
            return False
        argl = lambda e, i, name: e[1][i] if len(e[1]) > i else e[2].get(name)
        if argl(c[0], 0, "kernel") is not kernel or argl(l_[0], 0, "kernel") is not kernel:
            return False
        dag = [e for e in log if e[0] == "dag?"]
        if any(e[1][0] is not dgm for e in dag):
            return False
        bt = lambda x: bool_term(False if x is None else x)  # an omitted argument is create_DG's / the search's default (False)
        return z3.And(bt(argl(c[0], 1, "flag_dependencies")) == flag, bt(argl(l_[0], 2, "flag_dependencies")) == flag,
                      num_term(argl(l_[0], 1, "timeout"))[0] == tmo)

    res.add_paths(paths, post, kind="KernelDG/wiring")
    return res


def lcd_column_unit(res):
    """Pb: Frontend.full_analysis_dict, LCD part (real code): for kernels of 3 lines whose lines carry an ARBITRARY previous
    LatencyLCD mark (any earlier report, any history) and for every result of the LCD search with 0, 1 or 2 cycles (symbolic
    latencies): Summary.LCD = max cycle latency (0 if none); the LatencyLCD of every row - and the mark left on the line
    object - is the latency of that line in ONE cycle attaining the maximum, and 0 for every other line."""
    ex = Engine([REPO + "/" + f for f in ("osaca/parser/instruction_form.py", "osaca/semantics/isa_semantics.py", "osaca/semantics/arch_semantics.py", FE)])
    ex.no_init |= {"Frontend"}
    ex.abstract["_header_report_dict"] = lambda ex_, so, a, kw: {}
    ex.abstract["_selected_port_uops"] = lambda ex_, so, a, kw: []
    ex.abstract["get_throughput_sum"] = lambda ex_, so, a, kw: [0]
    ex.abstract["get_ports"] = lambda ex_, so, a, kw: ["0"]
    ex.abstract["re.sub"] = lambda ex_, so, a, kw: Opaque("line")
    ex.abstract["get_ISA"] = lambda ex_, so, a, kw: "x86"
    ex.abstract["get_arch"] = lambda ex_, so, a, kw: "zen2"
    n = 3
    prev = [z3.Real(f"previous_mark{i}") for i in range(n)]
    A1, A2, B1, B2, B3 = z3.Reals("a1 a2 b1 b2 b3")
    shapes = {"none": [], "one": [("1-2", [(0, A1), (1, A2)])], "two-overlapping": [("1-2", [(0, A1), (1, A2)]), ("2-3", [(1, B1), (2, B2)])],
              "two-disjoint": [("1", [(0, A1)]), ("2-3", [(1, B1), (2, B2)])], "two-same-members": [("1-2", [(0, A1), (1, A2)]), ("1-2-3", [(0, B1), (1, B2), (2, B3)])]}
    for shape, cycles in shapes.items():
        def run():
            kernel = []
            for i in range(n):
                f = ex.instantiate("InstructionForm", kw=dict(mnemonic="op", line_number=i + 1, line=f"op{i}", latency=1, throughput=1, port_pressure=[0]))
                f.fields.update(_flags=[], _latency_wo_load=1, latency_cp=0, latency_lcd=SNum(prev[i], False))
                kernel.append(f)
            dep = {}
            for key, mem in cycles:
                lat = mem[0][1]
                for _, l_ in mem[1:]:
                    lat = lat + l_
                dep[key] = {"root": kernel[mem[0][0]], "dependencies": [(kernel[i], SNum(l_, False)) for i, l_ in mem], "latency": SNum(lat, False)}
            dg = SObj("KernelDG")
            ex.abstract["get_loopcarried_dependencies"] = lambda ex_, so, a, kw: dep
            ex.abstract["get_critical_path"] = lambda ex_, so, a, kw: []
            fe = SObj("Frontend", _machine_model=SObj("MachineModel"), _arch="zen2")
            ex.extra["kernel"] = kernel
            return ex.call_method("Frontend", "full_analysis_dict", fe, [kernel, dg])

        paths = ex.explore(run, [x >= 0 for x in (A1, A2, B1, B2, B3)])

        def post(v, p, cycles=cycles):
            if not isinstance(v, dict):
                return False
            rows = v["Kernel"]
            got = [real_term(r["LatencyLCD"]) for r in rows]
            marks = [real_term(f.fields["latency_lcd"]) for f in p.extra["kernel"]]
            lcd = real_term(v["Summary"]["LCD"])
            g = [got[i] == marks[i] for i in range(n)]
            if not cycles:
                return z3.And(g + [lcd == 0] + [got[i] == 0 for i in range(n)])
            sums = []
            for key, mem in cycles:
                t = mem[0][1]
                for _, l_ in mem[1:]:
                    t = t + l_
                sums.append(t)
            mx = sums[0]
            for t in sums[1:]:
                mx = z3.If(t > mx, t, mx)
            g.append(lcd == mx)
            # the column shows exactly one cycle attaining the maximum
            alts = []
            for (key, mem), t in zip(cycles, sums):
                col = {i: l_ for i, l_ in mem}
                alts.append(z3.And([t == mx] + [got[i] == col.get(i, z3.RealVal(0)) for i in range(n)]))
            g.append(z3.Or(alts))
            return z3.And(g)

        res.add_paths(paths, post, kind="lcd-column/" + shape, label="Pb")
    return res


def window_lemma_unit(res):
    """L (mechanised part of the cycle characterisation): dependency edges point forward (C03).  A path p_0 < p_1 < ... < p_m of
    the periodic dependency relation from instruction i of one iteration (p_0 = i, 0 <= i < n) to the same instruction of the next
    (p_m = i + n) therefore only visits nodes in [i, i + n], a subset of the two concatenated iterations [0, 2n): the doubled kernel
    contains every such cycle, and nothing between the copies is cut off.  Induction over the position in the path."""
    I_ = z3.IntSort()
    pth = z3.Function("p", I_, I_)
    m, n, i, j, k = z3.Ints("m n i j k")
    fwd = z3.ForAll([j], z3.Implies(z3.And(0 <= j, j < m), pth(j) < pth(j + 1)))
    # lower bound: p_0 <= p_k
    res.add("window/lower/base", [fwd, m >= 0], pth(0) <= pth(0), label="L")
    res.add("window/lower/step", [fwd, m >= 0, 0 <= k, k < m, pth(0) <= pth(k)], pth(0) <= pth(k + 1), label="L")
    # upper bound, counted from the end: p_{m-k} <= p_m
    res.add("window/upper/base", [fwd, m >= 0], pth(m - 0) <= pth(m), label="L")
    res.add("window/upper/step", [fwd, m >= 0, 0 <= k, k < m, pth(m - k) <= pth(m)], pth(m - (k + 1)) <= pth(m), label="L")
    # consequence for a cross-iteration path
    hyp = [fwd, m >= 1, n >= 1, 0 <= i, i < n, pth(0) == i, pth(m) == i + n, 0 <= k, k <= m, pth(0) <= pth(k), pth(k) <= pth(m)]
    res.add("window/path-stays-inside-two-iterations", hyp, z3.And(0 <= pth(k), pth(k) < 2 * n), label="L")
    # and such a path visits at most n + 1 nodes (strictly increasing integers in [i, i + n]): induction p_k >= p_0 + k
    res.add("window/length/base", [fwd], pth(0) >= pth(0) + 0, label="L")
    res.add("window/length/step", [fwd, 0 <= k, k < m, pth(k) >= pth(0) + k], pth(k + 1) >= pth(0) + k + 1, label="L")
    res.add("window/length/bound", [m >= 0, pth(0) == i, pth(m) == i + n, pth(m) >= pth(0) + m], m <= n, label="L")
    return res


def _node_by_lineno():
    # the members of a reported cycle are looked up by line number (line numbers may have gaps: blank lines, --lines 1-3,6-9)
    from .c16 import node_by_lineno_unit
    return node_by_lineno_unit


def units(tier):
    from .c16 import partition_unit, extend_path_unit, postprocess_unit, search_agreement_unit
    from .c13 import lcd_list_unit, combined_view_unit
    return [
        Unit("C05/check_for_loopcarried_dep/post-processing(sum, members, reported once)", postprocess_unit, "P", [(KDG, "KernelDG.check_for_loopcarried_dep")]),
        Unit("C05/search-call-agreement(worker = sequential)", search_agreement_unit, "P", [(KDG, "KernelDG._extend_path"), (KDG, "KernelDG.check_for_loopcarried_dep")]),
        Unit("C05/lemma/cross-iteration-paths-lie-inside-the-doubled-kernel", window_lemma_unit, "L", []),
        Unit("C05/full_analysis_dict(LCD column and summary, any previous marks)", lcd_column_unit, "Pb", [(FE, "Frontend.full_analysis_dict")]),
        Unit("C05/combined_view(LCD cells and total; cell helpers abstract)", combined_view_unit, "Pb", [(FE, "Frontend.combined_view")], decisive=False),
        Unit("C05/loopcarried_dependencies(LCD list rows)", lcd_list_unit, "Pb", [(FE, "Frontend.loopcarried_dependencies")], decisive=False),
        Unit("C05/check_for_loopcarried_dep/partition(kernels >= 50 lines)", partition_unit, "P", [(KDG, "KernelDG.check_for_loopcarried_dep")]),
        Unit("C05/_extend_path", extend_path_unit, "P", [(KDG, "KernelDG._extend_path")]),
        Unit("C05/_get_node_by_lineno(the instruction that HAS the line number, whatever its position)", _node_by_lineno(), "P", [(KDG, "KernelDG._get_node_by_lineno")]),
        bounded_unit("C05/parallel-search-equals-sequential", "c16_parallel", [(KDG, "KernelDG.check_for_loopcarried_dep")], timeout=1800),
        Unit("C05/KernelDG.__init__+get_loopcarried_dependencies(wiring)", kdg_wiring_unit, "P", [(KDG, "KernelDG.__init__"), (KDG, "KernelDG.get_loopcarried_dependencies")]),
        Unit("C05/check_for_loopcarried_dep/doubling(any kernel length)", doubling_any_unit, "P", [(KDG, "KernelDG.check_for_loopcarried_dep")]),
        Unit("C05/check_for_loopcarried_dep/doubling", doubling_unit, "Pb", [(KDG, "KernelDG.check_for_loopcarried_dep")]),
        bounded_unit("C05/pipeline-vs-cycle-oracle", "dg_oracle", [(KDG, "KernelDG.check_for_loopcarried_dep"), (KDG, "KernelDG._extend_path"),
                     (KDG, "KernelDG.create_DG")], extra_args=["C05"], timeout=1500, decisive=True),
        bounded_unit("C05/report-LCD-column-and-summary", "c13_report", [(FE, "Frontend.combined_view"), (FE, "Frontend.full_analysis_dict"),
                     (FE, "Frontend._get_lcd_cp_ports")], extra_args=["C05"], timeout=(7000 if tier == "thorough" else 1500)),
    ]
