"""C05 - loop-carried dependencies are exactly the cross-iteration dependency cycles.

P  check_for_loopcarried_dep, phase (a) "doubling": for kernels of 1..3 lines with SYMBOLIC positive, strictly increasing line
   numbers: every first-copy id < offset <= every second-copy id = line + offset, all ids distinct, second copies are
   shallow copies differing only in line_number, originals untouched (frame).  [structure bounded, values symbolic: Pb]
B  whole pipeline vs. an independent enumeration of winding-number-1 cycles over the reference dependency relation of
   two concatenated iterations (bounded/dg_oracle.py C05: all kernels of length <= 3 over the vocabulary + random
   kernels, both ISAs, with/without flag dependencies, kernels located at line 1 and at line 1500);
   report/LCD-column consistency is checked by the C13 harness (shared).
U  "paths i -> i+offset of the doubled graph are exactly the winding-1 cycles" (DESIGN C05(f)) is argued, not mechanised.
"""
import z3

from pyvc.engine import Engine, PathEnd
from pyvc.runner import Unit, REPO
from pyvc.sym import *  # noqa
from pyvc.bounded import bounded_unit

LEVEL = "exploration"
RULE = "all kernels of length <= 3 over the per-ISA vocabulary + seeded random kernels of length 4-7; with/without flag dependencies; first line 1 and 1500"
KDG = "osaca/semantics/kernel_dg.py"
FE = "osaca/frontend.py"
TRUSTED = ["pyvc symbolic semantics; z3 5.1.0", "copy.copy of an InstructionForm = new object with the same attribute bindings (A)"]
ASSUMPTIONS = [
    "phase (a): kernel length <= 3 (symbolic line numbers) - label Pb",
    "cycle-set characterisation (phases b-d, winding number 1) decided by the bounded oracle comparison, not by proof",
    "networkx all_simple_paths (A) is exercised for real in the bounded unit",
]


def doubling_unit(res):
    ex = Engine([REPO + "/" + f for f in ("osaca/parser/instruction_form.py", KDG)])
    captured = {}

    def create_DG(ex_, so, a, kw):
        ex_.extra["tmp_kernel"] = a[0]
        raise PathEnd()

    ex.abstract["create_DG"] = create_DG
    for n in (1, 2, 3):
        ln = [z3.Int(f"line{i}") for i in range(n)]
        pre = [ln[0] >= 1] + [ln[i] < ln[i + 1] for i in range(n - 1)]

        def run():
            kernel = []
            for i in range(n):
                f = ex.instantiate("InstructionForm", kw=dict(mnemonic="op", line_number=SNum(ln[i], True), line=f"op{i}"))
                kernel.append(f)
            ex.extra["kernel"] = kernel
            ex.extra["snapshot"] = [dict(f.fields) for f in kernel]
            return ex.call_method("KernelDG", "check_for_loopcarried_dep", SObj("KernelDG", kernel=kernel), [kernel, -1, False])

        paths = ex.explore(run, pre)
        for p in paths:
            if p.outcome[0] != "end" or "tmp_kernel" not in p.extra:
                res.add(f"n{n}/reaches-create_DG", p.pc, False, label="Pb")
                continue
            tk = p.extra["tmp_kernel"]
            k = p.extra["kernel"]
            ok_struct = isinstance(tk, list) and len(tk) == 2 * n and all(tk[i] is k[i] for i in range(n)) and all(tk[n + i] is not k[i] for i in range(n))
            res.add(f"n{n}/structure", p.pc, bool(ok_struct), label="Pb")
            if not ok_struct:
                continue
            ids = [num_term(f.fields["_line_number"])[0] for f in tk]
            # offset is whatever was added to the second copies; it must be the same for all and separate the two copies
            off = ids[n] - ln[0]
            g = [ids[n + i] == ln[i] + off for i in range(n)] + [ids[i] == ln[i] for i in range(n)]
            g += [ids[i] < off for i in range(n)] + [ids[n + i] >= off for i in range(n)] + [z3.Distinct(ids)]
            res.add(f"n{n}/ids", p.pc, z3.And(g), label="Pb",
                    concretize=lambda m, ln=ln: dict(replay="c05_offset", key="offset", args=dict(lines=[m.eval(x, model_completion=True).as_long() for x in ln])))
            # shallow copy differing only in line_number; originals unchanged
            same = all(set(tk[n + i].fields) == set(k[i].fields) and all(tk[n + i].fields[a] is k[i].fields[a] for a in k[i].fields if a != "_line_number") for i in range(n))
            frame = all(k[i].fields[a] is p.extra["snapshot"][i][a] for i in range(n) for a in k[i].fields)
            res.add(f"n{n}/shallow-copies", p.pc, bool(same), label="Pb")
            res.add(f"n{n}/frame-originals-untouched", p.pc, bool(frame), label="Pb")
    return res


def units(tier):
    from .c16 import partition_unit, extend_path_unit
    return [
        Unit("C05/check_for_loopcarried_dep/partition(kernels >= 50 lines)", partition_unit, "P", [(KDG, "KernelDG.check_for_loopcarried_dep")]),
        Unit("C05/_extend_path", extend_path_unit, "P", [(KDG, "KernelDG._extend_path")]),
        bounded_unit("C05/parallel-search-equals-sequential", "c16_parallel", [(KDG, "KernelDG.check_for_loopcarried_dep")], timeout=1800),
        Unit("C05/check_for_loopcarried_dep/doubling", doubling_unit, "Pb", [(KDG, "KernelDG.check_for_loopcarried_dep")]),
        bounded_unit("C05/pipeline-vs-cycle-oracle", "dg_oracle", [(KDG, "KernelDG.check_for_loopcarried_dep"), (KDG, "KernelDG._extend_path"),
                     (KDG, "KernelDG.create_DG")], extra_args=["C05"], timeout=1500, decisive=True),
        bounded_unit("C05/report-LCD-column-and-summary", "c13_report", [(FE, "Frontend.combined_view"), (FE, "Frontend.full_analysis_dict"),
                     (FE, "Frontend._get_lcd_cp_ports")], extra_args=["C05"], timeout=1500),
    ]
