"""C20 - benchmark import snaps measurements and decodes operand codes.

P: _validate_measurement (all rationals m >= 0, both modes), _create_db_operand_{x86,aarch64}, _create_db_operand
   over the documented operand-code language of the README (symbolic code strings).
P: _get_ibench_output (TP/LT lines of a form merged into one entry; loop invariant over a ghost heap of entries, files of any
   length) and _get_asmbench_output (block structure, stop at the first malformed block, earlier entries untouched); the file
   enters through ghost line structure with an assumed contract for the str operations used (stated in the ghost classes).
B: the same end to end on real files incl. set_instruction_entry and dump (bounded/c20_import.py).
"""
import z3

from pyvc.engine import Engine
from pyvc.runner import Unit, REPO
from pyvc.sym import *  # noqa
from pyvc.bounded import bounded_unit

LEVEL = "proof"
DBI = "osaca/db_interface.py"
TRUSTED = [
    "pyvc symbolic semantics of the Python subset; z3 5.1.0",
    "A-float: measurements and the constants 0.95/1.05 are rationals (decimal literals exact), round() is exact half-even",
]
ASSUMPTIONS = [
    "measurement is a non-negative rational (float(...) of the benchmark line); IEEE rounding not modelled",
    "operand codes range over the README's documented language: x86 r|x|y|z|i|m[bois]*, AArch64 i|w|x|b|h|s|d|q|v[bhsd]?|m[boisrp]*",
    "bounded part (file parsing, dump): families stated in the unit evidence; never counted as proved",
]


def validate_unit(res):
    ex = Engine([REPO + "/" + DBI])
    m = z3.Real("m")

    def run(mode):
        ex.extra["m"] = m
        return ex.call_function("_validate_measurement", [SNum(m, False), mode])

    def conc(mode):
        def f(model, p):
            v = model.eval(m, model_completion=True)
            fr = Fraction(v.numerator_as_long(), v.denominator_as_long())
            return dict(replay="c20_validate", args=dict(m=str(fr), mode=mode), key=f"validate:{mode}")

        return f

    # ---- throughput: result = round5(1/n) for the n in 1..10 with 0.95/n <= m <= 1.05/n, else None
    paths = ex.explore(lambda: run("tp"), [m >= 0])

    def post_tp(v, p):
        goal = []
        inwin = []
        for n in range(1, 11):
            w = z3.And(m * n >= z3.RealVal("0.95"), m * n <= z3.RealVal("1.05"))
            inwin.append(w)
            r5 = round(Fraction(1, n), 5)
            goal.append(z3.Implies(w, z3.BoolVal(isinstance(v, Fraction) and v == r5)))
        goal.append(z3.Implies(z3.Not(z3.Or(inwin)), z3.BoolVal(v is None)))
        return z3.And(goal)

    res.add_paths(paths, post_tp, concretize=conc("tp"), kind="tp-post")
    frac = lambda model: str(Fraction(model.eval(m, model_completion=True).numerator_as_long(), model.eval(m, model_completion=True).denominator_as_long()))
    res.add_diff(paths, "d_c20_validate", lambda model, p: dict(m=frac(model), mode="tp"))
    # windows are pairwise disjoint, so "the" n is well defined
    win = lambda n: z3.And(m * n >= z3.RealVal("0.95"), m * n <= z3.RealVal("1.05"))
    for n in range(1, 11):
        for n2 in range(n + 1, 11):
            res.add("tp-windows-disjoint", [m >= 0], z3.Not(z3.And(win(n), win(n2))), label="L")

    # ---- latency: nearest integer k (half-even) if |m-k| <= 0.05 k, None iff no integer is within 5 %
    paths = ex.explore(lambda: run("lt"), [m >= 0])

    def post_lt(v, p):
        f, c, k = z3.Ints("f_ c_ k_")
        hyp = z3.And(z3.ToReal(f) <= m, m < z3.ToReal(f) + 1, z3.ToReal(c) >= m, m > z3.ToReal(c) - 1)
        d = m - z3.ToReal(k)
        nearest = z3.And(d >= z3.RealVal("-1/2"), d <= z3.RealVal("1/2"),
                         z3.Implies(z3.Or(d == z3.RealVal("1/2"), d == z3.RealVal("-1/2")), k % 2 == 0))
        within = lambda j: z3.And(m - z3.ToReal(j) <= z3.RealVal("0.05") * z3.ToReal(j), z3.ToReal(j) - m <= z3.RealVal("0.05") * z3.ToReal(j))
        some = z3.Or(within(f), within(c))
        if v is None:
            return z3.ForAll([f, c], z3.Implies(hyp, z3.Not(some)))
        if not isinstance(v, SNum):
            return False
        vt = real_term(v)
        return z3.ForAll([f, c, k], z3.Implies(z3.And(hyp, nearest), z3.And(some, vt == z3.ToReal(k), within(k))))

    res.add_paths(paths, post_lt, concretize=conc("lt"), kind="lt-post")
    res.add_diff(paths, "d_c20_validate", lambda model, p: dict(m=frac(model), mode="lt"))
    paths = ex.explore(lambda: run("other"), [m >= 0])
    res.add_paths(paths, lambda v, p: v is None, kind="other-mode")
    return res


def _is(v, const):
    if const is None:
        return v is None
    if isinstance(v, BStr) and isinstance(const, str):
        return bstr_eq(v, const)
    return type(v) is type(const) and v == const


def _mem_post(code, d, extra):
    """expected decoding of an m-code; d = concrete result dict of this path"""
    has = lambda ch: const_in_bstr(ch, code)
    want_keys = {"class", "base", "offset", "index", "scale"} | {k for k in extra if not k.startswith("__")}
    if not isinstance(d, dict) or set(d.keys()) != want_keys:
        return False
    g = [_is(d["class"], "memory")]
    g.append(z3.If(has("b"), _is(d["base"], extra.get("__base__", "gpr")), _is(d["base"], None)))
    g.append(z3.If(has("o"), _is(d["offset"], "imd"), _is(d["offset"], None)))
    g.append(z3.If(has("i"), _is(d["index"], "gpr"), _is(d["index"], None)))
    g.append(z3.If(has("s"), _is(d["scale"], 8), _is(d["scale"], 1)))
    return g


def decoder_unit(isa):
    def unit(res):
        ex = Engine([REPO + "/" + DBI])
        code = BStr.fresh("code", 7)
        if isa == "x86":
            singles = {"r": {"class": "register", "name": "gpr"}, "x": {"class": "register", "name": "xmm"},
                       "y": {"class": "register", "name": "ymm"}, "z": {"class": "register", "name": "zmm"},
                       "i": {"class": "immediate", "imd": "int"}}
            mem_letters = "bois"
        else:
            singles = {"i": {"class": "immediate", "imd": "int"}}
            for p in "wxbhsdq":
                singles[p] = {"class": "register", "prefix": p}
            singles["v"] = {"class": "register", "prefix": "v", "shape": "d"}
            for s in "bhsd":
                singles["v" + s] = {"class": "register", "prefix": "v", "shape": s}
            mem_letters = "boisrp"
        is_mem = z3.And([code.length >= 1, code.chars[0] == ord("m")] +
                        [z3.Or(code.length <= i, z3.Or([code.chars[i] == ord(c) for c in mem_letters])) for i in range(1, 7)])
        lang = z3.Or([bstr_eq(code, s) for s in singles] + [is_mem])

        for entry in ("_create_db_operand_" + isa, "_create_db_operand"):
            def run():
                args = [code] if entry.endswith(isa) else [code, isa]
                return ex.call_function(entry, args)

            paths = ex.explore(run, [code.wf(), lang])

            def post(v, p):
                g = []
                for s, want in singles.items():
                    g.append(z3.Implies(bstr_eq(code, s), ex.eq_term(v, want)))
                if isa == "x86":
                    mp = _mem_post(code, v, {})
                else:
                    mp = _mem_post(code, v, {"pre_indexed": 0, "post_indexed": 0, "__base__": "x"})
                    if mp is not False:
                        mp = [x for x in mp]
                        has = lambda ch: const_in_bstr(ch, code)
                        mp.append(z3.If(has("r"), _is(v.get("pre_indexed"), True), _is(v.get("pre_indexed"), False)))
                        mp.append(z3.If(has("p"), _is(v.get("post_indexed"), True), _is(v.get("post_indexed"), False)))
                if mp is False:
                    g.append(z3.Not(is_mem))
                else:
                    g.append(z3.Implies(is_mem, z3.And([x if not isinstance(x, bool) else z3.BoolVal(x) for x in mp])))
                return z3.And(g)

            def conc(m, p):
                return dict(replay="c20_decode", args=dict(code=code.concretize(m), isa=isa), key=f"decode:{isa}")

            n = res.add_paths(paths, post, concretize=conc, kind=entry)
            res.add_diff(paths, "d_c20_decode", lambda m, p: dict(code=code.concretize(m), isa=isa), limit=20)
            res.note(f"{entry}: {len(paths)} paths, {n} returning")
        return res

    return unit


def _mem_keys_fix(extra):
    return extra


def asmbench_unit(res):
    """P: _get_asmbench_output (real code) for files of ANY number of lines.  The file enters through ghost structure: line j is
    blank or not (blank(j)), a non-blank line has a form name with a sequence of operand codes and a number as its second word
    (A: str.strip / split / float act on such lines as the ghost classes say).  Block k = lines 4k .. 4k+3 (shorter at the end of the
    file).  Obligations per block: the import stops - without storing anything for this block - iff the block is all blank, or has
    fewer than 3 lines, or has a 4th line that is not blank, or its 2nd / 3rd line is not a latency / throughput measurement line;
    otherwise exactly one entry is stored under the stripped first line,
    with the mnemonic and the decoded operand codes of that line, throughput = validated number of line 4k+2, latency = validated
    number of line 4k+1, no port pressure.  Earlier entries are never touched (the store only adds / replaces by key)."""
    ex = Engine([REPO + "/" + DBI])
    fn = ex.funcs["_get_asmbench_output"]
    ex.index_loops(fn)
    I_, B_, R_ = z3.IntSort(), z3.BoolSort(), z3.RealSort()
    N = z3.Int("n_lines")
    blank = z3.Function("line_is_blank", I_, B_)
    num = z3.Function("second_word_as_number", I_, R_)
    ncodes = z3.Function("n_operand_codes", I_, I_)
    has_dash, codes_ok = z3.Function("name_has_operand_part", I_, B_), z3.Function("all_operand_codes_known", I_, B_)
    ok_tp, ok_lt = z3.Function("tp_in_a_window", R_, B_), z3.Function("lt_within_5_percent", R_, B_)
    v_tp, v_lt = z3.Function("snapped_tp", R_, R_), z3.Function("snapped_lt", R_, R_)
    st = {}

    class Line:
        def __init__(self, j):
            self.j = j

        def sym_method(self, ex_, name, args, kw):
            if name == "strip" and not args:
                return Stripped(self.j)
            if name == "split" and not args:
                return Words(self.j)
            raise Unsupported("line." + name)

    class Stripped:
        def __init__(self, j):
            self.j = j

        def sym_eq(self, ex_, other):
            if other == "":
                return SBool(blank(self.j))
            if isinstance(other, Stripped):
                return SBool(self.j == other.j)
            raise Unsupported("comparison of a stripped line")

        def sym_contains(self, ex_, item):
            if item == "-":
                return SBool(has_dash(self.j))
            raise Unsupported("membership test on a stripped line")

        def sym_method(self, ex_, name, args, kw):
            if name == "split" and args == ["-"]:
                # 'MNEMONIC[-OP1[_OP2][...]]': the operand part is optional
                if ex_.branch(has_dash(self.j)):
                    return [("mnemonic-of-line", self.j), Codes(self.j)]
                return [("mnemonic-of-line", self.j)]
            raise Unsupported("stripped line." + name)

    class Codes:
        def __init__(self, j):
            self.j = j

        def sym_method(self, ex_, name, args, kw):
            if name == "split" and args == ["_"]:
                j = self.j
                seq = SymSeq(ncodes(j), lambda k: ("code", j, k))
                # A (decoder contract, verified in the decoder units): decoding raises ValueError iff a code is outside the naming convention
                seq.sym_before_map = lambda ex__: None if ex__.branch(codes_ok(j)) else (_ for _ in ()).throw(PyRaise("ValueError", "unknown operand code"))
                return seq
            raise Unsupported("operand codes." + name)

    class Words:
        def __init__(self, j):
            self.j = j

        def sym_getitem(self, ex_, i):
            if i == 1:
                return NumWord(self.j)
            raise Unsupported("word of a line")

    class NumWord:
        def __init__(self, j):
            self.j = j

        def sym_float(self, ex_):
            return SNum(num(self.j), False)

    def validate(ex_, so, a, kw):
        x, mode = real_term(a[0]), a[1]
        okf, vf = (ok_tp, v_tp) if mode == "tp" else (ok_lt, v_lt)
        return SNum(vf(x), False) if ex_.branch(okf(x)) else None

    class Entry:
        def __init__(self, kw):
            self.kw = kw

        def sym_getattr(self, ex_, attr):
            return self.kw[attr]

    class Entries:
        def __init__(self):
            self.stores = []

        def sym_havoc(self, ex_, tag):
            return self

        def sym_setitem(self, ex_, key, val):
            self.stores.append((key, val))

    ex.abstract["_validate_measurement"] = validate
    ex.abstract["_create_db_operand"] = lambda ex_, so, a, kw: ("decoded", a[0], a[1])
    ex.names["InstructionForm"] = lambda ex_, *a, **kw: Entry(kw) if not a else (_ for _ in ()).throw(Unsupported("positional InstructionForm arguments"))
    # ghost structure of a line: it is a measurement line 'Latency: <number> ..' / 'Throughput: <number> ..' or not
    # (the helper that decides this has its own unit, measurement_line_unit)
    is_lat, is_tp = z3.Function("is_latency_line", I_, B_), z3.Function("is_throughput_line", I_, B_)

    def is_measurement(ex_, so, a, kw):
        line, label = a
        if not isinstance(line, Line) or label not in ("Latency", "Throughput"):
            raise Unsupported("measurement test on something else than a line of the file")
        return SBool((is_lat if label == "Latency" else is_tp)(line.j))

    ex.abstract["_is_asmbench_measurement"] = is_measurement

    def malformed(k):
        # block k: lines 4k .. min(4k+4, N) - 1; statement: a malformed block stops the import at that block
        ln = z3.If(4 * k + 4 <= N, 4, N - 4 * k)
        allblank = z3.And([z3.Implies(4 * k + d < N, blank(4 * k + d)) for d in range(4)])
        bad = z3.Or(ln < 3, z3.And(ln == 4, z3.Not(blank(4 * k + 3))), z3.Not(is_lat(4 * k + 1)), z3.Not(is_tp(4 * k + 2)),
                    # a name whose operand codes cannot be decoded: the block cannot be imported
                    z3.And(has_dash(4 * k), z3.Not(codes_ok(4 * k))))
        return allblank, bad

    class Hook:
        def pre_havoc(self, ex_, env):
            if isinstance(env.get("db_entries"), dict):
                if env["db_entries"]:
                    ex_.oblige("store-empty-before-the-loop", False)
                env["db_entries"] = st["entries"] = Entries()

        def on_body_start(self, ex_, env, k):
            st["entries"].stores.clear()

        def on_body_end(self, ex_, env, k):
            allblank, bad = malformed(k)
            stores = st["entries"].stores
            ex_.oblige("block/not-stopped-only-if-well-formed", z3.And(z3.Not(allblank), z3.Not(bad)))
            ok = len(stores) == 1 and isinstance(stores[0][0], Stripped) and isinstance(stores[0][1], Entry)
            if not ok:
                ex_.oblige("block/exactly-one-entry-under-the-stripped-first-line", False)
                return
            key, e = stores[0]
            kw = e.kw
            j = z3.FreshInt("j")
            ops = kw.get("operands")
            if isinstance(ops, list) and ops == []:
                # no operand part: an entry without operands
                ex_.oblige("block/no-operand-part-no-operands", z3.Not(has_dash(4 * k)))
                ops = SymSeq(z3.IntVal(0), lambda k_: ("decoded", ("code", 4 * k, k_), st["isa"]))
                nops = z3.IntVal(0)
            else:
                nops = z3.If(has_dash(4 * k), ncodes(4 * k), 0)
            shape = isinstance(ops, SymSeq) and kw.get("mnemonic") is not None and isinstance(kw.get("mnemonic"), tuple) and set(kw) == {"mnemonic", "operands", "throughput", "latency", "port_pressure"} and kw["port_pressure"] is None
            if not shape:
                ex_.oblige("block/entry-fields", False)
                return
            el = ops.at(j)
            okel = isinstance(el, tuple) and el[0] == "decoded" and isinstance(el[1], tuple) and el[1][0] == "code" and el[2] == st["isa"]
            tpv, ltv = kw["throughput"], kw["latency"]
            xt, xl = num(4 * k + 2), num(4 * k + 1)
            ex_.oblige("block/entry-fields", z3.And(key.j == 4 * k, kw["mnemonic"][1] == 4 * k, ops.length == nops,
                                                   z3.Implies(z3.And(0 <= j, j < ops.length), z3.And(el[1][1] == 4 * k, el[1][2] == j)) if okel else False,
                                                   (real_term(tpv) == v_tp(xt)) if tpv is not None else z3.Not(ok_tp(xt)), z3.BoolVal(tpv is None) == z3.Not(ok_tp(xt)),
                                                   (real_term(ltv) == v_lt(xl)) if ltv is not None else z3.Not(ok_lt(xl)), z3.BoolVal(ltv is None) == z3.Not(ok_lt(xl))))

        def on_break(self, ex_, env, k):
            allblank, bad = malformed(k)
            ex_.oblige("block/stopped-only-if-blank-or-malformed-and-nothing-stored", z3.And(z3.Or(allblank, bad), z3.BoolVal(len(st["entries"].stores) == 0)))
            from pyvc.engine import PathEnd
            raise PathEnd()

    ex.loop_hooks[("_get_asmbench_output", 0)] = Hook()
    ex.invariants[("_get_asmbench_output", 0)] = lambda ex_, env, k: z3.BoolVal(True)
    for isa in ("x86", "aarch64"):
        def run(isa=isa):
            st.clear()
            st["isa"] = isa
            return ex.call_function("_get_asmbench_output", [SymSeq(N, lambda j: Line(j)), isa])

        q = z3.Int("q")
        paths = ex.explore(run, [N >= 0, z3.ForAll([q], ncodes(q) >= 1)])
        res.add_paths(paths, lambda v, p: isinstance(v, Entries) or isinstance(v, dict), kind=f"{isa}/returns-the-store")
    return res


def measurement_line_unit(res):
    """P: _is_asmbench_measurement (real code) on a line given as ghost word structure (number of words, whether the first word
    starts with the label, whether the second word is a number: A for str.split / startswith / float): True iff the line has at
    least two words, the first starts with the label and the second is a number; never an exception (in particular no IndexError
    for a blank line and no ValueError for 'n/a')."""
    ex = Engine([REPO + "/" + DBI])
    nwords = z3.Int("n_words")
    starts, isnum = z3.Bool("first_word_starts_with_label"), z3.Bool("second_word_is_a_number")

    class Word:
        def __init__(self, i):
            self.i = i

        def sym_method(self, ex_, name, args, kw):
            if name == "startswith" and self.i == 0 and args == ["Latency"]:
                return SBool(starts)
            raise Unsupported("word." + name)

        def sym_float(self, ex_):
            if self.i != 1:
                raise Unsupported("float of another word")
            if ex_.branch(isnum):
                return SNum(z3.Real("the_number"), False)
            raise PyRaise("ValueError", "could not convert string to float")

    class WordList:
        def sym_len(self, ex_):
            return SNum(nwords, True)

        def sym_getitem(self, ex_, i):
            if not isinstance(i, int) or i < 0:
                raise Unsupported("word index")
            if ex_.branch(nwords <= i):
                raise PyRaise("IndexError", "list index out of range")
            return Word(i)

    class TheLine:
        def sym_method(self, ex_, name, args, kw):
            if name == "split" and not args:
                return WordList()
            raise Unsupported("line." + name)

    paths = ex.explore(lambda: ex.call_function("_is_asmbench_measurement", [TheLine(), "Latency"]), [nwords >= 0])
    res.add_paths(paths, lambda v, p: z3.BoolVal(v is True) == z3.And(nwords >= 2, starts, isnum) if isinstance(v, bool) else False, kind="_is_asmbench_measurement")
    return res


def ibench_unit(res):
    """P: _get_ibench_output (real code) for files of ANY number of lines.  Ghost structure of a line j: header / blank / data line of
    form form(j) (the 'mnemonic-operands' part of its name) with tag TP, LT or something else and a number as second word (A: str
    operations as in the ghost classes).  The entries live in a ghost heap indexed by form.  Loop invariant (lines < k processed) and
    result (k = N), under the precondition that a form has at most one TP and one LT line:
      an entry exists exactly for the forms of the data lines; its throughput is the validated number of the form's TP line (absent if
      rejected or if there is no TP line), likewise the latency and the LT line - the two lines of a form are merged into ONE entry,
      whichever comes first; header and blank lines contribute nothing."""
    ex = Engine([REPO + "/" + DBI])
    fn = ex.funcs["_get_ibench_output"]
    ex.index_loops(fn)
    I_, B_, R_ = z3.IntSort(), z3.BoolSort(), z3.RealSort()
    N = z3.Int("n_lines")
    header, blank = z3.Function("is_header", I_, B_), z3.Function("is_blank", I_, B_)
    form, tag = z3.Function("form_of_line", I_, I_), z3.Function("tag_of_line", I_, I_)  # tag 0 TP, 1 LT, other: neither
    num = z3.Function("second_word_as_number", I_, R_)
    ncodes = z3.Function("n_operand_codes", I_, I_)
    ok_tp, ok_lt = z3.Function("tp_in_a_window", R_, B_), z3.Function("lt_within_5_percent", R_, B_)
    v_tp, v_lt = z3.Function("snapped_tp", R_, R_), z3.Function("snapped_lt", R_, R_)
    data = lambda j: z3.And(z3.Not(header(j)), z3.Not(blank(j)))
    AB, AR = z3.ArraySort(I_, B_), z3.ArraySort(I_, R_)
    H = {}

    def fresh_heap(tagname):
        H.update(present=z3.FreshConst(AB, "present" + tagname), tph=z3.FreshConst(AB, "tp_has" + tagname), tpv=z3.FreshConst(AR, "tp_val" + tagname),
                 lth=z3.FreshConst(AB, "lt_has" + tagname), ltv=z3.FreshConst(AR, "lt_val" + tagname))

    class Line:
        def __init__(self, j):
            self.j = j

        def sym_contains(self, ex_, item):
            if item == "Using frequency":
                return SBool(header(self.j))
            raise Unsupported("substring test on a line")

        def sym_method(self, ex_, name, args, kw):
            if name == "strip" and not args:
                return Stripped(self.j)
            if name == "split" and args == [":"]:
                return [Name(self.j), "rest"]
            if name == "split" and not args:
                return ["first-word", NumWord(self.j)]
            raise Unsupported("line." + name)

    class Stripped:
        def __init__(self, j):
            self.j = j

        def sym_len(self, ex_):
            return SNum(z3.If(blank(self.j), 0, 1 + z3.Int("more_chars")), True)

    class NumWord:
        def __init__(self, j):
            self.j = j

        def sym_float(self, ex_):
            return SNum(num(self.j), False)

    class Name:  # 'mnemonic-operands-TAG'
        def __init__(self, j):
            self.j = j

        def sym_method(self, ex_, name, args, kw):
            if name == "split" and args == ["-"]:
                return Parts(self.j)
            raise Unsupported("name." + name)

    class Parts:
        def __init__(self, j):
            self.j = j

        def sym_getslice(self, ex_, lo, hi, step):
            if lo is None and hi == 2:
                return KeyParts(self.j)
            raise Unsupported("slice of the name parts")

        def sym_getitem(self, ex_, i):
            if i == 0:
                return ("mnemonic-of-line", self.j)
            if i == 1:
                return Codes(self.j)
            if i == -1 or i == 2:
                return Tag(self.j)
            raise Unsupported("part of a name")

    class KeyParts:
        def __init__(self, j):
            self.j = j

        def sym_join(self, ex_, sep):
            if sep != "-":
                raise Unsupported("join with another separator")
            return Key(form(self.j))

    class Key:
        def __init__(self, f):
            self.f = f

    class Codes:
        def __init__(self, j):
            self.j = j

        def sym_method(self, ex_, name, args, kw):
            if name == "split" and args == ["_"]:
                j = self.j
                return SymSeq(ncodes(j), lambda k: ("code", j, k))
            raise Unsupported("operand codes." + name)

    class Tag:
        def __init__(self, j):
            self.j = j

        def sym_contains(self, ex_, item):
            if item in ("TP", "LT"):
                return SBool(tag(self.j) == (0 if item == "TP" else 1))
            raise Unsupported("substring test on the tag")

    class EntryRef:
        def __init__(self, f):
            self.f = f

        def sym_getattr(self, ex_, attr):
            hk, vk = {"throughput": ("tph", "tpv"), "latency": ("lth", "ltv")}[attr]
            return SNum(z3.Select(H[vk], self.f), False) if ex_.branch(z3.Select(H[hk], self.f)) else None

        def sym_setattr(self, ex_, attr, v):
            hk, vk = {"throughput": ("tph", "tpv"), "latency": ("lth", "ltv")}[attr]
            H[hk] = z3.Store(H[hk], self.f, z3.BoolVal(v is not None))
            if v is not None:
                H[vk] = z3.Store(H[vk], self.f, real_term(v))

    st = {}

    def new_entry(ex_, *a, **kw):
        mn, ops = kw.get("mnemonic"), kw.get("operands")
        okc = isinstance(mn, tuple) and mn[0] == "mnemonic-of-line" and isinstance(ops, SymSeq) and kw.get("throughput", 0) is None and kw.get("latency", 0) is None and kw.get("port_pressure", 0) is None and not a
        j = z3.FreshInt("j")
        el = ops.at(j) if okc else None
        okc = okc and isinstance(el, tuple) and el[0] == "decoded" and el[2] == st["isa"]
        ex_.oblige("new-entry/mnemonic-and-decoded-operand-codes-of-this-line", z3.And(mn[1] == st["k"], ops.length == ncodes(st["k"]),
                                                                                      z3.Implies(z3.And(0 <= j, j < ops.length), z3.And(el[1][1] == st["k"], el[1][2] == j))) if okc else False)
        f = form(st["k"])
        H["tph"], H["lth"] = z3.Store(H["tph"], f, False), z3.Store(H["lth"], f, False)  # a fresh entry has neither value
        return EntryRef(f)

    class Entries:
        def sym_havoc(self, ex_, tag_):
            return self

        def sym_contains(self, ex_, key):
            if not isinstance(key, Key):
                raise Unsupported("store lookup with a foreign key")
            return SBool(z3.Select(H["present"], key.f))

        def sym_getitem(self, ex_, key):
            return EntryRef(key.f)

        def sym_setitem(self, ex_, key, val):
            ex_.oblige("store/entry-filed-under-its-own-form", z3.And(key.f == val.f) if isinstance(key, Key) and isinstance(val, EntryRef) else False)
            H["present"] = z3.Store(H["present"], key.f, True)
            st["stored"] = st.get("stored", 0) + 1

    def validate(ex_, so, a, kw):
        x, mode = real_term(a[0]), a[1]
        okf, vf = (ok_tp, v_tp) if mode == "tp" else (ok_lt, v_lt)
        return SNum(vf(x), False) if ex_.branch(okf(x)) else None

    ex.abstract["_validate_measurement"] = validate
    ex.abstract["_create_db_operand"] = lambda ex_, so, a, kw: ("decoded", a[0], a[1])
    ex.names["InstructionForm"] = new_entry

    def inv(ex_, env, k):
        if isinstance(env.get("db_entries"), dict):  # loop entry: nothing stored yet
            return z3.BoolVal(not env["db_entries"])
        j, f = z3.Int("j"), z3.Int("f")
        P, TH, TV, LH, LV = H["present"], H["tph"], H["tpv"], H["lth"], H["ltv"]
        inr = lambda jj: z3.And(0 <= jj, jj < k, data(jj))
        return z3.And(
            z3.ForAll([j], z3.Implies(inr(j), z3.Select(P, form(j)))),
            z3.ForAll([f], z3.Implies(z3.Select(P, f), z3.Exists([j], z3.And(inr(j), form(j) == f)))),
            z3.ForAll([j], z3.Implies(z3.And(inr(j), tag(j) == 0), z3.And(z3.Select(TH, form(j)) == ok_tp(num(j)), z3.Implies(ok_tp(num(j)), z3.Select(TV, form(j)) == v_tp(num(j)))))),
            z3.ForAll([j], z3.Implies(z3.And(inr(j), tag(j) == 1), z3.And(z3.Select(LH, form(j)) == ok_lt(num(j)), z3.Implies(ok_lt(num(j)), z3.Select(LV, form(j)) == v_lt(num(j)))))),
            z3.ForAll([f], z3.Implies(z3.And(z3.Select(P, f), z3.Select(TH, f)), z3.Exists([j], z3.And(inr(j), form(j) == f, tag(j) == 0)))),
            z3.ForAll([f], z3.Implies(z3.And(z3.Select(P, f), z3.Select(LH, f)), z3.Exists([j], z3.And(inr(j), form(j) == f, tag(j) == 1)))))

    class Hook:
        def pre_havoc(self, ex_, env):
            if isinstance(env.get("db_entries"), dict):
                env["db_entries"] = Entries()

        def havoc(self, ex_, env):
            fresh_heap("!")
            # a local that the body binds only on some paths may still hold what an EARLIER line left in it: model that as a
            # reference to the entry of an arbitrary form (code that always rebinds it before use never sees this value)
            for nm in st.get("carried", ()):
                if nm not in env or isinstance(env[nm], EntryRef):
                    env[nm] = EntryRef(z3.FreshInt("form_of_an_earlier_line"))

        def on_body_start(self, ex_, env, k):
            st["k"], st["stored"] = k, 0

        def on_body_end(self, ex_, env, k):
            ex_.oblige("line/stored-iff-data-line", z3.BoolVal(st["stored"] == 1) == data(k) if st["stored"] <= 1 else False)

    ex.loop_hooks[("_get_ibench_output", 0)] = Hook()
    ex.invariants[("_get_ibench_output", 0)] = inv
    # names assigned somewhere in the loop body (candidates for values carried over from an earlier iteration)
    import ast as _ast
    _loop = [n_ for n_ in _ast.walk(ex.funcs["_get_ibench_output"]) if isinstance(n_, _ast.For)][0]
    carried_names = sorted({t.id for n_ in _ast.walk(_loop) if isinstance(n_, _ast.Assign) for t in n_.targets if isinstance(t, _ast.Name)} & {"entry"})
    j1, j2 = z3.Ints("j1 j2")
    uniq = z3.ForAll([j1, j2], z3.Implies(z3.And(data(j1), data(j2), form(j1) == form(j2), tag(j1) == tag(j2), z3.Or(tag(j1) == 0, tag(j1) == 1)), j1 == j2))
    q = z3.Int("q")
    for isa in ("x86", "aarch64"):
        def run(isa=isa):
            st.clear()
            st["isa"] = isa
            st["carried"] = carried_names
            fresh_heap("0")
            return ex.call_function("_get_ibench_output", [SymSeq(N, lambda j: Line(j)), isa])

        paths = ex.explore(run, [N >= 0, uniq, z3.ForAll([q], ncodes(q) >= 1), z3.Int("more_chars") >= 0])
        res.add_paths(paths, lambda v, p: isinstance(v, Entries) or (isinstance(v, dict) and not v), kind=f"{isa}/returns-the-store")
    return res


def insertion_unit(res):
    """P: import_benchmark_output's insertion loop, MachineModel.set_instruction_entry and set_instruction (real code;
    get_instruction enters through its contract (C07): None, or an entry of the model).  (1) the loop hands every parsed entry to
    set_instruction_entry exactly once; (2) for a form the model does not know, exactly one new entry is appended to the model's
    list (and to its per-mnemonic index) carrying the imported mnemonic, operand objects, latency, throughput, port pressure and
    micro-ops - None stays None, nothing is invented - and every previous entry keeps all its fields; (3) for a form the lookup
    returns, that entry is overwritten with the imported fields and no other entry changes; (4) an entry without mnemonic and
    operands raises KeyError and leaves the model untouched."""
    import collections
    HWF = "osaca/semantics/hw_model.py"
    ex = Engine([REPO + "/" + f for f in ("osaca/parser/instruction_form.py", HWF, DBI)])
    ex.no_init |= {"MachineModel"}
    lt, tp = z3.Real("imported_latency"), z3.Real("imported_throughput")
    FIELDS = ("_mnemonic", "_operands", "_latency", "_port_pressure", "_throughput", "_uops")
    for have_lt in (True, False):
        for have_tp in (True, False):
            for lookup in ("none", "existing"):
                def run():
                    old = [ex.instantiate("InstructionForm", kw=dict(mnemonic=m, operands=[SObj("RegisterOperand", tag=m)], latency=SNum(z3.Real("old_lt_" + m), False),
                                                                     throughput=SNum(z3.Real("old_tp_" + m), False), port_pressure=[[1, "0"]])) for m in ("ADD", "SUB")]
                    idx = collections.defaultdict(list)
                    for e in old:
                        idx[e.fields["_mnemonic"]].append(e)
                    data = {"instruction_forms": list(old), "instruction_forms_dict": idx}
                    mm = SObj("MachineModel", _data=data)
                    ops = [SObj("RegisterOperand", tag="imported")]
                    entry = ex.instantiate("InstructionForm", kw=dict(mnemonic="sub", operands=ops, latency=SNum(lt, False) if have_lt else None,
                                                                      throughput=SNum(tp, False) if have_tp else None))
                    snap = [dict(e.fields) for e in old]
                    ex.abstract["get_instruction"] = lambda ex_, so, a, kw: None if lookup == "none" else old[1]
                    ex.extra.update(old=old, data=data, entry=entry, snap=snap, ops=ops)
                    return ex.call_method("MachineModel", "set_instruction_entry", mm, [entry])

                paths = ex.explore(run, [])

                def post(v, p, have_lt=have_lt, have_tp=have_tp, lookup=lookup):
                    old, data, entry, snap = (p.extra[k] for k in ("old", "data", "entry", "snap"))
                    forms = data["instruction_forms"]
                    def same(a, b):
                        if a is b:
                            return True
                        if is_num(a) and is_num(b):
                            return z3.eq(z3.simplify(real_term(a)), z3.simplify(real_term(b)))
                        if isinstance(a, list) and isinstance(b, list):  # a copy of a list with the same elements is the same value
                            return len(a) == len(b) and all(same(x, y) for x, y in zip(a, b))
                        return type(a) is type(b) and isinstance(a, (str, int, tuple)) and a == b
                    untouched = lambda i: all(same(old[i].fields[k], snap[i][k]) for k in snap[i])
                    if lookup == "none":
                        new = [f for f in forms if f is not old[0] and f is not old[1]]  # position in the list is not constrained
                        if len(forms) != 3 or len(new) != 1 or not (untouched(0) and untouched(1)):
                            return False
                        tgt = new[0]
                        # filed in the per-mnemonic index under its own mnemonic (the statement does not say in which spelling: the
                        # emitted model is written from the list, not from the index; see DESIGN section 11, round 6, C07 remark 4)
                        if not any(tgt is x for k_, v_ in data["instruction_forms_dict"].items() if k_.upper() == "SUB" for x in v_):
                            return False
                    else:
                        if len(forms) != 2 or not any(f is old[0] for f in forms) or not any(f is old[1] for f in forms) or not untouched(0):
                            return False
                        tgt = old[1]
                    return all(same(tgt.fields[k], entry.fields[k]) for k in FIELDS) and same(entry.fields["_operands"], p.extra["ops"])

                res.add_paths(paths, post, kind=f"set_instruction/lookup={lookup}/lt={int(have_lt)}/tp={int(have_tp)}")

    def run_empty():
        data = {"instruction_forms": [], "instruction_forms_dict": collections.defaultdict(list)}
        ex.extra.update(data=data)
        return ex.call_method("MachineModel", "set_instruction_entry", SObj("MachineModel", _data=data), [ex.instantiate("InstructionForm", kw={})])

    paths = ex.explore(run_empty, [])
    for p in paths:
        res.add("set_instruction_entry/empty-entry-raises-KeyError-and-changes-nothing", p.pc,
                z3.BoolVal(p.outcome[0] == "exc" and p.outcome[1] == "KeyError" and p.extra["data"]["instruction_forms"] == []), label="P")

    # the insertion loop of import_benchmark_output (file reading, model construction, parsers and dump abstract)
    for n in (0, 1, 3):
        def run_loop(n=n):
            entries = {f"form{i}": SObj("InstructionForm", tag=i) for i in range(n)}
            log = []
            ex.abstract["_get_ibench_output"] = lambda ex_, so, a, kw: entries
            ex.abstract["set_instruction_entry"] = lambda ex_, so, a, kw: log.append(a[0])
            ex.abstract["dump"] = lambda ex_, so, a, kw: log.append("dump")
            ex.abstract["get_ISA"] = lambda ex_, so, a, kw: "x86"
            ex.abstract["os.path.exists"] = lambda ex_, so, a, kw: True
            class File:
                def sym_enter(self, ex_):
                    return self

                def sym_method(self, ex_, name, a, kw):
                    if name == "readlines":
                        return ["the", "lines"]
                    raise Unsupported("file." + name)

            ex.abstract["open"] = lambda ex_, so, a, kw: File()
            ex.names["MachineModel"] = lambda *a, **k: SObj("MachineModel")
            ex.extra.update(entries=entries, log=log)
            return ex.call_function("import_benchmark_output", ["arch", "ibench", "path", SObj("Stream")])

        paths = ex.explore(run_loop, [])
        res.add_paths(paths, lambda v, p: (lambda log, ent: len(log) == len(ent) + 1 and log[-1] == "dump" and all(a is b for a, b in zip(log, ent.values())))(p.extra["log"], p.extra["entries"]),
                      kind=f"import-loop/{n}-entries")
    return res


def dump_unit(res):
    """Pb: MachineModel.dump (real code; the YAML writer, ruamel's styled containers and class_to_dict abstract): for a model whose
    entry list holds an entry loaded from the file (a dict) and an imported one (an InstructionForm object), in any of the two
    orders, the writer receives - last, under the key 'instruction_forms' - exactly one record per entry; an imported entry's
    record carries its latency, throughput and port pressure unchanged (None stays None: nothing is invented) and one converted operand
    per operand, in order; the header, load and store tables are written before it, each exactly once."""
    files = ["osaca/parser/operand.py", "osaca/parser/instruction_form.py", "osaca/semantics/hw_model.py"]
    ex = Engine([REPO + "/" + f for f in files])
    ex.no_init |= {"MachineModel"}
    lt, tp = z3.Real("imported_latency"), z3.Real("imported_throughput")
    for order in ("file-first", "imported-first"):
        for have in ((True, True), (False, True), (True, False), (False, False)):
            def run(order=order, have=have):
                ops = [SObj("RegisterOperand", tag="o1"), SObj("MemoryOperand", tag="o2")]
                imp = ex.instantiate("InstructionForm", kw=dict(mnemonic="vfoo", operands=ops, latency=SNum(lt, False) if have[0] else None,
                                                                throughput=SNum(tp, False) if have[1] else None, port_pressure=None))
                fop = SObj("RegisterOperand", tag="f1")
                fil = {"name": "ADD", "operands": [fop], "latency": 1, "throughput": 0.5, "port_pressure": [[1, "01"]]}
                forms = [fil, imp] if order == "file-first" else [imp, fil]
                data = {"isa": "x86", "ports": ["0", "1"], "instruction_forms": forms, "instruction_forms_dict": {"x": []}, "load_throughput": [], "store_throughput": [], "internal_version": 3}
                log = []

                class Styled:
                    def __init__(self, v):
                        self.v, self.fa = v, self

                    def sym_getattr(self, ex_, attr):
                        if attr == "fa":
                            return self
                        return PyMethod(self, attr)

                    def sym_method(self, ex_, name, a, kw):
                        if name == "set_flow_style":
                            return None
                        raise Unsupported("styled container." + name)

                class Yaml:
                    def sym_method(self, ex_, name, a, kw):
                        if name == "dump":
                            log.append(a[0])
                            return None
                        raise Unsupported("yaml." + name)

                ex.abstract["ruamel.yaml.comments.CommentedSeq"] = lambda ex_, so, a, kw: Styled(a[0])
                ex.abstract["ruamel.yaml.comments.CommentedMap"] = lambda ex_, so, a, kw: Styled(a[0])
                ex.abstract["_create_yaml_object"] = lambda ex_, so, a, kw: Yaml()
                ex.abstract["class_to_dict"] = lambda ex_, so, a, kw: ("as-dict", a[0])
                ex.names["StringIO"] = ClassRef("StringIO")  # the stream given here is not one (nothing is returned as text)
                ex.extra.update(log=log, ops=ops, fop=fop, imp=imp, fil=fil)
                return ex.call_method("MachineModel", "dump", SObj("MachineModel", _data=data), [], kw=dict(stream=SObj("Stream")))

            paths = ex.explore(run, [])

            def post(v, p, order=order, have=have):
                log = p.extra["log"]
                if len(log) != 4 or not all(isinstance(x, dict) for x in log):
                    return False
                if list(log[1]) != ["load_throughput"] or list(log[2]) != ["store_throughput"] or list(log[3]) != ["instruction_forms"] or "instruction_forms" in log[0] or "ports" not in log[0]:
                    return False
                recs = log[3]["instruction_forms"]
                if not (isinstance(recs, list) and len(recs) == 2 and all(isinstance(r, dict) for r in recs)):
                    return False
                # (the order of the records is not part of the statement: they are identified by their names)
                nm = lambda r: r.get("mnemonic") if r.get("mnemonic") is not None else r.get("name")
                ri, rf = [r for r in recs if nm(r) == "vfoo"], [r for r in recs if nm(r) == "ADD"]
                if len(ri) != 1 or len(rf) != 1:
                    return False
                ri, rf = ri[0], rf[0]
                ops = p.extra["ops"]
                ok = (ri.get("operands") == [("as-dict", ops[0]), ("as-dict", ops[1])] and ri["operands"][0][1] is ops[0] and ri["operands"][1][1] is ops[1]
                      and (ri.get("mnemonic") == "vfoo" or ri.get("name") == "vfoo") and ri.get("port_pressure") is None
                      and rf.get("name") == "ADD" and rf.get("operands") == [("as-dict", p.extra["fop"])] and rf.get("latency") == 1 and rf.get("throughput") == 0.5)
                g = [z3.BoolVal(bool(ok))]
                # a value that was not measured is missing in the record (absent or null), never a number
                g.append(real_term(ri["latency"]) == lt if (have[0] and ri.get("latency") is not None) else z3.BoolVal(not have[0] and ri.get("latency") is None))
                g.append(real_term(ri["throughput"]) == tp if (have[1] and ri.get("throughput") is not None) else z3.BoolVal(not have[1] and ri.get("throughput") is None))
                return z3.And(g)

            res.add_paths(paths, post, kind=f"dump/{order}/lt={int(have[0])}/tp={int(have[1])}", label="Pb")
    return res


def _run_dispatch():
    from .c13 import run_dispatch_unit
    return run_dispatch_unit


def units(tier):
    us = [
        Unit("C20/_validate_measurement", validate_unit, "P", [(DBI, "_validate_measurement")]),
        Unit("C20/_create_db_operand_x86", decoder_unit("x86"), "P",
             [(DBI, "_create_db_operand_x86"), (DBI, "_create_db_operand")]),
        Unit("C20/_create_db_operand_aarch64", decoder_unit("aarch64"), "P",
             [(DBI, "_create_db_operand_aarch64"), (DBI, "_create_db_operand")]),
        Unit("C20/_get_ibench_output(TP/LT merged per form, any file length)", ibench_unit, "P", [(DBI, "_get_ibench_output")]),
        Unit("C20/_get_asmbench_output(block structure, any file length)", asmbench_unit, "P", [(DBI, "_get_asmbench_output")]),
        Unit("C20/_is_asmbench_measurement", measurement_line_unit, "P", [(DBI, "_is_asmbench_measurement")]),
        Unit("C20/insertion(set_instruction_entry, set_instruction, import loop)", insertion_unit, "P", [("osaca/semantics/hw_model.py", "MachineModel.set_instruction_entry"),
             ("osaca/semantics/hw_model.py", "MachineModel.set_instruction"), (DBI, "import_benchmark_output")]),
        Unit("C20/run+import_data(dispatch to the reader of the benchmark kind)", _run_dispatch(), "P", [("osaca/osaca.py", "run"), ("osaca/osaca.py", "import_data")], decisive=False),
        Unit("C20/MachineModel.dump(records handed to the YAML writer)", dump_unit, "Pb", [("osaca/semantics/hw_model.py", "MachineModel.dump")]),
        bounded_unit("C20/import-end-to-end", "c20_import", [(DBI, "_get_ibench_output"), (DBI, "_get_asmbench_output"),
                     (DBI, "import_benchmark_output"), ("osaca/semantics/hw_model.py", "MachineModel.set_instruction_entry"),
                     ("osaca/semantics/hw_model.py", "MachineModel.dump")], timeout=1200),
    ]
    return us
