"""C20 - benchmark import snaps measurements and decodes operand codes.

P: _validate_measurement (all rationals m >= 0, both modes), _create_db_operand_{x86,aarch64}, _create_db_operand
   over the documented operand-code language of the README (symbolic code strings).
B: _get_ibench_output / _get_asmbench_output / import_benchmark_output + dump (bounded/c20_import.py).
"""
import z3

from pyvc.engine import Engine
from pyvc.runner import Unit, REPO
from pyvc.sym import *  # noqa
from pyvc.bounded import bounded_unit

LEVEL = "proof"
DBI = "osaca/db_interface.py"
TRUSTED = [
    "pyvc symbolic semantics of the Python subset; z3 5.1.0",
    "A-float: measurements and the constants 0.95/1.05 are rationals (decimal literals exact), round() is exact half-even",
]
ASSUMPTIONS = [
    "measurement is a non-negative rational (float(...) of the benchmark line); IEEE rounding not modelled",
    "operand codes range over the README's documented language: x86 r|x|y|z|i|m[bois]*, AArch64 i|w|x|b|h|s|d|q|v[bhsd]?|m[boisrp]*",
    "bounded part (file parsing, dump): families stated in the unit evidence; never counted as proved",
]


def validate_unit(res):
    ex = Engine([REPO + "/" + DBI])
    m = z3.Real("m")

    def run(mode):
        ex.extra["m"] = m
        return ex.call_function("_validate_measurement", [SNum(m, False), mode])

    def conc(mode):
        def f(model, p):
            v = model.eval(m, model_completion=True)
            fr = Fraction(v.numerator_as_long(), v.denominator_as_long())
            return dict(replay="c20_validate", args=dict(m=str(fr), mode=mode), key=f"validate:{mode}")

        return f

    # ---- throughput: result = round5(1/n) for the n in 1..10 with 0.95/n <= m <= 1.05/n, else None
    paths = ex.explore(lambda: run("tp"), [m >= 0])

    def post_tp(v, p):
        goal = []
        inwin = []
        for n in range(1, 11):
            w = z3.And(m * n >= z3.RealVal("0.95"), m * n <= z3.RealVal("1.05"))
            inwin.append(w)
            r5 = round(Fraction(1, n), 5)
            goal.append(z3.Implies(w, z3.BoolVal(isinstance(v, Fraction) and v == r5)))
        goal.append(z3.Implies(z3.Not(z3.Or(inwin)), z3.BoolVal(v is None)))
        return z3.And(goal)

    res.add_paths(paths, post_tp, concretize=conc("tp"), kind="tp-post")
    frac = lambda model: str(Fraction(model.eval(m, model_completion=True).numerator_as_long(), model.eval(m, model_completion=True).denominator_as_long()))
    res.add_diff(paths, "d_c20_validate", lambda model, p: dict(m=frac(model), mode="tp"))
    # windows are pairwise disjoint, so "the" n is well defined
    win = lambda n: z3.And(m * n >= z3.RealVal("0.95"), m * n <= z3.RealVal("1.05"))
    for n in range(1, 11):
        for n2 in range(n + 1, 11):
            res.add("tp-windows-disjoint", [m >= 0], z3.Not(z3.And(win(n), win(n2))), label="L")

    # ---- latency: nearest integer k (half-even) if |m-k| <= 0.05 k, None iff no integer is within 5 %
    paths = ex.explore(lambda: run("lt"), [m >= 0])

    def post_lt(v, p):
        f, c, k = z3.Ints("f_ c_ k_")
        hyp = z3.And(z3.ToReal(f) <= m, m < z3.ToReal(f) + 1, z3.ToReal(c) >= m, m > z3.ToReal(c) - 1)
        d = m - z3.ToReal(k)
        nearest = z3.And(d >= z3.RealVal("-1/2"), d <= z3.RealVal("1/2"),
                         z3.Implies(z3.Or(d == z3.RealVal("1/2"), d == z3.RealVal("-1/2")), k % 2 == 0))
        within = lambda j: z3.And(m - z3.ToReal(j) <= z3.RealVal("0.05") * z3.ToReal(j), z3.ToReal(j) - m <= z3.RealVal("0.05") * z3.ToReal(j))
        some = z3.Or(within(f), within(c))
        if v is None:
            return z3.ForAll([f, c], z3.Implies(hyp, z3.Not(some)))
        if not isinstance(v, SNum):
            return False
        vt = real_term(v)
        return z3.ForAll([f, c, k], z3.Implies(z3.And(hyp, nearest), z3.And(some, vt == z3.ToReal(k), within(k))))

    res.add_paths(paths, post_lt, concretize=conc("lt"), kind="lt-post")
    res.add_diff(paths, "d_c20_validate", lambda model, p: dict(m=frac(model), mode="lt"))
    paths = ex.explore(lambda: run("other"), [m >= 0])
    res.add_paths(paths, lambda v, p: v is None, kind="other-mode")
    return res


def _is(v, const):
    if const is None:
        return v is None
    if isinstance(v, BStr) and isinstance(const, str):
        return bstr_eq(v, const)
    return type(v) is type(const) and v == const


def _mem_post(code, d, extra):
    """expected decoding of an m-code; d = concrete result dict of this path"""
    has = lambda ch: const_in_bstr(ch, code)
    want_keys = {"class", "base", "offset", "index", "scale"} | {k for k in extra if not k.startswith("__")}
    if not isinstance(d, dict) or set(d.keys()) != want_keys:
        return False
    g = [_is(d["class"], "memory")]
    g.append(z3.If(has("b"), _is(d["base"], extra.get("__base__", "gpr")), _is(d["base"], None)))
    g.append(z3.If(has("o"), _is(d["offset"], "imd"), _is(d["offset"], None)))
    g.append(z3.If(has("i"), _is(d["index"], "gpr"), _is(d["index"], None)))
    g.append(z3.If(has("s"), _is(d["scale"], 8), _is(d["scale"], 1)))
    return g


def decoder_unit(isa):
    def unit(res):
        ex = Engine([REPO + "/" + DBI])
        code = BStr.fresh("code", 7)
        if isa == "x86":
            singles = {"r": {"class": "register", "name": "gpr"}, "x": {"class": "register", "name": "xmm"},
                       "y": {"class": "register", "name": "ymm"}, "z": {"class": "register", "name": "zmm"},
                       "i": {"class": "immediate", "imd": "int"}}
            mem_letters = "bois"
        else:
            singles = {"i": {"class": "immediate", "imd": "int"}}
            for p in "wxbhsdq":
                singles[p] = {"class": "register", "prefix": p}
            singles["v"] = {"class": "register", "prefix": "v", "shape": "d"}
            for s in "bhsd":
                singles["v" + s] = {"class": "register", "prefix": "v", "shape": s}
            mem_letters = "boisrp"
        is_mem = z3.And([code.length >= 1, code.chars[0] == ord("m")] +
                        [z3.Or(code.length <= i, z3.Or([code.chars[i] == ord(c) for c in mem_letters])) for i in range(1, 7)])
        lang = z3.Or([bstr_eq(code, s) for s in singles] + [is_mem])

        for entry in ("_create_db_operand_" + isa, "_create_db_operand"):
            def run():
                args = [code] if entry.endswith(isa) else [code, isa]
                return ex.call_function(entry, args)

            paths = ex.explore(run, [code.wf(), lang])

            def post(v, p):
                g = []
                for s, want in singles.items():
                    g.append(z3.Implies(bstr_eq(code, s), ex.eq_term(v, want)))
                if isa == "x86":
                    mp = _mem_post(code, v, {})
                else:
                    mp = _mem_post(code, v, {"pre_indexed": 0, "post_indexed": 0, "__base__": "x"})
                    if mp is not False:
                        mp = [x for x in mp]
                        has = lambda ch: const_in_bstr(ch, code)
                        mp.append(z3.If(has("r"), _is(v.get("pre_indexed"), True), _is(v.get("pre_indexed"), False)))
                        mp.append(z3.If(has("p"), _is(v.get("post_indexed"), True), _is(v.get("post_indexed"), False)))
                if mp is False:
                    g.append(z3.Not(is_mem))
                else:
                    g.append(z3.Implies(is_mem, z3.And([x if not isinstance(x, bool) else z3.BoolVal(x) for x in mp])))
                return z3.And(g)

            def conc(m, p):
                return dict(replay="c20_decode", args=dict(code=code.concretize(m), isa=isa), key=f"decode:{isa}")

            n = res.add_paths(paths, post, concretize=conc, kind=entry)
            res.add_diff(paths, "d_c20_decode", lambda m, p: dict(code=code.concretize(m), isa=isa), limit=20)
            res.note(f"{entry}: {len(paths)} paths, {n} returning")
        return res

    return unit


def _mem_keys_fix(extra):
    return extra


def units(tier):
    us = [
        Unit("C20/_validate_measurement", validate_unit, "P", [(DBI, "_validate_measurement")]),
        Unit("C20/_create_db_operand_x86", decoder_unit("x86"), "P",
             [(DBI, "_create_db_operand_x86"), (DBI, "_create_db_operand")]),
        Unit("C20/_create_db_operand_aarch64", decoder_unit("aarch64"), "P",
             [(DBI, "_create_db_operand_aarch64"), (DBI, "_create_db_operand")]),
        bounded_unit("C20/import-end-to-end", "c20_import", [(DBI, "_get_ibench_output"), (DBI, "_get_asmbench_output"),
                     (DBI, "import_benchmark_output"), ("osaca/semantics/hw_model.py", "MachineModel.set_instruction_entry"),
                     ("osaca/semantics/hw_model.py", "MachineModel.dump")], timeout=1200),
    ]
    return us
