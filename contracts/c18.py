"""C18 - analyses are independent of what was analysed before in the same process.

History independence is reduced to single-call FRAME contracts plus a mechanical inventory of process-global state:
S  inventory (re-computed from the AST of every osaca/*.py on every run): module-level / class-level mutable bindings,
   functools.lru_cache uses, mutable default arguments.  Each known item has a justification below; an item that is not in
   the list makes the unit fail (a new place where state can survive a call).
P  frames (shared with C08): on every path of the composition / lookup branches of assign_tp_lt nothing reachable from the
   machine model or the matched entries changes; assign_src_dst / _apply_found_ISA_data leave the ISA entry, its hidden
   operands and the default-argument objects of InstructionForm.__init__ unchanged.
L  if every call satisfies its frame and is a function of (arguments, model content), a sequence of analyses yields
   element-wise what fresh processes yield (A: CPython determinism).
B  seeded call histories on the real inspect vs. fresh processes, with deep snapshots of the cached models (bounded/c18_history.py).
"""
import ast
import glob
import os
import z3

from pyvc.engine import Engine
from pyvc.runner import Unit, REPO
from pyvc.sym import *  # noqa
from pyvc.bounded import bounded_unit
from .c08 import snapshot, same

LEVEL = "proof"
AS = "osaca/semantics/arch_semantics.py"
ISA = "osaca/semantics/isa_semantics.py"
TRUSTED = ["pyvc heap model (Python identity, in-place list operations)", "A: CPython determinism, dict ordering"]
ASSUMPTIONS = ["frames are proved for the functions and scenarios listed; the remaining functions of the analysis path (KernelDG, Frontend, assign_optimal_throughput) are covered by the bounded history unit",
               "singleton parsers hold only their pyparsing grammar objects (constructed once, never written afterwards)"]

# every piece of process-global mutable state, with the reason why it cannot carry information from one analysis to the next
KNOWN_STATE = {
    ("osaca/semantics/hw_model.py", "class-attr", "MachineModel._runtime_cache"): "cache of loaded model data keyed by path; values are model-owned and never written by the analysis (frame obligations)",
    ("osaca/parser/base_parser.py", "class-attr", "BaseParser._parser_constructed"): "bool flag of the singleton parsers",
    ("osaca/parser/parser_x86att.py", "class-attr", "ParserX86ATT._instance"): "singleton instance (grammar objects only)",
    ("osaca/parser/parser_AArch64.py", "class-attr", "ParserAArch64._instance"): "singleton instance (grammar objects only)",
    ("osaca/osaca.py", "lru_cache", "get_asm_parser"): "memoises the singleton parser per arch",
    ("osaca/parser/instruction_form.py", "mutable-default", "InstructionForm.__init__.operands"): "default list is only ever replaced, never mutated (frame obligation assign_src_dst)",
    ("osaca/parser/instruction_form.py", "mutable-default", "InstructionForm.__init__.hidden_operands"): "default list never mutated",
    ("osaca/parser/instruction_form.py", "mutable-default", "InstructionForm.__init__.semantic_operands"): "default dict is replaced by assign_src_dst, never mutated (frame obligation)",
    ("osaca/frontend.py", "mutable-default", "Frontend._get_port_pressure.used_ports"): "read only",
    ("osaca/semantics/kernel_dg.py", "mutable-default", "KernelDG.is_memload.register_changes"): "read only (proved: is_memload only calls .get on it)",
    ("osaca/semantics/kernel_dg.py", "mutable-default", "KernelDG.is_memstore.register_changes"): "unused",
    ("osaca/osaca.py", "module-attr", "DEFAULT_ARCHS"): "constant table, never written",
    ("osaca/osaca.py", "module-attr", "SUPPORTED_ARCHS"): "constant table, never written",
    ("osaca/semantics/marker_utils.py", "module-attr", "COMMENT_MARKER"): "constant table, never written",
    ("osaca/utils.py", "module-attr", "DATA_DIRS"): "constant list, never written",
}


def inventory():
    found = {}
    for path in sorted(glob.glob(os.path.join(REPO, "osaca", "**", "*.py"), recursive=True)):
        rel = os.path.relpath(path, REPO)
        if rel.startswith("osaca/data/"):
            continue
        tree = ast.parse(open(path).read())
        mutable = lambda v: isinstance(v, (ast.List, ast.Dict, ast.Set)) or (isinstance(v, ast.Call) and isinstance(v.func, ast.Name) and v.func.id in ("dict", "list", "set", "defaultdict", "OrderedDict"))
        for node in tree.body:
            if isinstance(node, ast.Assign) and mutable(node.value):
                for t in node.targets:
                    if isinstance(t, ast.Name) and not (t.id.startswith("__") and t.id.endswith("__")):
                        found[(rel, "module-attr", t.id)] = node.lineno
            if isinstance(node, ast.ClassDef):
                for n in node.body:
                    if isinstance(n, ast.Assign):
                        for t in n.targets:
                            if isinstance(t, ast.Name) and (mutable(n.value) or t.id.startswith("_")) and not isinstance(n.value, ast.Constant) or (isinstance(t, ast.Name) and t.id in ("_instance", "_parser_constructed")):
                                found[(rel, "class-attr", f"{node.name}.{t.id}")] = n.lineno
        for node in ast.walk(tree):
            if isinstance(node, ast.ClassDef):
                for n in node.body:
                    if isinstance(n, ast.FunctionDef):
                        _defaults(found, rel, f"{node.name}.{n.name}", n, mutable)
            if isinstance(node, ast.FunctionDef):
                for d in node.decorator_list:
                    nm = ast.unparse(d)
                    if "lru_cache" in nm or nm.endswith("cache"):
                        found[(rel, "lru_cache", node.name)] = node.lineno
        for node in tree.body:
            if isinstance(node, ast.FunctionDef):
                _defaults(found, rel, node.name, node, mutable)
        # state kept on module-level functions / classes from outside their body ('inspect.seen = set()' at module level, or set
        # inside a function), and module globals rebound from inside a function ('global X')
        toplevel = {n.name for n in tree.body if isinstance(n, (ast.FunctionDef, ast.ClassDef))}

        def root(t):
            while isinstance(t, (ast.Attribute, ast.Subscript)):
                t = t.value
            return t.id if isinstance(t, ast.Name) else None

        for node in ast.walk(tree):
            if isinstance(node, ast.Global):
                for nm in node.names:
                    found[(rel, "global-stmt", nm)] = node.lineno
        for node in tree.body:
            if isinstance(node, (ast.Assign, ast.AugAssign, ast.AnnAssign)):
                for t in (node.targets if isinstance(node, ast.Assign) else [node.target]):
                    if isinstance(t, (ast.Attribute, ast.Subscript)) and root(t) in toplevel:
                        found[(rel, "attr-set-from-outside", ast.unparse(t).split("[")[0])] = node.lineno
        for fn_ in [n for n in ast.walk(tree) if isinstance(n, ast.FunctionDef)]:
            for node in ast.walk(fn_):
                if isinstance(node, (ast.Assign, ast.AugAssign)):
                    for t in (node.targets if isinstance(node, ast.Assign) else [node.target]):
                        if isinstance(t, (ast.Attribute, ast.Subscript)) and root(t) in toplevel and not isinstance(t, ast.Name):
                            nm_ = ast.unparse(t).split("[")[0]
                            if (rel, "class-attr", nm_) not in found:  # (a class attribute listed above is one item, however it is written to)
                                found[(rel, "attr-set-from-outside", nm_)] = node.lineno
        # calls that change interpreter- / process-wide settings: the second analysis of a process meets what the first one set
        # (some of them can be made only once per process, e.g. multiprocessing.set_start_method)
        for node in ast.walk(tree):
            if isinstance(node, ast.Call):
                nm = ast.unparse(node.func)
                if nm.split(".")[-1] in PROCESS_WIDE_SETTERS or nm in PROCESS_WIDE_SETTERS:
                    found[(rel, "process-wide-setter", nm)] = node.lineno
            if isinstance(node, (ast.Assign, ast.AugAssign, ast.Delete)):
                for t in (node.targets if isinstance(node, (ast.Assign, ast.Delete)) else [node.target]):
                    tt = ast.unparse(t)
                    if tt.startswith(("os.environ", "sys.path", "sys.modules", "sys.argv")):
                        found[(rel, "process-wide-setter", tt.split("[")[0])] = node.lineno
    return found


PROCESS_WIDE_SETTERS = {"set_start_method", "setrecursionlimit", "setswitchinterval", "setlocale", "chdir", "umask", "putenv", "unsetenv", "seed",
                        "simplefilter", "filterwarnings", "resetwarnings", "setdefaulttimeout", "set_forkserver_preload", "install_opener",
                        "setprofile", "settrace", "setcheckinterval", "nice", "setpriority", "register_at_fork"}


def _defaults(found, rel, qn, fn, mutable):
    a = fn.args
    params = a.posonlyargs + a.args
    for p, d in zip(params[len(params) - len(a.defaults):], a.defaults):
        if mutable(d):
            found[(rel, "mutable-default", f"{qn}.{p.arg}")] = fn.lineno
    for p, d in zip(a.kwonlyargs, a.kw_defaults):
        if d is not None and mutable(d):
            found[(rel, "mutable-default", f"{qn}.{p.arg}")] = fn.lineno


def inventory_unit(res):
    found = inventory()
    for key, line in sorted(found.items()):
        ok = key in KNOWN_STATE
        rec = res.add("inventory/" + ":".join(key), [], ok, label="S")
        if not ok:
            rec["detail"] = f"process-global mutable state without a frame argument: {key[1]} {key[2]} ({key[0]}:{line})"
            rec["cex"] = dict(key=f"C18:state:{key[2]}")
    res.add("inventory/non-empty", [], len(found) >= 8, label="S")
    res.note(f"{len(found)} items of process-global mutable state found")
    return res


def src_dst_frame_unit(res):
    """assign_src_dst with an ISA entry that has hidden operands: entry, hidden operands, the model's entry list and the default
    argument objects of InstructionForm.__init__ are unchanged afterwards; the hidden operands are shared by reference only."""
    files = ["osaca/parser/operand.py", "osaca/parser/register.py", "osaca/parser/memory.py", "osaca/parser/immediate.py", "osaca/parser/flag.py",
             "osaca/parser/identifier.py", "osaca/parser/instruction_form.py", "osaca/semantics/hw_model.py", ISA]
    ex = Engine([REPO + "/" + f for f in files])
    ex.no_init |= {"MachineModel", "ParserX86ATT", "ParserAArch64"}
    for isa in ("x86", "aarch64"):
        for zero_idiom in (False, True):
            for equal_ops in (False, True):
                def run():
                    new = lambda c, **kw: ex.instantiate(c, kw=kw)
                    reg = (lambda n: new("RegisterOperand", name=n)) if isa == "x86" else (lambda n: new("RegisterOperand", prefix="x", name=n))
                    hidden = [new("FlagOperand", name="ZF", destination=True), new("FlagOperand", name="CF", source=True, destination=True)]
                    e_ops = [new("RegisterOperand", name="gpr", source=True), new("RegisterOperand", name="gpr", source=True, destination=True)]
                    entry = new("InstructionForm", mnemonic="XOR", operands=e_ops, hidden_operands=hidden, breaks_dependency_on_equal_operands=zero_idiom)
                    a, b = reg("rax" if isa == "x86" else "1"), reg("rax" if isa == "x86" and equal_ops else "rbx" if isa == "x86" else ("1" if equal_ops else "2"))
                    iform = new("InstructionForm", mnemonic="xor", operands=[a, b], line="xor", line_number=1)
                    sem = SObj("ISASemantics", _isa=isa, _isa_model=SObj("MachineModel", _data={"isa": isa}))
                    ex.abstract["get_instruction"] = lambda ex_, so, args, kw: entry
                    before = snapshot(entry)
                    ex.call_method("ISASemantics", "assign_src_dst", sem, [iform])
                    ex.extra.update(frame=same(before, snapshot(entry), "isa-entry"), iform=iform, hidden=hidden)
                    return iform

                paths = ex.explore(run, [])
                for p in paths:
                    if p.outcome[0] != "ret":
                        res.add(f"{isa}/exception-freedom", p.pc, False)
                        continue
                    r = res.add(f"{isa}/frame[zero_idiom={zero_idiom},equal={equal_ops}]", p.pc, len(p.extra["frame"]) == 0)
                    r["detail"] = "; ".join(p.extra["frame"][:3]) or None
                    so = p.extra["iform"].fields["_semantic_operands"]
                    shared = [o for role in so.values() for o in role if any(o is h for h in p.extra["hidden"])]
                    res.add(f"{isa}/hidden-operands-shared-not-copied", p.pc, len(shared) == 2)
    return res


def lemma_unit(res):
    """L: frames + functional dependence => history independence (induction over the history)."""
    St = z3.DeclareSort("ModelState")
    In = z3.DeclareSort("Input")
    Out = z3.DeclareSort("Report")
    step_state = z3.Function("state_after", St, In, St)
    report = z3.Function("report", St, In, Out)
    s0, s = z3.Consts("s0 s", St)
    i, j = z3.Consts("i j", In)
    frame = z3.ForAll([s, i], step_state(s, i) == s)  # every analysis leaves the model state unchanged
    res.add("history/step", [frame, s == s0], step_state(s, i) == s0, label="L")
    res.add("history/report", [frame, s == s0], report(step_state(s, i), j) == report(s0, j), label="L")
    return res


def units(tier):
    from .c08 import compose_unit
    return [
        Unit("C18/inventory-of-process-global-state", inventory_unit, "S", []),
        Unit("C18/assign_tp_lt/frame/x86", compose_unit("x86"), "P", [(AS, "ArchSemantics.assign_tp_lt")]),
        Unit("C18/assign_tp_lt/frame/aarch64", compose_unit("aarch64"), "P", [(AS, "ArchSemantics.assign_tp_lt")]),
        Unit("C18/assign_src_dst/frame", src_dst_frame_unit, "P", [(ISA, "ISASemantics.assign_src_dst"), (ISA, "ISASemantics._apply_found_ISA_data")]),
        Unit("C18/lemma/frames-imply-history-independence", lemma_unit, "L", []),
        bounded_unit("C18/histories-vs-fresh-processes", "c18_history", [("osaca/osaca.py", "inspect"), (AS, "ArchSemantics.add_semantics"),
                     ("osaca/semantics/kernel_dg.py", "KernelDG.__init__"), ("osaca/frontend.py", "Frontend.full_analysis")], timeout=2400, decisive=True),
        bounded_unit("C18/composition-twice+model-snapshot", "c08_compose", [(AS, "ArchSemantics.assign_tp_lt")], timeout=2400),
    ]
