"""C13 - text report, machine-readable output and totals agree.

The formatting code (str.format with computed widths, column grouping by port names) is opaque to the prover, so the
decisive part is a bounded run-time contract on the real osaca.osaca.inspect:
B  the text report is parsed back (column positions from its header) and every port-pressure / CP / LCD cell, the
   summary row, the LCD list, X marks, the missing-data warning (count, no totals) vs --ignore-unknown, the arch warning
   vs --arch and the length warning are compared with the --yaml-out data and the analysis objects (bounded/c13_report.py).
P  Frontend._user_warnings_header / _user_warnings_footer / _get_flag_symbols / _missing_instruction_error:
   warning text present iff flag (strings are concrete, flags symbolic).
"""
import z3

from pyvc.engine import Engine
from pyvc.runner import Unit, REPO
from pyvc.sym import *  # noqa
from pyvc.bounded import bounded_unit

LEVEL = "exploration"
FE = "osaca/frontend.py"
OS = "osaca/osaca.py"
TRUSTED = ["bounded harness bounded/c13_report.py (independent table parser)", "pyvc for the small warning-text functions"]
ASSUMPTIONS = ["decisive part is bounded: corpus = shipped examples/test kernels + generated kernels x models x options (see harness docstring)",
               "report formatting (str.format) is outside the prover's subset"]
RULE = "corpus kernels x models x {--fixed, optimal} x {--ignore-unknown} x {--arch given or not}"


def warnings_unit(res):
    ex = Engine([REPO + "/" + FE])
    aw, lw, cw = z3.Bools("arch_warning length_warning lcd_warning")
    fe = lambda: SObj("Frontend")
    paths = ex.explore(lambda: ex.call_method("Frontend", "_user_warnings_header", fe(), [SBool(aw), SBool(lw)]))

    def post_h(v, p):
        if not isinstance(v, str):
            return False
        return z3.And(aw == ("No micro-architecture was specified" in v), lw == ("You are analyzing a large amount of instruction forms" in v))

    res.add_paths(paths, post_h, kind="header")
    paths = ex.explore(lambda: ex.call_method("Frontend", "_user_warnings_footer", fe(), [SBool(cw)]))
    res.add_paths(paths, lambda v, p: isinstance(v, str) and (cw == ("LCD analysis timed out" in v)), kind="footer")
    nb, tu, hl = z3.Bools("not_bound tp_unknown hidden_load")

    class Flags:
        def sym_contains(self, ex_, item):
            return {"not_bound": SBool(nb), "tp_unknown": SBool(tu), "hidden_load": SBool(hl)}[item]

        def sym_havoc(self, ex_, tag):
            return self

    ex.load(REPO + "/osaca/semantics/isa_semantics.py")
    paths = ex.explore(lambda: ex.call_method("Frontend", "_get_flag_symbols", fe(), [Flags()]))

    def post_f(v, p):
        if not isinstance(v, str):
            return False
        return z3.And(nb == ("*" in v), tu == ("X" in v), hl == ("P" in v), z3.BoolVal(len(v) >= 1))

    res.add_paths(paths, post_f, kind="flag-symbols")
    return res


def cells_unit(res):
    """Frontend._get_lcd_cp_ports: what is put into the CP and LCD cells of a line (the format template is opaque, its
    arguments are not): CP cell = float(latency_cp of the line) iff the line is on the critical path, LCD cell =
    float(latency) iff the line belongs to the longest LCD - also when that latency is 0."""
    ex = Engine([REPO + "/" + f for f in ("osaca/parser/instruction_form.py", FE)])
    cpv, lcdv = z3.Real("latency_cp"), z3.Real("dep_lat")
    for on_cp in (False, True):
        for on_lcd in (False, True):
            def run():
                node = ex.instantiate("InstructionForm", kw=dict(mnemonic="op", line_number=5))
                node.fields["latency_cp"] = SNum(cpv, False)
                other = ex.instantiate("InstructionForm", kw=dict(mnemonic="op", line_number=4))
                other.fields["latency_cp"] = Fraction(99)
                return ex.call_method("Frontend", "_get_lcd_cp_ports", SObj("Frontend"), [5, [other, node] if on_cp else None, SNum(lcdv, False) if on_lcd else None])

            paths = ex.explore(run, [])

            def post(v, p):
                if not isinstance(v, OpaqueStr) or len(getattr(v, "args", [])) != 5:
                    return False
                cp_cell, lcd_cell = v.args[1], v.args[3]
                g = []
                g.append(ex.eq_term(cp_cell, SNum(cpv, False)) if on_cp else z3.BoolVal(cp_cell == ""))
                g.append(ex.eq_term(lcd_cell, SNum(lcdv, False)) if on_lcd else z3.BoolVal(lcd_cell == ""))
                return z3.And(g)

            res.add_paths(paths, post, kind=f"cells[cp={on_cp},lcd={on_lcd}]")
    return res


def _inspect_unit():
    from .c11 import inspect_selection_unit
    return inspect_selection_unit


def units(tier):
    return [
        Unit("C13/frontend/warning-texts-and-marks", warnings_unit, "P", [(FE, "Frontend._user_warnings_header"), (FE, "Frontend._user_warnings_footer"),
                                                                        (FE, "Frontend._get_flag_symbols")], decisive=False),
        Unit("C13/frontend/_get_lcd_cp_ports", cells_unit, "P", [(FE, "Frontend._get_lcd_cp_ports"), (FE, "Frontend._get_node_by_lineno")], decisive=False),
        Unit("C13/inspect/warning-flags-and-report-wiring", _inspect_unit(), "P", [(OS, "inspect")], decisive=False),
        bounded_unit("C13/report-vs-dict", "c13_report", [(FE, "Frontend.combined_view"), (FE, "Frontend.full_analysis_dict"), (FE, "Frontend.loopcarried_dependencies"),
                     (FE, "Frontend._get_port_pressure"), (FE, "Frontend._get_lcd_cp_ports"), (OS, "inspect")], extra_args=["C13"], timeout=2400, decisive=True),
    ]
