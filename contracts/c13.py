"""C13 - text report, machine-readable output and totals agree.

The formatting code (str.format with computed widths, column grouping by port names) is opaque to the prover, so the
decisive part is a bounded run-time contract on the real osaca.osaca.inspect:
B  the text report is parsed back (column positions from its header) and every port-pressure / CP / LCD cell, the
   summary row, the LCD list, X marks, the missing-data warning (count, no totals) vs --ignore-unknown, the arch warning
   vs --arch and the length warning are compared with the --yaml-out data and the analysis objects (bounded/c13_report.py).
P  Frontend._user_warnings_header / _user_warnings_footer / _get_flag_symbols / _missing_instruction_error:
   warning text present iff flag (strings are concrete, flags symbolic).
"""
import os
import z3

from pyvc.engine import Engine
from pyvc.runner import Unit, REPO
from pyvc.sym import *  # noqa
from pyvc.bounded import bounded_unit

LEVEL = "exploration"
FE = "osaca/frontend.py"
OS = "osaca/osaca.py"
TRUSTED = ["bounded harness bounded/c13_report.py (independent table parser)",
           "pyvc symbolic semantics; opaque text: strings built from symbolic values keep their pieces / format arguments, everything depending on their characters (len, in, split, slices) is unconstrained; z3 5.1.0"]
ASSUMPTIONS = ["decisive part is bounded: corpus = shipped examples/test kernels + generated kernels x models x options (see harness docstring)",
               "character-level rendering (str.format widths, _get_port_pressure's cell text) is outside the prover's subset: the proved units state WHICH value is handed to WHICH cell/row (format arguments and helper arguments), the printed characters are compared by the bounded unit",
               "combined_view / loopcarried_dependencies: kernels of 2 lines, 0-3 dependencies (all numbers symbolic) - label Pb"]
RULE = "corpus kernels x models x {--fixed, optimal} x {--ignore-unknown} x {--arch given or not}"


def warnings_unit(res):
    ex = Engine([REPO + "/" + FE])
    aw, lw, cw = z3.Bools("arch_warning length_warning lcd_warning")
    fe = lambda: SObj("Frontend")
    paths = ex.explore(lambda: ex.call_method("Frontend", "_user_warnings_header", fe(), [SBool(aw), SBool(lw)]))

    def post_h(v, p):
        if not isinstance(v, str):
            return False
        return z3.And(aw == ("No micro-architecture was specified" in v), lw == ("You are analyzing a large amount of instruction forms" in v))

    res.add_paths(paths, post_h, kind="header")
    paths = ex.explore(lambda: ex.call_method("Frontend", "_user_warnings_footer", fe(), [SBool(cw)]))
    res.add_paths(paths, lambda v, p: isinstance(v, str) and (cw == ("LCD analysis timed out" in v)), kind="footer")
    nb, tu, hl = z3.Bools("not_bound tp_unknown hidden_load")

    class Flags:
        def sym_contains(self, ex_, item):
            return {"not_bound": SBool(nb), "tp_unknown": SBool(tu), "hidden_load": SBool(hl)}[item]

        def sym_havoc(self, ex_, tag):
            return self

    ex.load(REPO + "/osaca/semantics/isa_semantics.py")
    paths = ex.explore(lambda: ex.call_method("Frontend", "_get_flag_symbols", fe(), [Flags()]))

    def post_f(v, p):
        if not isinstance(v, str):
            return False
        return z3.And(nb == ("*" in v), tu == ("X" in v), hl == ("P" in v), z3.BoolVal(len(v) >= 1))

    res.add_paths(paths, post_f, kind="flag-symbols")
    return res


def cells_unit(res):
    """Frontend._get_lcd_cp_ports: what is put into the CP and LCD cells of a line (the format template is opaque, its
    arguments are not): CP cell = float(latency_cp of the line) iff the line is on the critical path, LCD cell =
    float(latency) iff the line belongs to the longest LCD - also when that latency is 0."""
    ex = Engine([REPO + "/" + f for f in ("osaca/parser/instruction_form.py", FE)])
    cpv, lcdv = z3.Real("latency_cp"), z3.Real("dep_lat")
    for on_cp in (False, True):
        for on_lcd in (False, True):
            def run():
                node = ex.instantiate("InstructionForm", kw=dict(mnemonic="op", line_number=5))
                node.fields["latency_cp"] = SNum(cpv, False)
                other = ex.instantiate("InstructionForm", kw=dict(mnemonic="op", line_number=4))
                other.fields["latency_cp"] = Fraction(99)
                return ex.call_method("Frontend", "_get_lcd_cp_ports", SObj("Frontend"), [5, [other, node] if on_cp else None, SNum(lcdv, False) if on_lcd else None])

            paths = ex.explore(run, [])

            def post(v, p):
                if isinstance(v, str):  # all arguments concrete (neither cell filled): the real string - it shows no number
                    return (not on_cp) and (not on_lcd) and not any(ch.isdigit() for ch in v)
                if not isinstance(v, OpaqueStr) or len(getattr(v, "args", [])) != 5:
                    return False
                cp_cell, lcd_cell = v.args[1], v.args[3]
                g = []
                g.append(ex.eq_term(cp_cell, SNum(cpv, False)) if on_cp else z3.BoolVal(cp_cell == ""))
                g.append(ex.eq_term(lcd_cell, SNum(lcdv, False)) if on_lcd else z3.BoolVal(lcd_cell == ""))
                return z3.And(g)

            res.add_paths(paths, post, kind=f"cells[cp={on_cp},lcd={on_lcd}]")
    return res


def dict_unit(res):
    """Pb: Frontend.full_analysis_dict (real code), 2-line kernels with symbolic numbers on a 3-port model: every per-line
    field of the machine-readable output is the corresponding attribute of the line (pressure per port NAME in port order,
    latency, CP / LCD contribution, throughput, latency without load, micro-ops of the selected alternative), the summary
    carries the per-port totals (get_throughput_sum; zeros if no line carries throughput), the sum of the CP
    contributions of the critical-path lines and the maximum LCD latency; warnings list = the flags given (+ unknown-instruction
    warning iff some line carries tp_unknown); target = upper-cased arch and the model's ports."""
    FE_FILES = ["osaca/parser/instruction_form.py", "osaca/semantics/isa_semantics.py", "osaca/semantics/arch_semantics.py", FE]
    ex = Engine([REPO + "/" + f for f in FE_FILES])
    ex.no_init |= {"Frontend"}
    ports = ["0", "1", "2D"]
    n = 2
    V = {nm: [z3.Real(f"{nm}{i}") for i in range(n)] for nm in ("lat", "tp", "lwl", "cp", "lcdprev")}
    PP = [[z3.Real(f"pp{i}_{j}") for j in range(len(ports))] for i in range(n)]
    TS = [z3.Real(f"total_{j}") for j in range(len(ports))]
    CPN = [z3.Real(f"cp_contribution_of_this_analysis{i}") for i in range(n)]
    aw, lw, cw = z3.Bools("arch_warning length_warning lcd_warning")
    L1 = z3.Real("lcd_latency")
    for totals_empty in (False, True):
        for unknown in (False, True):
            for cpset in ((), (0,), (0, 1)):
                def run():
                    kernel = []
                    for i in range(n):
                        f = ex.instantiate("InstructionForm", kw=dict(mnemonic="op", line_number=i + 3, line=f"op{i}  x", latency=SNum(V["lat"][i], False), throughput=SNum(V["tp"][i], False),
                                                                      port_pressure=[SNum(x, False) for x in PP[i]]))
                        f.fields.update(_flags=["tp_unknown"] if (unknown and i == 1) else [], _latency_wo_load=SNum(V["lwl"][i], False), latency_cp=SNum(V["cp"][i], False),
                                        latency_lcd=SNum(V["lcdprev"][i], False), _port_uops=[[1, "01"]] if i == 0 else {0: [[1, "0"]], 1: [[1, "1"]]})
                        kernel.append(f)
                    dep = {"4": {"root": kernel[1], "dependencies": [(kernel[1], SNum(L1, False))], "latency": SNum(L1, False)}}
                    ex.abstract["get_loopcarried_dependencies"] = lambda ex_, so, a, kw: dep
                    def get_critical_path(ex_, so, a, kw):
                        # contract of KernelDG.get_critical_path (C04): EVERY line's latency_cp is (re)written by the call -
                        # its contribution on the path, 0 off the path; what the lines carried before is stale
                        for i in range(n):
                            kernel[i].fields["latency_cp"] = SNum(CPN[i], False) if i in cpset else 0
                        return [kernel[i] for i in cpset]

                    ex.abstract["get_critical_path"] = get_critical_path
                    ex.abstract["get_throughput_sum"] = lambda ex_, so, a, kw: [] if totals_empty else [SNum(x, False) for x in TS]
                    ex.abstract["get_ports"] = lambda ex_, so, a, kw: ports
                    ex.abstract["_header_report_dict"] = lambda ex_, so, a, kw: {"hdr": 1}
                    ex.abstract["re.sub"] = lambda ex_, so, a, kw: ("normalised", a[2])
                    fe = SObj("Frontend", _machine_model=SObj("MachineModel"), _arch="zen2")
                    ex.extra["kernel"] = kernel
                    return ex.call_method("Frontend", "full_analysis_dict", fe, [kernel, SObj("KernelDG")], kw=dict(arch_warning=SBool(aw), length_warning=SBool(lw), lcd_warning=SBool(cw)))

                paths = ex.explore(run, [L1 >= 0])

                def post(v, p, totals_empty=totals_empty, unknown=unknown, cpset=cpset):
                    if not isinstance(v, dict):
                        return False
                    k = p.extra["kernel"]
                    g = []
                    rows = v["Kernel"]
                    if len(rows) != n:
                        return False
                    for i, r in enumerate(rows):
                        g += [real_term(r["Latency"]) == V["lat"][i], real_term(r["Throughput"]) == V["tp"][i], real_term(r["LatencyWithoutLoad"]) == V["lwl"][i],
                              real_term(r["LatencyCP"]) == (CPN[i] if i in cpset else 0), real_term(r["LatencyLCD"]) == (L1 if i == 1 else 0)]
                        g.append(z3.BoolVal(list(r["PortPressure"].keys()) == ports and r["LineNumber"] == i + 3 and r["Instruction"] == "op" and r["Flags"] == k[i].fields["_flags"]
                                            and r["Flags"] is not k[i].fields["_flags"]))
                        g += [real_term(r["PortPressure"][ports[j]]) == PP[i][j] for j in range(len(ports))]
                        want_u = [[1, "01"]] if i == 0 else [[1, "0"]]
                        g.append(z3.BoolVal([(u["Cycles"], u["Ports"]) for u in r["PortUops"]] == [(c, list(ps)) for c, ps in want_u]))
                    sm = v["Summary"]
                    tot = [z3.RealVal(0)] * len(ports) if totals_empty else TS  # nothing to sum up: a line of 0s
                    g.append(z3.BoolVal(list(sm["PortPressure"].keys()) == ports))
                    g += [real_term(sm["PortPressure"][ports[j]]) == tot[j] for j in range(len(ports))]
                    g.append(real_term(sm["CriticalPath"]) == sum([CPN[i] for i in cpset], z3.RealVal(0)))
                    g.append(real_term(sm["LCD"]) == L1)
                    w = v["Warnings"]
                    g.append(z3.BoolVal(("UnknownInstrWarning" in w) == unknown and set(w) <= {"ArchWarning", "LengthWarning", "LCDWarning", "UnknownInstrWarning"}))
                    return z3.And(g)

                def warn_post(p, v):
                    return v["Warnings"]

                n_ = res.add_paths(paths, post, kind=f"totals_empty={int(totals_empty)}/unknown={int(unknown)}/cp={len(cpset)}", label="Pb")
                for p in paths:
                    if p.outcome[0] == "ret" and isinstance(p.outcome[1], dict):
                        w = p.outcome[1]["Warnings"]
                        res.add("warnings-iff-flags", p.pc, z3.And(z3.BoolVal("ArchWarning" in w) == aw, z3.BoolVal("LengthWarning" in w) == lw, z3.BoolVal("LCDWarning" in w) == cw), label="Pb")
                        t = p.outcome[1]["Target"]
                        res.add("target", p.pc, t["Name"] == "ZEN2" and t["Ports"] == ports and t["Ports"] is not ports, label="Pb")
    return res


class _Cell(OpaqueStr):
    """Result of an abstracted cell-formatting helper: opaque text that remembers which helper produced it from which arguments."""
    def __init__(self, name, a, kw):
        OpaqueStr.__init__(self, "cell:" + name)
        self.name, self.a, self.kw = name, list(a), dict(kw)


def combined_view_unit(res):
    """Pb: Frontend.combined_view (real code), 2-line kernels on a 2-port model, all numbers symbolic; the cell-formatting helpers
    (_get_port_pressure, _get_lcd_cp_ports, _get_flag_symbols, header helpers) are abstract and remember their arguments (their
    text is the bounded unit's business).  Obligations: exactly one table row per kernel line (comment lines dropped iff show_cmnts
    is False), carrying the line's number, the pressure cell of THAT line's port_pressure, the CP/LCD cell of that line (critical-path
    list handed over iff the line is on the critical path; LCD latency = the line's latency within one loop-carried dependency of
    maximal latency, None for other lines) and the line's text; totals row iff (ignore_unknown or no line lacks data): pressure cell of
    get_throughput_sum (zeros if empty), sum of the CP contributions, maximal LCD latency; otherwise the missing-data warning with the
    number of lines lacking data and no totals."""
    FE_FILES = ["osaca/parser/instruction_form.py", "osaca/semantics/isa_semantics.py", "osaca/semantics/arch_semantics.py", FE]
    ex = Engine([REPO + "/" + f for f in FE_FILES])
    ex.no_init |= {"Frontend"}
    n = 2
    PP = [[z3.Real(f"pp{i}_{j}") for j in range(2)] for i in range(n)]
    CP = [z3.Real(f"cp{i}") for i in range(n)]
    TS = [z3.Real(f"total_{j}") for j in range(2)]
    A1, A2, B1 = z3.Reals("lcdA_1 lcdA_2 lcdB_1")
    LCDS = {"none": [], "one": [("3", [(0, A1)])], "two-overlapping": [("3-4", [(0, A1), (1, A2)]), ("4", [(1, B1)])]}
    for lcd_name, cycles in LCDS.items():
        for unknown in ((), (1,), (0, 1)):
            for cpset in ((), (1,), (0, 1)):
                for ignore_unknown, show_cmnts, comment, totals_empty in ((False, True, False, False), (True, True, False, False), (False, False, True, False),
                                                                          (True, True, True, True), (False, True, True, False)):
                    if comment and (unknown == (0, 1) or lcd_name == "two-overlapping"):
                        continue

                    def run():
                        kernel = []
                        for i in range(n):
                            cm = comment and i == 0
                            f = ex.instantiate("InstructionForm", kw=dict(mnemonic=None if cm else "op", line_number=i + 3, line=f"  # c{i} " if cm else f"  op{i}\tx ",
                                                                          latency=1, throughput=1, port_pressure=[SNum(x, False) for x in PP[i]]))
                            f.fields.update(_flags=["tp_unknown"] if i in unknown else [], latency_cp=SNum(CP[i], False), _port_uops=[[1, "01"]])
                            if cm:
                                f.fields.update(comment=f"c{i}")
                            kernel.append(f)
                        dep = {}
                        for key, mem in cycles:
                            lat = mem[0][1]
                            for _, l_ in mem[1:]:
                                lat = lat + l_
                            dep[key] = {"root": kernel[mem[0][0]], "dependencies": [(kernel[i], SNum(l_, False)) for i, l_ in mem], "latency": SNum(lat, False)}
                        cp_kernel = [kernel[i] for i in cpset]
                        for nm in ("_get_port_pressure", "_get_lcd_cp_ports", "_get_flag_symbols", "_missing_instruction_error"):
                            ex.abstract[nm] = (lambda nm: lambda ex_, so, a, kw: _Cell(nm, a, kw))(nm)
                        ex.abstract["_get_max_port_len"] = lambda ex_, so, a, kw: [4, 4]
                        ex.abstract["_get_separator_list"] = lambda ex_, so, a, kw: ["|", "|"]
                        ex.abstract["_get_port_number_line"] = lambda ex_, so, a, kw: "  0  |  1  "
                        ex.abstract["get_throughput_sum"] = lambda ex_, so, a, kw: [] if totals_empty else [SNum(x, False) for x in TS]
                        fe = SObj("Frontend", _machine_model=SObj("MachineModel"), _arch="zen2")
                        ex.extra["kernel"], ex.extra["cp_kernel"] = kernel, cp_kernel
                        return ex.call_method("Frontend", "combined_view", fe, [kernel, cp_kernel, dep], kw=dict(ignore_unknown=ignore_unknown, show_cmnts=show_cmnts))

                    paths = ex.explore(run, [x >= 0 for x in (A1, A2, B1)])

                    def post(v, p, cycles=cycles, unknown=unknown, cpset=cpset, ignore_unknown=ignore_unknown, show_cmnts=show_cmnts, comment=comment, totals_empty=totals_empty):
                        if not (isinstance(v, OpaqueStr) and hasattr(v, "parts")):
                            return False
                        k, cpk = p.extra["kernel"], p.extra["cp_kernel"]
                        parts = v.parts
                        cells_of = lambda x, nm: [c for c in getattr(x, "args", []) if isinstance(c, _Cell) and c.name == nm]
                        # a table row = a formatted piece showing a CP/LCD cell; the layout (template text, widths) is not constrained
                        rows = [x for x in parts if cells_of(x, "_get_lcd_cp_ports")]
                        if not any(hasattr(x, "args") or isinstance(x, _Cell) for x in parts):
                            raise Unsupported("report is not assembled from formatted pieces: contract not applicable")
                        shown = [i for i in range(n) if not (comment and i == 0 and not show_cmnts)]
                        if len(rows) != len(shown) or any(not isinstance(r.args[0], int) for r in rows) or sorted(r.args[0] for r in rows) != [i + 3 for i in shown]:
                            return False
                        sums = []
                        for key, mem in cycles:
                            t = mem[0][1]
                            for _, l_ in mem[1:]:
                                t = t + l_
                            sums.append(t)
                        mx = z3.RealVal(0)
                        if sums:
                            mx = sums[0]
                            for t in sums[1:]:
                                mx = z3.If(t > mx, t, mx)
                        g, lcd_cells = [], {}
                        for r in rows:
                            i = r.args[0] - 3
                            pcs, lcs, fls = (cells_of(r, nm) for nm in ("_get_port_pressure", "_get_lcd_cp_ports", "_get_flag_symbols"))
                            lc = lcs[0]
                            ok = (len(pcs) == 1 and pcs[0].a[0] is k[i].fields["_port_pressure"]
                                  and len(lcs) == 1 and lc.a[0] == i + 3
                                  and ((lc.a[1] is cpk) if i in cpset else (lc.a[1] is None))
                                  and (not fls if (comment and i == 0) else (len(fls) == 1 and fls[0].a[0] is k[i].fields["_flags"]))
                                  and (f"# c{i}" if (comment and i == 0) else f"op{i} x") in r.args)
                            g.append(z3.BoolVal(bool(ok)))
                            lcd_cells[i] = lc.a[2] if ok else None
                        if cycles:
                            alts = []
                            for (key, mem), t in zip(cycles, sums):
                                col = dict(mem)
                                c = [t == mx]
                                for i in shown:
                                    if i in col:
                                        c.append(real_term(lcd_cells[i]) == col[i] if lcd_cells[i] is not None else z3.BoolVal(False))
                                    else:
                                        c.append(z3.BoolVal(lcd_cells[i] is None))
                                alts.append(z3.And(c))
                            g.append(z3.Or(alts))
                        else:
                            g.append(z3.BoolVal(all(lcd_cells[i] is None for i in shown)))
                        # the totals = a formatted piece outside the table rows (header pieces are concrete text)
                        tot = [x for x in parts if hasattr(x, "args") and x not in rows and not isinstance(x, _Cell)]
                        warn = [x for x in parts if isinstance(x, _Cell) and x.name == "_missing_instruction_error"]
                        if unknown and not ignore_unknown:
                            g.append(z3.BoolVal(not tot and len(warn) == 1 and warn[0].a[0] == len(unknown)))
                        else:
                            if warn or len(tot) != 1:
                                return False
                            if len(tot[0].args) != 2:
                                return False
                            g += [real_term(tot[0].args[0]) == sum([CP[i] for i in cpset], z3.RealVal(0)), real_term(tot[0].args[1]) == mx]
                            tcells = [x for x in parts if isinstance(x, _Cell) and x.name == "_get_port_pressure"]
                            if len(tcells) != 1 or not isinstance(tcells[0].a[0], list) or len(tcells[0].a[0]) != 2:
                                return False
                            cell = tcells[0]
                            want = [z3.RealVal(0)] * 2 if totals_empty else TS
                            g += [real_term(cell.a[0][j]) == want[j] for j in range(2)]
                        return z3.And(g)

                    res.add_paths(paths, post, kind=f"lcd={lcd_name}/unknown={len(unknown)}/cp={len(cpset)}/ign={int(ignore_unknown)}/cmnts={int(show_cmnts)}/comment={int(comment)}", label="Pb")
    return res


def pressure_cells_unit(res):
    """Pb: Frontend._get_port_pressure (real code) on a 3-port model with symbolic pressures, every subset of used ports, with and
    without per-column separators: after a leading separator the line consists, in port order, of one cell per port followed by that column's separator; cell i is
    blank iff pressure i is 0 and port i is not among the used ports, otherwise it is a formatted piece whose value argument is
    pressure i (never another port's).  Width/precision of the rendering are opaque (bounded unit)."""
    import itertools, re as _re
    ex = Engine([REPO + "/" + FE])
    ex.no_init |= {"Frontend"}
    ports = ["0", "1", "2D"]
    P = [z3.Real(f"pressure{i}") for i in range(3)]
    marks = ["<a>", "<b>", "<c>"]
    for r_ in range(4):
        for used in itertools.combinations(ports, r_):
            for seps in (marks, "<s>"):
                def run(used=used, seps=seps):
                    ex.abstract["get_ports"] = lambda ex_, so, a, kw: list(ports)
                    fe = SObj("Frontend", _machine_model=SObj("MachineModel"))
                    return ex.call_method("Frontend", "_get_port_pressure", fe, [[SNum(x, False) for x in P], [5, 4, 6], list(used), list(seps) if isinstance(seps, list) else seps])

                paths = ex.explore(run, [x >= 0 for x in P])

                def post(v, p, used=used, seps=seps):
                    pieces = getattr(v, "parts", None)
                    if pieces is None:
                        if isinstance(v, str):
                            pieces = [v]
                        else:
                            raise Unsupported("line is not assembled from formatted pieces: contract not applicable")
                    sep = seps if isinstance(seps, list) else [seps] * 3
                    toks = []
                    for x in pieces:
                        if isinstance(x, str):
                            toks += _re.findall(r"<[abcs]>", x)
                        elif hasattr(x, "args"):
                            for a in x.args:
                                if isinstance(a, str):
                                    toks += _re.findall(r"<[abcs]>", a)
                                elif isinstance(a, SNum):
                                    hit = [i for i in range(3) if z3.eq(z3.simplify(real_term(a)), P[i])]
                                    toks.append(("v", hit[0]) if hit else ("v", None))
                    # expected: a leading separator (which one is layout, not constrained), then per port [value] separator
                    if not toks or toks[0] not in sep:
                        return False
                    rest, g = toks[1:], []
                    for i in range(3):
                        shown = bool(rest) and rest[0] == ("v", i)
                        if shown:
                            rest = rest[1:]
                        if not rest or rest[0] != sep[i]:
                            return False
                        rest = rest[1:]
                        g.append(z3.BoolVal(shown) == z3.Not(z3.And(P[i] == 0, z3.BoolVal(ports[i] not in used))))
                    return z3.And(g) if not rest else False

                res.add_paths(paths, post, kind=f"used={','.join(used) or '-'}/{'columns' if isinstance(seps, list) else 'single'}", label="Pb")
    return res


def detect_isa_unit(res):
    """P: BaseParser.detect_ISA (real code) with re.findall abstract (a list of arbitrary length per pattern): every pattern of both
    heuristic lists is searched exactly once in the file content; the result is 'x86' if the x86 patterns match more often than the
    AArch64 ones, 'aarch64' if less often, one of the two on a tie; nothing else is ever returned."""
    ex = Engine([REPO + "/osaca/parser/base_parser.py"])
    cnt = {}

    def run():
        calls = []

        def findall(ex_, so, a, kw):
            n = z3.Int(f"matches_{len(calls)}")
            ex_.assume(n >= 0)
            calls.append((a[0], a[1], n))
            return SymSeq(n, lambda i: "m")

        ex.abstract["re.findall"] = findall
        content = OpaqueStr("file content")
        ex.extra.update(calls=calls, content=content)
        return ex.call_method("BaseParser", "detect_ISA", None, [content])

    paths = ex.explore(run, [])

    def post(v, p):
        calls = p.extra["calls"]
        if any(c[1] is not p.extra["content"] for c in calls) or len(set(c[0] for c in calls)) != len(calls) or len(calls) < 2:
            return False
        x86 = sum([c[2] for c in calls if "%" in c[0]], z3.IntVal(0))   # AT&T register names carry the % sigil
        a64 = sum([c[2] for c in calls if "%" not in c[0]], z3.IntVal(0))
        if v not in ("x86", "aarch64"):
            return False
        return z3.And(z3.Implies(x86 > a64, z3.BoolVal(v == "x86")), z3.Implies(a64 > x86, z3.BoolVal(v == "aarch64")))

    res.add_paths(paths, post, kind="detect_ISA")
    return res


def full_analysis_unit(res):
    """P: Frontend.full_analysis (real code, all parts abstract and remembering their arguments): the report contains exactly
    once the header warnings built from (arch_warning, length_warning), the combined view of the SAME kernel with the critical path
    and the loop-carried dependencies of the SAME analysis object and the ignore-unknown option, the footer built from lcd_warning,
    and the LCD list of that analysis' dependencies - nothing is computed from another kernel, option or flag."""
    ex = Engine([REPO + "/" + FE])
    ex.no_init |= {"Frontend"}
    aw, lw, cw, ign = z3.Bools("arch_warning length_warning lcd_warning ignore_unknown")

    def run():
        cp, deps, kernel = [SObj("InstructionForm", tag="cp")], {"1": "dep"}, [SObj("InstructionForm", tag=0)]
        for nm in ("_header_report", "_user_warnings_header", "_symbol_map", "combined_view", "_user_warnings_footer", "loopcarried_dependencies"):
            ex.abstract[nm] = (lambda nm: lambda ex_, so, a, kw: _Cell(nm, a, kw))(nm)
        ex.abstract["get_critical_path"] = lambda ex_, so, a, kw: cp
        ex.abstract["get_loopcarried_dependencies"] = lambda ex_, so, a, kw: deps
        ex.extra.update(cp=cp, deps=deps, kernel=kernel)
        return ex.call_method("Frontend", "full_analysis", SObj("Frontend"), [kernel, SObj("KernelDG")],
                              kw=dict(ignore_unknown=SBool(ign), arch_warning=SBool(aw), length_warning=SBool(lw), lcd_warning=SBool(cw)))

    paths = ex.explore(run, [])

    def post(v, p):
        parts = [x for x in getattr(v, "parts", []) if isinstance(x, _Cell)]
        by = lambda nm: [x for x in parts if x.name == nm]
        one = {nm: by(nm) for nm in ("_user_warnings_header", "combined_view", "_user_warnings_footer", "loopcarried_dependencies")}
        if any(len(x) != 1 for x in one.values()):
            return False
        arg = lambda c, i, name: c.a[i] if len(c.a) > i else c.kw.get(name)
        h, cv, f, ll = (one[k][0] for k in ("_user_warnings_header", "combined_view", "_user_warnings_footer", "loopcarried_dependencies"))
        if arg(cv, 0, "kernel") is not p.extra["kernel"] or arg(cv, 1, "cp_kernel") is not p.extra["cp"] or arg(cv, 2, "dep_dict") is not p.extra["deps"] or arg(ll, 0, "dep_dict") is not p.extra["deps"]:
            return False
        bt = lambda x: bool_term(False if x is None else x)
        return z3.And(bt(arg(h, 0, "arch_warning")) == aw, bt(arg(h, 1, "length_warning")) == lw, bt(arg(f, 0, "lcd_warning")) == cw, bt(arg(cv, 3, "ignore_unknown")) == ign)

    res.add_paths(paths, post, kind="full_analysis/assembly")
    return res


def run_dispatch_unit(res):
    """P: osaca.run and osaca.import_data (real code; argparse namespace as a ghost object with symbolic option values): exactly one
    of the four activities runs - the database check iff --db-check (with the arch, verbose iff -v given at least once, the
    internet option and the output stream), else the import iff an import was requested (benchmark kind, arch, the file's name and
    the output stream unchanged; 'ibench' / 'asmbench' in any letter case select the reader, anything else is refused), else the
    marker insertion iff asked for, else the analysis with the same arguments and output stream."""
    ex = Engine([REPO + "/" + OS])
    check_db, has_import, marker, inet = z3.Bools("check_db import_requested insert_marker internet_check")
    verbose = z3.Int("verbose_count")
    for kind in ("ibench", "IBench", "asmbench", "ASMBENCH", "other"):
        def run(kind=kind):
            log = []
            fobj = SObj("File", name="the/file.s")

            class Args:
                def sym_getattr(self, ex_, attr):
                    return {"check_db": SBool(check_db), "verbose": SNum(verbose, True), "arch": "zen2", "internet_check": SBool(inet),
                            "import_data": kind, "file": fobj, "insert_marker": SBool(marker)}[attr]

                def sym_contains(self, ex_, item):
                    if item == "import_data":
                        return SBool(has_import)
                    raise Unsupported("membership test on the argument namespace: " + str(item))

            args, out = Args(), SObj("Stream")
            for nm in ("sanity_check", "import_benchmark_output", "insert_byte_marker", "inspect"):
                ex.abstract[nm] = (lambda nm: lambda ex_, so, a, kw: log.append((nm, list(a), dict(kw))))(nm)
            ex.extra.update(log=log, args=args, out=out)
            return ex.call_function("run", [args], kw=dict(output_file=out))

        paths = ex.explore(run, [verbose >= 0])

        def post(v, p, kind=kind):
            log, args, out = p.extra["log"], p.extra["args"], p.extra["out"]
            if len(log) != 1:
                return False
            nm, a, kw = log[0]
            allargs = lambda names: dict(zip(names, a), **kw)
            if nm == "sanity_check":
                g = allargs(["arch", "verbose", "internet_check", "output_file"])
                ok = g.get("arch") == "zen2" and g.get("output_file") is out
                return z3.And(check_db, z3.BoolVal(bool(ok)), bool_term(g.get("verbose", False)) == (verbose > 0), bool_term(g.get("internet_check", False)) == inet)
            if nm == "import_benchmark_output":
                g = allargs(["arch", "bench_type", "filepath", "output"])
                ok = g.get("arch") == "zen2" and g.get("filepath") == "the/file.s" and g.get("output") is out and g.get("bench_type") == kind.lower() and kind != "other"
                return z3.And(z3.Not(check_db), has_import, z3.BoolVal(bool(ok)))
            if nm == "insert_byte_marker":
                return z3.And(z3.Not(check_db), z3.Not(has_import), marker, z3.BoolVal(a[0] is args))
            g = allargs(["args", "output_file"])
            return z3.And(z3.Not(check_db), z3.Not(has_import), z3.Not(marker), z3.BoolVal(g.get("args") is args and g.get("output_file") is out))

        res.add_paths(paths, post, exc_ok=lambda p, kind=kind: kind == "other" and p.outcome[1] == "NotImplementedError", kind=f"run/import-kind={kind}")
    return res


def arch_table_unit(res):
    """P (finite, exhaustive): MachineModel.get_isa_for_arch executed for every architecture the command line accepts
    (SUPPORTED_ARCHS, any letter case): the ISA it names is the one the model file of that architecture declares ('isa:' header of
    osaca/data/<arch>.yml; emptied files are skipped), and each default architecture (DEFAULT_ARCHS) is a supported architecture of
    exactly the ISA it is the default for - so 'the default model of the detected ISA' is a model of that ISA."""
    import re as _re
    ex = Engine([REPO + "/osaca/semantics/hw_model.py", REPO + "/" + OS])
    supported = ex.eval(ex.consts["SUPPORTED_ARCHS"], {}, None)
    defaults = ex.eval(ex.consts["DEFAULT_ARCHS"], {}, None)
    res.add("tables-found", [], isinstance(supported, list) and len(supported) >= 10 and isinstance(defaults, dict) and set(defaults) == {"x86", "aarch64"})
    for arch in supported:
        for spelled in (arch, arch.lower()):
            paths = ex.explore(lambda spelled=spelled: ex.call_method("MachineModel", "get_isa_for_arch", None, [spelled]), [])
            path = os.path.join(REPO, "osaca", "data", arch.lower() + ".yml")
            txt = open(path).read() if os.path.exists(path) else ""
            m = _re.search(r"^isa:\s*(\S+)", txt, _re.M)
            declared = m.group(1).strip("'\"").lower() if m else None
            res.add_paths(paths, lambda v, p, declared=declared: v in ("x86", "aarch64") and (declared is None or v == declared), kind=f"isa-of/{spelled}")
    for isa, arch in (defaults.items() if isinstance(defaults, dict) else []):
        paths = ex.explore(lambda arch=arch: ex.call_method("MachineModel", "get_isa_for_arch", None, [arch]), [])
        res.add_paths(paths, lambda v, p, isa=isa, arch=arch: v == isa and arch in supported, kind=f"default-of/{isa}")
    return res


def lcd_list_unit(res):
    """Pb: Frontend.loopcarried_dependencies (the LCD list of the text report) for 0-3 loop-carried dependencies with symbolic
    latencies: exactly one row per dependency (in any order), each showing the first member's line number, the
    dependency's latency and the line numbers of ALL members in order (the format template itself is opaque,
    its arguments are not)."""
    ex = Engine([REPO + "/" + f for f in ("osaca/parser/instruction_form.py", FE)])
    lat = [z3.Real(f"lcd_latency{i}") for i in range(3)]
    shapes = [[], [("2-4", [2, 4])], [("2-4", [2, 4]), ("10-12-13", [10, 12, 13])], [("3", [3]), ("2-4", [2, 4]), ("10-12", [10, 12])]]
    for deps in shapes:
        def run(deps=deps):
            nodes = {}
            mk = lambda n: nodes.setdefault(n, ex.instantiate("InstructionForm", kw=dict(mnemonic="op", line_number=n, line=f"  op{n}  ")))
            dd = {}
            for i, (key, members) in enumerate(deps):
                dd[key] = {"root": mk(members[0]), "dependencies": [(mk(m), 1) for m in members], "latency": SNum(lat[i], False)}
            return ex.call_method("Frontend", "loopcarried_dependencies", SObj("Frontend"), [dd])

        paths = ex.explore(run, [])

        def post(v, p, deps=deps):
            rows = [x for x in getattr(v, "parts", []) if isinstance(x, OpaqueStr) and hasattr(x, "args")] if isinstance(v, OpaqueStr) else []
            if not deps:
                return isinstance(v, str) or not rows
            if isinstance(v, OpaqueStr) and not rows:
                raise Unsupported("report is not assembled from formatted pieces: contract not applicable")
            # every dependency is shown by exactly one row (the statement fixes neither order nor layout): the rows' member
            # lists are a permutation of the dependencies' member lists, each row carries its own dependency's latency
            lists = [[x for x in r.args if isinstance(x, list)] for r in rows]
            if len(rows) != len(deps) or any(len(l_) != 1 for l_ in lists):
                return False
            shown = [l_[0] for l_ in lists]
            if sorted(map(tuple, shown)) != sorted(tuple(m) for _, m in deps):
                return False
            g = []
            for i, (key, members) in enumerate(deps):
                a = rows[shown.index(members)].args
                nums = [x for x in a if is_num(x) and not isinstance(x, (bool, int))]
                g.append(z3.Or([real_term(x) == lat[i] for x in nums]) if nums else z3.BoolVal(False))
            return z3.And(g)

        res.add_paths(paths, post, kind=f"{len(deps)}-dependencies", label="Pb")
    return res


def _inspect_unit():
    from .c11 import inspect_selection_unit
    return inspect_selection_unit


def units(tier):
    return [
        Unit("C13/frontend/warning-texts-and-marks", warnings_unit, "P", [(FE, "Frontend._user_warnings_header"), (FE, "Frontend._user_warnings_footer"),
                                                                        (FE, "Frontend._get_flag_symbols")], decisive=False),
        Unit("C13/frontend/_get_lcd_cp_ports", cells_unit, "P", [(FE, "Frontend._get_lcd_cp_ports"), (FE, "Frontend._get_node_by_lineno")], decisive=False),
        Unit("C13/full_analysis_dict(fields = line attributes, summary = totals)", dict_unit, "Pb", [(FE, "Frontend.full_analysis_dict"), (FE, "Frontend._selected_port_uops")], decisive=False),
        Unit("C13/combined_view(rows, totals, missing-data branch; cell helpers abstract)", combined_view_unit, "Pb", [(FE, "Frontend.combined_view"), (FE, "Frontend._is_comment")], decisive=False),
        Unit("C13/_get_port_pressure(cell i shows pressure i or is blank)", pressure_cells_unit, "Pb", [(FE, "Frontend._get_port_pressure")], decisive=False),
        Unit("C13/detect_ISA(majority of register-name matches)", detect_isa_unit, "P", [("osaca/parser/base_parser.py", "BaseParser.detect_ISA")], decisive=False),
        Unit("C13/full_analysis(assembly of the text report)", full_analysis_unit, "P", [(FE, "Frontend.full_analysis")], decisive=False),
        Unit("C13/run(dispatch of the command line)", run_dispatch_unit, "P", [(OS, "run"), (OS, "import_data")], decisive=False),
        Unit("C13/architecture-table(get_isa_for_arch, defaults)", arch_table_unit, "P", [("osaca/semantics/hw_model.py", "MachineModel.get_isa_for_arch")], decisive=False),
        Unit("C13/loopcarried_dependencies(LCD list rows)", lcd_list_unit, "Pb", [(FE, "Frontend.loopcarried_dependencies")], decisive=False),
        Unit("C13/inspect/warning-flags-and-report-wiring", _inspect_unit(), "P", [(OS, "inspect")], decisive=False),
        bounded_unit("C13/report-vs-dict", "c13_report", [(FE, "Frontend.combined_view"), (FE, "Frontend.full_analysis_dict"), (FE, "Frontend.loopcarried_dependencies"),
                     (FE, "Frontend._get_port_pressure"), (FE, "Frontend._get_lcd_cp_ports"), (OS, "inspect")], extra_args=["C13"], timeout=(7000 if tier == "thorough" else 2400), decisive=True),
    ]
