"""C04 - critical path is the longest latency-weighted dependency chain.

Pb KernelDG.get_critical_path on every dependency-graph STRUCTURE with <= 3 instructions (each with or without a
   separate load node, every subset of forward edges), all latencies symbolic (>= 0).  networkx is replaced by its
   assumed contract, given as an executable specification on the concrete structure (A): dag_longest_path returns a
   path maximising the sum of edge weights, [v] for an edgeless graph; is_directed_acyclic_graph is exact.
   Postcondition (from the statement): sum of per-line CP latencies = max over chains of (edge latencies, a leading
   load stage counted once) + execution latency of the last instruction; returned lines are consecutive along a chain.
B  real pipeline vs. independent longest-chain computation on generated kernels (bounded/dg_oracle.py C04).
The unbounded statement needs a ghost model of graphs and of networkx's maximality contract (quantified over all
paths); z3 does not refute/discharge it reliably, so the structural bound is stated instead (label Pb).
"""
import itertools
import z3

from pyvc.engine import Engine
from pyvc.runner import Unit, REPO
from pyvc.sym import *  # noqa
from pyvc.bounded import bounded_unit

LEVEL = "proof"
KDG = "osaca/semantics/kernel_dg.py"
FE = "osaca/frontend.py"
TRUSTED = ["pyvc symbolic semantics; z3 5.1.0", "A: networkx dag_longest_path / is_directed_acyclic_graph / DiGraph.copy/add_edge / utils.pairwise as specified in this file"]
ASSUMPTIONS = [
    "get_critical_path for ANY kernel length: the library's dag_longest_path enters as an arbitrary path of the handed-over graph (A: it is one of maximal weight); maximality over all chains is checked on structures (next line) and by the bounded oracle",
    "structural bound of the Pb units: <= 3 instructions (4 in the thorough tier), every subset of forward edges, optional separate load node per instruction; all weights symbolic >= 0 (label Pb, reported as bounded)",
    "the dependency graph is the one create_DG builds (C03): edges point forward, a load node l+0.1 has the single edge to l",
    "latencies are rationals (IEEE rounding of float sums not modelled)",
]


class Graph:
    """executable specification of the networkx API used by get_critical_path, on a concrete structure"""

    def __init__(self, nodes, edges):
        self.nodes_, self.edges_ = list(nodes), dict(edges)

    def sym_havoc(self, ex, tag):
        return self

    def sym_method(self, ex, name, args, kw):
        if name == "copy":
            return Graph(self.nodes_, self.edges_)
        if name == "add_edge":
            a, b = args
            for n in (a, b):
                if n not in self.nodes_:
                    self.nodes_.append(n)
            self.edges_[(a, b)] = {"latency": kw["latency"]}
            return None
        if name == "out_degree":
            return sum(1 for (a, b) in self.edges_ if a == args[0])
        if name == "in_degree":
            return sum(1 for (a, b) in self.edges_ if b == args[0])
        if name == "has_edge":
            return (args[0], args[1]) in self.edges_
        if name == "has_node":
            return args[0] in self.nodes_
        if name == "successors":
            return [b for (a, b) in self.edges_ if a == args[0]]
        if name == "predecessors":
            return [a for (a, b) in self.edges_ if b == args[0]]
        raise Unsupported("DiGraph." + name)

    def sym_getattr(self, ex, attr):
        if attr == "edges":
            return Edges(self)
        return PyMethod(self, attr)

    def paths(self):
        succ = {}
        for (a, b) in self.edges_:
            succ.setdefault(a, []).append(b)
        out = []

        def walk(p):
            out.append(list(p))
            for n in succ.get(p[-1], []):
                walk(p + [n])

        for n in self.nodes_:
            walk([n])
        return out


class Edges:
    def __init__(self, g):
        self.g = g

    def sym_getitem(self, ex, k):
        k = tuple(k)
        if k not in self.g.edges_:
            raise PyRaise("KeyError", f"The edge {k} is not in the graph.")
        return self.g.edges_[k]


def longest_path_spec(ex, so, args, kw):
    """A: some path with maximal weight sum (ties: any; the choice is made by forking over all candidates)"""
    g = args[0]
    paths = g.paths()
    if not paths:
        return []

    def weight(p):
        w = Fraction(0)
        for a, b in zip(p, p[1:]):
            w = ex.binop(__import__("ast").Add(), w, g.edges_[(a, b)]["latency"])
        return w

    ws = [real_term(weight(p)) for p in paths]
    from pyvc.engine import PathEnd
    for i, p in enumerate(paths):
        if ex.choice():  # the library may return ANY maximal path
            ex.assume(z3.And([ws[i] >= w for w in ws]))
            return list(p)
    raise PathEnd()


def cp_unit(nins):
    def unit(res):
        ex = Engine([REPO + "/" + f for f in ("osaca/parser/instruction_form.py", KDG)])
        ex.choice_among_ties = lambda: True
        tie_state = {}

        def choose():
            # nondeterministic choice among maximal paths: either take this one or keep looking
            return ex.choice()

        ex.choice_among_ties = choose
        ex.abstract["nx.algorithms.dag.is_directed_acyclic_graph"] = lambda ex_, so, a, kw: True
        ex.abstract["nx.algorithms.dag.dag_longest_path"] = longest_path_spec
        ex.abstract["nx.utils.pairwise"] = lambda ex_, so, a, kw: list(zip(a[0], a[0][1:]))
        pairs = [(i, j) for i in range(nins) for j in range(i + 1, nins)]
        for loads, twice in itertools.product(itertools.product((False, True), repeat=nins), (False, True)):
            if twice and nins >= 3:
                continue
            for emask in itertools.product((False, True), repeat=len(pairs)):
                lat = [z3.Real(f"lat{i}") for i in range(nins)]
                lwl = [z3.Real(f"lwl{i}") for i in range(nins)]
                ew = {p: z3.Real(f"w{p[0]}{p[1]}") for p, m in zip(pairs, emask) if m}
                pre = [x >= 0 for x in lat + lwl + list(ew.values())] + [lat[i] >= lwl[i] for i in range(nins)]
                pre += [lat[i] == lwl[i] for i in range(nins) if not loads[i]]

                def run():
                    kernel = []
                    for i in range(nins):
                        f = ex.instantiate("InstructionForm", kw=dict(mnemonic="op", line_number=i + 1))
                        f.fields["_latency"] = SNum(lat[i], False)
                        f.fields["_latency_wo_load"] = SNum(lwl[i], False)
                        f.fields["latency_cp"] = 0
                        kernel.append(f)
                    nodes = [i + 1 for i in range(nins)]
                    edges = {}
                    for i in range(nins):
                        if loads[i]:
                            nodes.append(Fraction(10 * (i + 1) + 1, 10))
                            edges[(Fraction(10 * (i + 1) + 1, 10), i + 1)] = {"latency": SNum(lat[i] - lwl[i], False)}
                    for (a, b), w in ew.items():
                        edges[(a + 1, b + 1)] = {"latency": SNum(w, False)}
                    selfo = SObj("KernelDG", kernel=kernel, dg=Graph(nodes, edges))
                    ex.extra["kernel"] = kernel
                    if twice:  # the report generators ask twice (text report, then --yaml-out / --export-graph)
                        ex.call_method("KernelDG", "get_critical_path", selfo, [])
                    return ex.call_method("KernelDG", "get_critical_path", selfo, [])

                paths = ex.explore(run, pre)

                def chains():
                    """all chains: (list of instruction indices, accumulated edge weight incl. optional leading load stage)"""
                    out = []

                    def walk(p, w):
                        out.append((list(p), w))
                        for (a, b), ww in ew.items():
                            if a == p[-1]:
                                walk(p + [b], w + ww)

                    for i in range(nins):
                        walk([i], z3.RealVal(0))
                        if loads[i]:
                            walk([i], lat[i] - lwl[i])
                    return out

                def post(v, p):
                    if not isinstance(v, list):
                        return False
                    if not v:  # admissible only when every chain has length 0 (nothing to mark)
                        return z3.And([w + lwl[c[-1]] == 0 for c, w in chains()])
                    k = p.extra["kernel"]
                    idx = [k.index(x) for x in v]
                    total = z3.RealVal(0)
                    for x in v:
                        total = total + real_term(x.fields["latency_cp"])
                    ch = chains()
                    lens = [w + lwl[c[-1]] for c, w in ch]
                    g = [z3.And([total >= l for l in lens]), z3.Or([total == l for l in lens])]
                    # marked lines are consecutive along a dependency chain
                    g.append(z3.BoolVal(all((a, b) in ew for a, b in zip(idx, idx[1:])) and idx == sorted(idx)))
                    # never smaller than any single instruction's latency
                    g += [total >= lat[i] for i in range(nins)]
                    return z3.And(g)

                def conc(m, p):
                    fr = lambda t: str(Fraction(m.eval(t, model_completion=True).numerator_as_long(), m.eval(t, model_completion=True).denominator_as_long()))
                    return dict(replay="c04_cp", key="cp", args=dict(twice=twice, lat=[fr(x) for x in lat], lwl=[fr(x) for x in lwl], loads=list(loads),
                                                                    edges=[[a, b, fr(w)] for (a, b), w in ew.items()]))

                res.add_paths(paths, post, concretize=conc, kind=f"n{nins}/loads{''.join('1' if x else '0' for x in loads)}/edges{''.join('1' if x else '0' for x in emask)}{'/second-call' if twice else ''}", label="Pb")
        return res

    return unit


def units(tier):
    from .c13 import combined_view_unit, dict_unit
    FE = "osaca/frontend.py"
    return [
        Unit("C04/combined_view(CP cells and CP total = sum of the critical-path lines' contributions)", combined_view_unit, "Pb", [(FE, "Frontend.combined_view")], decisive=False),
        Unit("C04/full_analysis_dict(LatencyCP per line, CriticalPath total)", dict_unit, "Pb", [(FE, "Frontend.full_analysis_dict")], decisive=False),
        Unit("C04/get_critical_path(any kernel length, any library path)", cp_any_unit, "P", [(KDG, "KernelDG.get_critical_path")], timeout=1200),
        Unit("C04/get_critical_path/1-instruction", cp_unit(1), "Pb", [(KDG, "KernelDG.get_critical_path")]),
        Unit("C04/get_critical_path/2-instructions", cp_unit(2), "Pb", [(KDG, "KernelDG.get_critical_path")]),
        Unit("C04/get_critical_path/3-instructions", cp_unit(3), "Pb", [(KDG, "KernelDG.get_critical_path")], timeout=1200),
    ] + ([Unit("C04/get_critical_path/4-instructions", cp_unit(4), "Pb", [(KDG, "KernelDG.get_critical_path")], timeout=6000, tier="thorough")] if tier == "thorough" else []) + [
        bounded_unit("C04/pipeline-vs-longest-chain-oracle", "dg_oracle", [(KDG, "KernelDG.get_critical_path"), (KDG, "KernelDG.create_DG")],
                     extra_args=["C04"], timeout=1500),
    ]


# ------------------------------------------------------------------ unbounded kernels (P): what the code adds to the library call
def cp_any_unit(res):
    """P: KernelDG.get_critical_path (real code) for kernels of ANY length and ANY path returned by the library:
    (1) the graph handed to dag_longest_path is the dependency graph plus, for EVERY kernel line, an edge line -> sink whose
        weight is the line's execution latency (latency without load stage if there is one) - so the weight of a path that
        ends in the sink is 'edge latencies + execution latency of the last instruction';
    (2) whatever path P the library returns (A: a path of that graph of maximal weight), after the call every kernel line l
        carries latency_cp = sum of the weights of the path edges leaving a node of l (load stage l.1 and l itself) - 0 for
        lines off the path -, for ANY previous latency_cp (second call, other analyses of the same instruction forms);
    (3) the lines returned are exactly the kernel lines, in order, whose number is on the path (after dropping the sink and
        adding the instruction of a trailing load node);
    (L) with distinct line numbers the per-line values of the marked lines add up to the weight of the path."""
    ex = Engine([REPO + "/" + f for f in ("osaca/parser/instruction_form.py", KDG)])
    fn, _ = ex.find_method("KernelDG", "get_critical_path")
    ex.index_loops(fn)
    I_, R_, B_ = z3.IntSort(), z3.RealSort(), z3.BoolSort()
    N, M = z3.Ints("klen path_len")
    lines = z3.Function("line_no", I_, I_)
    lat = z3.Function("lat", I_, R_)
    lwl = z3.Function("lwl", I_, R_)
    has_lwl = z3.Function("has_lwl", I_, B_)
    pnode = z3.Function("lib_path_node", I_, R_)  # the library's path; the sink is encoded as node -1
    w = z3.Function("edge_weight", R_, R_, R_)
    SINK = z3.RealVal(-1)
    cp0 = z3.Array("latency_cp_before", I_, R_)  # per line number
    heap = {"cp": cp0}
    ins = Schema("cpins", ["InstructionForm"], {"line_number": ("int",), "latency": ("real",), "latency_wo_load": ("custom", None)})
    ins.fn["line_number"] = lines
    ins.fn["latency"] = lat
    ins.fn["latency_wo_load"] = lambda ex_, ref: SNum(lwl(ref.t), False) if ex_.branch(has_lwl(ref.t)) else None
    st = {}

    class NodeVal:
        def __init__(self, t):
            self.t = t

        def sym_eq(self, ex_, other):
            if isinstance(other, str):
                return SBool(self.t == SINK) if other == "sink" else False
            if isinstance(other, NodeVal):
                return SBool(self.t == other.t)
            return SBool(self.t == real_term(other))

        def sym_int(self, ex_, base):
            return SNum(z3.ToInt(self.t), True)

    def nv(x):
        if isinstance(x, NodeVal):
            return x.t
        if isinstance(x, str):
            return SINK if x == "sink" else None
        return real_term(x)

    class PathList:
        def __init__(self, seq):
            self.seq = seq

        def sym_truthy(self, ex_):
            return ex_.branch(self.seq.length > 0)

        def sym_getitem(self, ex_, i):
            return ex_.getitem(self.seq, i)

        def sym_getslice(self, ex_, lo, hi, step):
            if lo is None and hi == -1 and step is None:
                return PathList(SymSeq(self.seq.length - 1, self.seq.at))
            raise Unsupported("path slice")

        def sym_method(self, ex_, name, args, kw):
            if name == "append":
                old, v = self.seq, NodeVal(nv(args[0]))
                self.seq = SymSeq(old.length + 1, lambda i, old=old, v=v: NodeVal(z3.If(i < old.length, old.at(i).t, v.t)))
                return None
            raise Unsupported("path." + name)

        def sym_binop(self, ex_, op, other, reflected):
            if isinstance(other, list) and len(other) == 1 and not reflected:
                old, v = self.seq, NodeVal(nv(other[0]))
                return PathList(SymSeq(old.length + 1, lambda i, old=old, v=v: NodeVal(z3.If(i < old.length, old.at(i).t, v.t))))
            raise Unsupported("path operator")

        def sym_contains(self, ex_, item):
            q = z3.FreshInt("q")
            return SBool(z3.Exists([q], z3.And(0 <= q, q < self.seq.length, self.seq.at(q).t == nv(item))))

    class EdgesG:
        def sym_getitem(self, ex_, k):
            a, b = k
            return {"latency": SNum(w(nv(a), nv(b)), False)}

    class DG:
        def __init__(self, copy=False):
            self.copy = copy

        def sym_havoc(self, ex_, tag):
            return self

        def sym_method(self, ex_, name, args, kw):
            if name == "copy":
                return DG(True)
            if name == "add_edge" and self.copy:
                st["added"] = st.get("added", 0) + 1
                i = st["k"]
                ex_.oblige("sink-edge/line->sink-with-execution-latency", z3.And(real_term(args[0]) == z3.ToReal(lines(i)), z3.BoolVal(args[1] == "sink"),
                                                                              real_term(kw["latency"]) == z3.If(has_lwl(i), lwl(i), lat(i))))
                return None
            raise Unsupported("DiGraph." + name)

        def sym_getattr(self, ex_, attr):
            return EdgesG() if attr == "edges" else PyMethod(self, attr)

    class KLine:  # kernel line i: attributes by functions, latency_cp in the ghost heap (by line number)
        def __init__(self, i):
            self.i = i

        def sym_getattr(self, ex_, attr):
            if attr == "line_number":
                return SNum(lines(self.i), True)
            if attr == "latency":
                return SNum(lat(self.i), False)
            if attr == "latency_wo_load":
                return SNum(lwl(self.i), False) if ex_.branch(has_lwl(self.i)) else None
            if attr == "latency_cp":
                return SNum(z3.Select(heap["cp"], lines(self.i)), False)
            raise Unsupported("line." + attr)

        def sym_setattr(self, ex_, attr, v):
            if attr != "latency_cp":
                raise Unsupported("line." + attr)
            heap["cp"] = z3.Store(heap["cp"], lines(self.i), real_term(v))

    class NodeObj:  # the kernel line with a given number: latency_cp lives in the ghost heap
        def __init__(self, line):
            self.line = line

        def sym_getattr(self, ex_, attr):
            if attr == "latency_cp":
                return SNum(z3.Select(heap["cp"], self.line), False)
            raise Unsupported("node." + attr)

        def sym_setattr(self, ex_, attr, v):
            if attr != "latency_cp":
                raise Unsupported("node." + attr)
            heap["cp"] = z3.Store(heap["cp"], self.line, real_term(v))

    # ghost: P' = the path the two loops run over; PS(l, k) = sum of w(P'_j, P'_{j+1}) over j < k with int(P'_j) = l
    PS = z3.Function("partial_sum", I_, I_, R_)

    class SinkLoop:
        def on_body_start(self, ex_, env, k):
            st["k"], st["added"] = k, 0

        def on_body_end(self, ex_, env, k):
            ex_.oblige("sink-edge/one-per-kernel-line", st["added"] == 1)

    class ResetLoop:  # for instruction_form in self.kernel: instruction_form.latency_cp = 0
        def havoc(self, ex_, env):
            heap["cp"] = z3.FreshConst(z3.ArraySort(I_, R_), "cp_reset")

    def onpath(seq, ln, upto):
        q = z3.FreshInt("q")
        return z3.Exists([q], z3.And(0 <= q, q < upto, z3.ToInt(seq.at(q).t) == ln))

    def iskline(ln, upto):
        q = z3.FreshInt("q")
        return z3.Exists([q], z3.And(0 <= q, q < upto, lines(q) == ln))

    def reset_inv(ex_, env, k):
        ln = z3.Int("ln")
        return z3.ForAll([ln], z3.Select(heap["cp"], ln) == z3.If(iskline(ln, k), z3.RealVal(0), z3.Select(cp0, ln)))

    class AccLoop:
        def sym_for(self, ex_, s, it, env, cls):
            st["P1"] = st["pairs_of"]  # the path the accumulation runs over (sink appended by the code)
            ex_.loop_hooks[("get_critical_path", 2)] = AccBody()
            try:
                return ex_.sym_for(s, it, False, 0, env, cls)
            finally:
                ex_.loop_hooks[("get_critical_path", 2)] = self

    class AccBody:
        def havoc(self, ex_, env):
            heap["cp"] = z3.FreshConst(z3.ArraySort(I_, R_), "cp_acc")

        def on_body_start(self, ex_, env, k):
            P1, ln = st["P1"], z3.Int("ln")
            nxt = z3.If(k + 1 < P1.length, P1.at(k + 1).t, SINK)
            # instance of the recursive definition of PS at this position (for every line)
            ex_.assume(z3.ForAll([ln], PS(ln, k + 1) == PS(ln, k) + z3.If(z3.ToInt(P1.at(k).t) == ln, w(P1.at(k).t, nxt), 0)))

    def acc_inv(ex_, env, k):
        ln = z3.Int("ln")
        return z3.ForAll([ln], z3.Select(heap["cp"], ln) == z3.If(iskline(ln, N), PS(ln, k), z3.Select(cp0, ln)))

    def pairwise(ex_, so, a, kw):
        seq = a[0].seq  # = path + [sink]
        st["pairs_of"] = SymSeq(seq.length - 1, seq.at)  # the path itself
        return SymSeq(seq.length - 1, lambda i: (seq.at(i), seq.at(i + 1)))

    ex.loop_hooks[("get_critical_path", 0)] = SinkLoop()
    ex.loop_hooks[("get_critical_path", 1)] = ResetLoop()
    ex.loop_hooks[("get_critical_path", 2)] = AccLoop()
    ex.invariants[("get_critical_path", 0)] = lambda ex_, env, k: z3.BoolVal(True)
    ex.invariants[("get_critical_path", 1)] = reset_inv
    ex.invariants[("get_critical_path", 2)] = acc_inv
    ex.abstract["nx.algorithms.dag.is_directed_acyclic_graph"] = lambda ex_, so, a, kw: True
    ex.abstract["nx.algorithms.dag.dag_longest_path"] = lambda ex_, so, a, kw: PathList(SymSeq(M, lambda i: NodeVal(pnode(i))))
    ex.abstract["nx.utils.pairwise"] = pairwise
    ex.abstract["_get_node_by_lineno"] = lambda ex_, so, a, kw: NodeObj(num_term(a[0])[0])

    def run():
        heap["cp"] = cp0
        st.clear()
        kernel = SymSeq(N, lambda i: KLine(i))
        r = ex.call_method("KernelDG", "get_critical_path", SObj("KernelDG", kernel=kernel, dg=DG()), [])
        ex.extra.update(cp=heap["cp"], P1=st.get("P1"))
        return r

    q, ln = z3.Ints("q ln")
    # A (shape of a library path): nodes are line numbers >= 1, load nodes l + 0.1, or the sink (-1), which can only come last
    shape = z3.ForAll([q], z3.Implies(z3.And(0 <= q, q < M), z3.Or(z3.And(pnode(q) == SINK, q == M - 1), z3.And(pnode(q) >= 1, z3.Or(pnode(q) == z3.ToReal(z3.ToInt(pnode(q))), pnode(q) == z3.ToReal(z3.ToInt(pnode(q))) + z3.Q(1, 10))))))
    i_ = z3.Int("i_")
    nodes_are_lines = z3.ForAll([q], z3.Implies(z3.And(0 <= q, q < M, pnode(q) != SINK), z3.Exists([i_], z3.And(0 <= i_, i_ < N, lines(i_) == z3.ToInt(pnode(q))))))
    paths = ex.explore(run, [N >= 0, M >= 0, shape, nodes_are_lines, z3.ForAll([ln], PS(ln, 0) == 0)])

    def post(v, p):
        P1, cp = p.extra["P1"], p.extra["cp"]
        if P1 is None or not (isinstance(v, SymSeq) and getattr(v, "filter_of", None)):
            return False
        g = [z3.ForAll([ln], z3.Select(cp, ln) == z3.If(iskline(ln, N), PS(ln, P1.length), z3.Select(cp0, ln)))]
        _, idx, L, pred = v.filter_of
        j = z3.Int("j")
        onq = lambda x: z3.Exists([q], z3.And(0 <= q, q < P1.length, P1.at(q).t == z3.ToReal(x)))
        g.append(z3.ForAll([j], z3.Implies(z3.And(0 <= j, j < N), pred(j) == onq(lines(j)))))
        # P1 = the library's path without the sink, plus the instruction of a trailing load node
        last = pnode(M - 1)
        g.append(z3.Implies(z3.And(M >= 1, last == SINK), z3.Or(P1.length == M - 1, P1.length == M)))
        return z3.And(g)

    res.add_paths(paths, post, kind="post")
    # (L) double counting: for distinct line numbers, sum over kernel lines of PS(line, k) = sum of the first k edge weights,
    # provided every path node belongs to a kernel line.  S2(k, n) = sum_{i<n} PS(lines(i), k); W(k) = sum_{j<k} w_j
    S2 = z3.Function("S2", I_, I_, R_)
    W = z3.Function("W", I_, R_)
    wj = z3.Function("w_j", I_, R_)
    nodeline = z3.Function("node_line", I_, I_)  # int(P_j)
    k, n, i = z3.Ints("k n i")
    ax = [z3.ForAll([k], S2(k, 0) == 0), z3.ForAll([k, n], z3.Implies(n >= 0, S2(k, n + 1) == S2(k, n) + PS(lines(n), k))),
          W(0) == 0, z3.ForAll([k], z3.Implies(k >= 0, W(k + 1) == W(k) + wj(k))),
          z3.ForAll([ln], PS(ln, 0) == 0), z3.ForAll([ln, k], z3.Implies(k >= 0, PS(ln, k + 1) == PS(ln, k) + z3.If(nodeline(k) == ln, wj(k), 0)))]
    idxof = z3.Function("index_of_line", I_, I_)
    distinct = [z3.ForAll([i], z3.Implies(z3.And(0 <= i, i < N), idxof(lines(i)) == i)),
                z3.ForAll([k], z3.Implies(k >= 0, z3.And(0 <= idxof(nodeline(k)), idxof(nodeline(k)) < N, lines(idxof(nodeline(k))) == nodeline(k))))]
    # inner induction over n (fixed k >= 0): S2(k+1, n) = S2(k, n) + [index of P_k's line < n] * w_k
    claim = lambda n_: S2(k + 1, n_) == S2(k, n_) + z3.If(idxof(nodeline(k)) < n_, wj(k), 0)
    res.add("lemma/inner-base", ax + distinct + [k >= 0], claim(0), label="L")
    res.add("lemma/inner-step", ax + distinct + [k >= 0, n >= 0, n < N, claim(n)], claim(n + 1), label="L")
    # outer induction over k using the inner claim at n = N
    # outer base S2(0, N) = W(0) = 0: induction over n of S2(0, n) = 0
    res.add("lemma/outer-base/n=0", ax, S2(0, 0) == W(0), label="L")
    res.add("lemma/outer-base/step", ax + [n >= 0, S2(0, n) == W(0)], S2(0, n + 1) == W(0), label="L")
    res.add("lemma/outer-step", ax + distinct + [k >= 0, N >= 0, S2(k, N) == W(k), claim(N)], S2(k + 1, N) == W(k + 1), label="L")
    return res
