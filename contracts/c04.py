"""C04 - critical path is the longest latency-weighted dependency chain.

Pb KernelDG.get_critical_path on every dependency-graph STRUCTURE with <= 3 instructions (each with or without a
   separate load node, every subset of forward edges), all latencies symbolic (>= 0).  networkx is replaced by its
   assumed contract, given as an executable specification on the concrete structure (A): dag_longest_path returns a
   path maximising the sum of edge weights, [v] for an edgeless graph; is_directed_acyclic_graph is exact.
   Postcondition (from the statement): sum of per-line CP latencies = max over chains of (edge latencies, a leading
   load stage counted once) + execution latency of the last instruction; returned lines are consecutive along a chain.
B  real pipeline vs. independent longest-chain computation on generated kernels (bounded/dg_oracle.py C04).
The unbounded statement needs a ghost model of graphs and of networkx's maximality contract (quantified over all
paths); z3 does not refute/discharge it reliably, so the structural bound is stated instead (label Pb).
"""
import itertools
import z3

from pyvc.engine import Engine
from pyvc.runner import Unit, REPO
from pyvc.sym import *  # noqa
from pyvc.bounded import bounded_unit

LEVEL = "proof"
KDG = "osaca/semantics/kernel_dg.py"
FE = "osaca/frontend.py"
TRUSTED = ["pyvc symbolic semantics; z3 5.1.0", "A: networkx dag_longest_path / is_directed_acyclic_graph / DiGraph.copy/add_edge / utils.pairwise as specified in this file"]
ASSUMPTIONS = [
    "structural bound: <= 3 instructions, every subset of forward edges, optional separate load node per instruction; all weights symbolic >= 0 (label Pb, reported as bounded)",
    "the dependency graph is the one create_DG builds (C03): edges point forward, a load node l+0.1 has the single edge to l",
    "A-float",
]


class Graph:
    """executable specification of the networkx API used by get_critical_path, on a concrete structure"""

    def __init__(self, nodes, edges):
        self.nodes_, self.edges_ = list(nodes), dict(edges)

    def sym_havoc(self, ex, tag):
        return self

    def sym_method(self, ex, name, args, kw):
        if name == "copy":
            return Graph(self.nodes_, self.edges_)
        if name == "add_edge":
            a, b = args
            for n in (a, b):
                if n not in self.nodes_:
                    self.nodes_.append(n)
            self.edges_[(a, b)] = {"latency": kw["latency"]}
            return None
        if name == "out_degree":
            return sum(1 for (a, b) in self.edges_ if a == args[0])
        if name == "in_degree":
            return sum(1 for (a, b) in self.edges_ if b == args[0])
        if name == "has_edge":
            return (args[0], args[1]) in self.edges_
        if name == "has_node":
            return args[0] in self.nodes_
        if name == "successors":
            return [b for (a, b) in self.edges_ if a == args[0]]
        if name == "predecessors":
            return [a for (a, b) in self.edges_ if b == args[0]]
        raise Unsupported("DiGraph." + name)

    def sym_getattr(self, ex, attr):
        if attr == "edges":
            return Edges(self)
        return PyMethod(self, attr)

    def paths(self):
        succ = {}
        for (a, b) in self.edges_:
            succ.setdefault(a, []).append(b)
        out = []

        def walk(p):
            out.append(list(p))
            for n in succ.get(p[-1], []):
                walk(p + [n])

        for n in self.nodes_:
            walk([n])
        return out


class Edges:
    def __init__(self, g):
        self.g = g

    def sym_getitem(self, ex, k):
        k = tuple(k)
        if k not in self.g.edges_:
            raise PyRaise("KeyError", f"The edge {k} is not in the graph.")
        return self.g.edges_[k]


def longest_path_spec(ex, so, args, kw):
    """A: some path with maximal weight sum (ties: any; the choice is made by forking over all candidates)"""
    g = args[0]
    paths = g.paths()
    if not paths:
        return []

    def weight(p):
        w = Fraction(0)
        for a, b in zip(p, p[1:]):
            w = ex.binop(__import__("ast").Add(), w, g.edges_[(a, b)]["latency"])
        return w

    ws = [real_term(weight(p)) for p in paths]
    from pyvc.engine import PathEnd
    for i, p in enumerate(paths):
        if ex.choice():  # the library may return ANY maximal path
            ex.assume(z3.And([ws[i] >= w for w in ws]))
            return list(p)
    raise PathEnd()


def cp_unit(nins):
    def unit(res):
        ex = Engine([REPO + "/" + f for f in ("osaca/parser/instruction_form.py", KDG)])
        ex.choice_among_ties = lambda: True
        tie_state = {}

        def choose():
            # nondeterministic choice among maximal paths: either take this one or keep looking
            return ex.choice()

        ex.choice_among_ties = choose
        ex.abstract["nx.algorithms.dag.is_directed_acyclic_graph"] = lambda ex_, so, a, kw: True
        ex.abstract["nx.algorithms.dag.dag_longest_path"] = longest_path_spec
        ex.abstract["nx.utils.pairwise"] = lambda ex_, so, a, kw: list(zip(a[0], a[0][1:]))
        pairs = [(i, j) for i in range(nins) for j in range(i + 1, nins)]
        for loads, twice in itertools.product(itertools.product((False, True), repeat=nins), (False, True)):
            if twice and nins == 3:
                continue
            for emask in itertools.product((False, True), repeat=len(pairs)):
                lat = [z3.Real(f"lat{i}") for i in range(nins)]
                lwl = [z3.Real(f"lwl{i}") for i in range(nins)]
                ew = {p: z3.Real(f"w{p[0]}{p[1]}") for p, m in zip(pairs, emask) if m}
                pre = [x >= 0 for x in lat + lwl + list(ew.values())] + [lat[i] >= lwl[i] for i in range(nins)]
                pre += [lat[i] == lwl[i] for i in range(nins) if not loads[i]]

                def run():
                    kernel = []
                    for i in range(nins):
                        f = ex.instantiate("InstructionForm", kw=dict(mnemonic="op", line_number=i + 1))
                        f.fields["_latency"] = SNum(lat[i], False)
                        f.fields["_latency_wo_load"] = SNum(lwl[i], False)
                        f.fields["latency_cp"] = 0
                        kernel.append(f)
                    nodes = [i + 1 for i in range(nins)]
                    edges = {}
                    for i in range(nins):
                        if loads[i]:
                            nodes.append(Fraction(10 * (i + 1) + 1, 10))
                            edges[(Fraction(10 * (i + 1) + 1, 10), i + 1)] = {"latency": SNum(lat[i] - lwl[i], False)}
                    for (a, b), w in ew.items():
                        edges[(a + 1, b + 1)] = {"latency": SNum(w, False)}
                    selfo = SObj("KernelDG", kernel=kernel, dg=Graph(nodes, edges))
                    ex.extra["kernel"] = kernel
                    if twice:  # the report generators ask twice (text report, then --yaml-out / --export-graph)
                        ex.call_method("KernelDG", "get_critical_path", selfo, [])
                    return ex.call_method("KernelDG", "get_critical_path", selfo, [])

                paths = ex.explore(run, pre)

                def chains():
                    """all chains: (list of instruction indices, accumulated edge weight incl. optional leading load stage)"""
                    out = []

                    def walk(p, w):
                        out.append((list(p), w))
                        for (a, b), ww in ew.items():
                            if a == p[-1]:
                                walk(p + [b], w + ww)

                    for i in range(nins):
                        walk([i], z3.RealVal(0))
                        if loads[i]:
                            walk([i], lat[i] - lwl[i])
                    return out

                def post(v, p):
                    if not isinstance(v, list):
                        return False
                    if not v:  # admissible only when every chain has length 0 (nothing to mark)
                        return z3.And([w + lwl[c[-1]] == 0 for c, w in chains()])
                    k = p.extra["kernel"]
                    idx = [k.index(x) for x in v]
                    total = z3.RealVal(0)
                    for x in v:
                        total = total + real_term(x.fields["latency_cp"])
                    ch = chains()
                    lens = [w + lwl[c[-1]] for c, w in ch]
                    g = [z3.And([total >= l for l in lens]), z3.Or([total == l for l in lens])]
                    # marked lines are consecutive along a dependency chain
                    g.append(z3.BoolVal(all((a, b) in ew for a, b in zip(idx, idx[1:])) and idx == sorted(idx)))
                    # never smaller than any single instruction's latency
                    g += [total >= lat[i] for i in range(nins)]
                    return z3.And(g)

                def conc(m, p):
                    fr = lambda t: str(Fraction(m.eval(t, model_completion=True).numerator_as_long(), m.eval(t, model_completion=True).denominator_as_long()))
                    return dict(replay="c04_cp", key="cp", args=dict(twice=twice, lat=[fr(x) for x in lat], lwl=[fr(x) for x in lwl], loads=list(loads),
                                                                    edges=[[a, b, fr(w)] for (a, b), w in ew.items()]))

                res.add_paths(paths, post, concretize=conc, kind=f"n{nins}/loads{''.join('1' if x else '0' for x in loads)}/edges{''.join('1' if x else '0' for x in emask)}{'/second-call' if twice else ''}", label="Pb")
        return res

    return unit


def units(tier):
    return [
        Unit("C04/get_critical_path/1-instruction", cp_unit(1), "Pb", [(KDG, "KernelDG.get_critical_path")]),
        Unit("C04/get_critical_path/2-instructions", cp_unit(2), "Pb", [(KDG, "KernelDG.get_critical_path")]),
        Unit("C04/get_critical_path/3-instructions", cp_unit(3), "Pb", [(KDG, "KernelDG.get_critical_path")], timeout=1200),
        bounded_unit("C04/pipeline-vs-longest-chain-oracle", "dg_oracle", [(KDG, "KernelDG.get_critical_path"), (KDG, "KernelDG.create_DG")],
                     extra_args=["C04"], timeout=1500),
    ]
