"""C12 - register dependence equals architectural register overlap.

Contracts (all P): for two register names drawn from the architectural name table of the ISA in ANY letter
case, `is_reg_dependend_of(a, b)  <=>  family(a) == family(b)` with `family` tabulated in spec_regs.py.
Reflexivity / symmetry / transitivity follow because the relation is the kernel of `family` (lemma units).
"""
import z3

from pyvc.engine import Engine
from pyvc.runner import Unit, REPO
from pyvc.sym import *  # noqa
from . import spec_regs as S
from pyvc.bounded import bounded_unit

LEVEL = "proof"
TRUSTED = [
    "pyvc symbolic semantics of the Python subset (checked by the differential unit)",
    "z3 5.1.0 (cvc5 1.0.3 / z3 4.8.12 for unknowns)",
    "spec_regs.py register-family tables (written from the property statement)",
]
ASSUMPTIONS = [
    "register names range over the architectural tables of spec_regs.py in any letter case (x86: 180 names; "
    "AArch64: prefixes w,x,b,h,s,d,q,v,z,p x numbers 0-31 without leading zeros, plus x-prefixed sp)",
    "AArch64 zero register (wzr/xzr) excluded from the claim: it carries no architectural state (spec decision)",
    "operands are RegisterOperand instances (the dict form accepted by the AArch64 function is not exercised)",
]
EXPLANATION = "every path of both is_reg_dependend_of implementations, two fully symbolic names each"

X86 = "osaca/parser/parser_x86att.py"
A64 = "osaca/parser/parser_AArch64.py"
REG = "osaca/parser/register.py"
OPD = "osaca/parser/operand.py"


def fam_term(lower_bstr, table, ids):
    t = z3.IntVal(-1)
    for name in sorted(table):
        t = z3.If(bstr_eq(lower_bstr, name), z3.IntVal(ids[table[name]]), t)
    return t


def x86_unit(res, group=None):
    ex = Engine([REPO + "/" + f for f in (OPD, REG, X86)])
    ex.no_init.add("ParserX86ATT")
    names = S.X86_NAMES

    def run():
        a = BStr.fresh("a", 5)
        b = BStr.fresh("b", 5)
        la, lb = bstr_map(a, char_lower), bstr_map(b, char_lower)
        ex.assume(z3.And(a.wf(), b.wf(), la.is_one_of(names), lb.is_one_of(names)))
        ex.extra.update(a=a, b=b, la=la, lb=lb)
        ra = ex.instantiate("RegisterOperand", kw=dict(name=a))
        rb = ex.instantiate("RegisterOperand", kw=dict(name=b))
        return ex.call_method("ParserX86ATT", "is_reg_dependend_of", SObj("ParserX86ATT"), [ra, rb])

    paths = ex.explore(run)

    def post(v, p):
        fa = fam_term(p.extra["la"], S.X86_FAMILIES, S.X86_FAMILY_IDS)
        fb = fam_term(p.extra["lb"], S.X86_FAMILIES, S.X86_FAMILY_IDS)
        return bool_term(v if isinstance(v, (bool, SBool)) else ex_truth(v)) == (fa == fb)

    def conc(m, p):
        a, b = p.extra["a"].concretize(m), p.extra["b"].concretize(m)
        return dict(replay="c12_x86", args=dict(a=a, b=b), key=f"x86:{S.x86_family(a)}/{S.x86_family(b)}")

    n = res.add_paths(paths, post, concretize=conc)
    res.add_diff(paths, "d_c12_x86", lambda m, p: dict(a=p.extra["a"].concretize(m), b=p.extra["b"].concretize(m)))
    res.note(f"{len(paths)} paths, {n} returning; names: {len(names)} x any case")
    return res


def ex_truth(v):
    # the function returns only True/False/None-free booleans; MatchObj truthiness never escapes
    if v is None:
        return False
    raise Unsupported("non-boolean result " + type(v).__name__)


def a64_unit(res):
    ex = Engine([REPO + "/" + f for f in (OPD, REG, A64)])
    ex.no_init.add("ParserAArch64")
    cls_id = {"gpr": 0, "vec": 1, "pred": 2}

    def cls_term(lp):
        t = z3.IntVal(-1)
        for ch in S.A64_PREFIXES:
            t = z3.If(bstr_eq(lp, ch), z3.IntVal(cls_id[S.a64_class(ch)]), t)
        return t

    def run():
        pa, pb = BStr.fresh("pa", 1), BStr.fresh("pb", 1)
        na, nb = BStr.fresh("na", 2), BStr.fresh("nb", 2)
        lpa, lpb = bstr_map(pa, char_lower), bstr_map(pb, char_lower)
        names = S.A64_NUMBERS + ["sp"]
        ex.assume(z3.And(pa.wf(), pb.wf(), na.wf(), nb.wf()))
        ex.assume(z3.And(lpa.is_one_of(list(S.A64_PREFIXES)), lpb.is_one_of(list(S.A64_PREFIXES))))
        ex.assume(z3.And(na.is_one_of(names), nb.is_one_of(names)))
        # sp only occurs x-prefixed (ParserAArch64.process_sp_register / process_memory_address)
        ex.assume(z3.Implies(bstr_eq(na, "sp"), bstr_eq(lpa, "x")))
        ex.assume(z3.Implies(bstr_eq(nb, "sp"), bstr_eq(lpb, "x")))
        ex.extra.update(pa=pa, pb=pb, na=na, nb=nb, lpa=lpa, lpb=lpb, variant=VARIANT)
        # how the register is written apart from its class and number - element size, lane count, element index, predication -
        # must not matter ("any aliasing width of it"; p0.d and p0/z are the same predicate register)
        ra = ex.instantiate("RegisterOperand", kw=dict(prefix=pa, name=na, **VARIANT[0]))
        rb = ex.instantiate("RegisterOperand", kw=dict(prefix=pb, name=nb, **VARIANT[1]))
        return ex.call_method("ParserAArch64", "is_reg_dependend_of", SObj("ParserAArch64"), [ra, rb])

    VARIANTS = [({}, {}), (dict(shape="d"), dict(shape="s")), (dict(shape="d"), dict(predication="z")), (dict(shape="b", lanes="16"), dict(shape="b", lanes="8", index=1)),
                (dict(predication="m"), dict(predication="z"))]
    paths = []
    for VARIANT in VARIANTS:
        paths += ex.explore(run)

    def post(v, p):
        e = p.extra
        same = z3.And(cls_term(e["lpa"]) == cls_term(e["lpb"]), bstr_eq(e["na"], e["nb"]))
        return bool_term(v) == same

    def conc(m, p):
        e = p.extra
        a = (e["pa"].concretize(m), e["na"].concretize(m))
        b = (e["pb"].concretize(m), e["nb"].concretize(m))
        return dict(replay="c12_a64", args=dict(a=a, b=b, written_a=e["variant"][0], written_b=e["variant"][1]), key=f"a64:{S.a64_class(a[0])}/{S.a64_class(b[0])}")

    n = res.add_paths(paths, post, concretize=conc)
    res.add_diff(paths, "d_c12_a64", lambda m, p: dict(a=[p.extra["pa"].concretize(m), p.extra["na"].concretize(m)], b=[p.extra["pb"].concretize(m), p.extra["nb"].concretize(m)]))
    res.note(f"{len(paths)} paths, {n} returning")
    return res


def lemma_unit(res):
    """L: a relation defined as the kernel of a function is an equivalence relation."""
    U = z3.DeclareSort("Reg")
    F = z3.DeclareSort("Fam")
    fam = z3.Function("family", U, F)
    dep = lambda a, b: fam(a) == fam(b)
    a, b, c = z3.Consts("a b c", U)
    res.add("reflexive", [], dep(a, a), label="L")
    res.add("symmetric", [dep(a, b)], dep(b, a), label="L")
    res.add("transitive", [dep(a, b), dep(b, c)], dep(a, c), label="L")
    return res


def units(tier):
    return [
        Unit("C12/x86/is_reg_dependend_of", x86_unit, "P",
             [(X86, "ParserX86ATT.is_reg_dependend_of"), (X86, "ParserX86ATT.is_basic_gpr"),
              (X86, "ParserX86ATT.is_vector_register"), (REG, "RegisterOperand.__init__")], timeout=900),
        Unit("C12/aarch64/is_reg_dependend_of", a64_unit, "P",
             [(A64, "ParserAArch64.is_reg_dependend_of"), (REG, "RegisterOperand.__init__")], timeout=600),
        Unit("C12/lemma/equivalence", lemma_unit, "L", []),
        bounded_unit("C12/pairs-exhaustive", "c12_pairs", [(X86, "ParserX86ATT.is_reg_dependend_of"),
                     (A64, "ParserAArch64.is_reg_dependend_of")], timeout=600),
    ]
