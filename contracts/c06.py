"""C06 - store-to-load dependencies through provably equal addresses on both ISAs.

P  KernelDG.is_memload, per operand shape (store address x load address x tracked-change entries; all names,
   displacements, scales and tracked values symbolic): True iff base and index registers agree after renaming,
   scales agree and  off_load - off_store + delta_base + delta_index*scale = 0.
P  KernelDG.is_memstore (structural equality of the operand), KernelDG._update_reg_changes (per shape)
P  find_depending memory branch: in contracts/c03.py (yield <=> is_memload, break <=> write-back base overwritten or is_memstore)
B  whole pipeline on the store / pointer-bump / load family of both ISAs vs. the independent address tracker
   (bounded/dg_oracle.py C06); ISASemantics.get_reg_changes (uses exec) is only covered there.
"""
import itertools
import os
import z3

from pyvc.engine import Engine
from pyvc.runner import Unit, REPO
from pyvc.sym import *  # noqa
from pyvc.bounded import bounded_unit

LEVEL = "proof"
KDG = "osaca/semantics/kernel_dg.py"
ISA = "osaca/semantics/isa_semantics.py"
PFILES = ["osaca/parser/operand.py", "osaca/parser/register.py", "osaca/parser/memory.py", "osaca/parser/immediate.py",
          "osaca/parser/identifier.py", "osaca/parser/instruction_form.py", KDG]
TRUSTED = ["pyvc symbolic semantics; z3 5.1.0", "shape enumeration of operands is complete for what the two parsers construct (register, immediate or no displacement; symbolic displacements are compared by name - covered by the bounded unit)"]
ASSUMPTIONS = [
    "one memory source operand per consumer instruction in the proof units (loops over sources are concrete; more operands only in the bounded unit)",
    "ISASemantics.get_reg_changes executes YAML 'operation' strings with exec(): outside the subset, bounded stand-in only",
    "_update_reg_changes: aliasing between register operands is symmetric and transitive over the entries of the table of written operands (register families, C12 contract); one instruction does not write two views of one register; the post-index pass reports constant/unknown changes of a base only",
    "register names of the load are fixed representatives (a, b); store names and tracked origins range over {a,b,c} symbolically (names are only compared for equality)",
]
NAMES = ["a", "b", "c"]


def eng():
    ex = Engine([REPO + "/" + f for f in PFILES])
    return ex


def memload_unit(prefix, sb_present, si_present):
    def unit(res):
        ex = eng()
        pf = prefix or ""
        full = lambda n: pf + n
        for so_present, lb_present, li_present, lo_kind, pre, cb, ci in itertools.product(
                (False, True), (False, True), (False, True), ("none", "imm", "immnone"), (False, True),
                ("absent", "unknown", "tracked"), ("absent", "unknown", "tracked")):
            if not lb_present and cb != "absent":
                continue
            if not li_present and ci != "absent":
                continue
            sb, si = BStr.fresh("sb", 1), BStr.fresh("si", 1)
            ob, oi = BStr.fresh("ob", 2), BStr.fresh("oi", 2)
            so, lo, vb, vi, ssc, lsc = z3.Ints("so lo vb vi ssc lsc")
            pre_c = [sb.wf(), si.wf(), ob.wf(), oi.wf(), sb.is_one_of(NAMES), si.is_one_of(NAMES),
                     ob.is_one_of([full(n) for n in NAMES]), oi.is_one_of([full(n) for n in NAMES]), ssc >= 1, lsc >= 1]

            def run():
                R = lambda nm: ex.instantiate("RegisterOperand", kw=dict(name=nm, prefix=prefix))
                imm = lambda v: ex.instantiate("ImmediateOperand", kw=dict(value=v))
                mem = ex.instantiate("MemoryOperand", kw=dict(offset=imm(SNum(so, True)) if so_present else None,
                                                            base=R(sb) if sb_present else None, index=R(si) if si_present else None, scale=SNum(ssc, True)))
                loff = {"none": None, "imm": imm(SNum(lo, True)), "immnone": imm(None)}[lo_kind]
                src = ex.instantiate("MemoryOperand", kw=dict(offset=loff, base=R("a") if lb_present else None,
                                                            index=R("b") if li_present else None, scale=SNum(lsc, True), pre_indexed=pre))
                changes = {}
                if cb == "unknown":
                    changes[full("a")] = None
                elif cb == "tracked":
                    changes[full("a")] = {"name": ob, "value": SNum(vb, True)}
                if ci == "unknown":
                    changes[full("b")] = None
                elif ci == "tracked":
                    changes[full("b")] = {"name": oi, "value": SNum(vi, True)}
                iform = ex.instantiate("InstructionForm", kw=dict(mnemonic="ld", operands=[]))
                iform.fields["_semantic_operands"] = {"source": [R("c"), src], "destination": [R("c")], "src_dst": []}
                return ex.call_method("KernelDG", "is_memload", SObj("KernelDG"), [mem, iform, changes])

            paths = ex.explore(run, pre_c)

            def post(v, p):
                conds = []
                delta = z3.IntVal(0)
                if lo_kind == "imm" and not pre:
                    delta = delta + lo
                if so_present:
                    delta = delta - so
                if sb_present != lb_present or si_present != li_present:
                    want = z3.BoolVal(False)
                else:
                    if lb_present:
                        if cb == "unknown":
                            conds.append(z3.BoolVal(False))
                        elif cb == "tracked":
                            conds.append(bstr_eq(bstr_concat(pf, sb), ob))
                            delta = delta + vb
                        else:
                            conds.append(bstr_eq(sb, "a"))
                    if li_present:
                        conds.append(ssc == lsc)
                        if ci == "unknown":
                            conds.append(z3.BoolVal(False))
                        elif ci == "tracked":
                            conds.append(bstr_eq(bstr_concat(pf, si), oi))
                            delta = delta + vi * lsc
                        else:
                            conds.append(bstr_eq(si, "b"))
                    want = z3.And(conds + [delta == 0])
                got = v.t if isinstance(v, SBool) else z3.BoolVal(bool(v))
                return got == want

            def conc(m, p):
                ev = lambda t: m.eval(t, model_completion=True).as_long()
                return dict(replay="c06_memload", key="memload", args=dict(
                    prefix=prefix, store=dict(base=sb.concretize(m) if sb_present else None, index=si.concretize(m) if si_present else None,
                                              offset=ev(so) if so_present else None, scale=ev(ssc)),
                    load=dict(base="a" if lb_present else None, index="b" if li_present else None, offset={"none": None, "imm": ev(lo), "immnone": "IMMNONE"}[lo_kind],
                              scale=ev(lsc), pre=pre),
                    changes={**({full("a"): None} if cb == "unknown" else {full("a"): [ob.concretize(m), ev(vb)]} if cb == "tracked" else {}),
                             **({full("b"): None} if ci == "unknown" else {full("b"): [oi.concretize(m), ev(vi)]} if ci == "tracked" else {})}))

            res.add_paths(paths, post, concretize=conc, kind=f"so{int(so_present)}lb{int(lb_present)}li{int(li_present)}{lo_kind}pre{int(pre)}{cb[0]}{ci[0]}")
            res.add_diff(paths, "d_c06_memload", lambda m, p: conc(m, p)["args"], limit=2)
        return res

    return unit


def memload_views_unit(prefix):
    """P: is_memload when a register operand W was written since the store (views written so far, kept in the change table):
    if W is another view of the load's base (resp. index) register - aliasing per the C12 contract, different name - the
    address is not provably the same and the load is not linked; otherwise the result is the one of the plain comparison."""
    def unit(res):
        ex = eng()
        pf = prefix or ""
        full = lambda n: pf + n
        alias_b, alias_i = z3.Bools("w_aliases_base w_aliases_index")
        for lb_present, li_present, cb, ci in itertools.product((False, True), (False, True), ("absent", "tracked"), ("absent", "tracked")):
            if (not lb_present and cb != "absent") or (not li_present and ci != "absent") or not (lb_present or li_present):
                continue
            sb, si, wn = BStr.fresh("sb", 1), BStr.fresh("si", 1), BStr.fresh("wn", 1)
            ob, oi = BStr.fresh("ob", 2), BStr.fresh("oi", 2)
            so, lo, vb, vi, sc = z3.Ints("so lo vb vi sc")
            pre_c = [x.wf() for x in (sb, si, wn, ob, oi)] + [sb.is_one_of(NAMES), si.is_one_of(NAMES), wn.is_one_of(NAMES + ["e"]),
                                                             ob.is_one_of([full(n) for n in NAMES]), oi.is_one_of([full(n) for n in NAMES]), sc >= 1]

            def run():
                R = lambda nm: ex.instantiate("RegisterOperand", kw=dict(name=nm, prefix=prefix))
                imm = lambda v: ex.instantiate("ImmediateOperand", kw=dict(value=v))
                mem = ex.instantiate("MemoryOperand", kw=dict(offset=imm(SNum(so, True)), base=R(sb) if lb_present else None, index=R(si) if li_present else None, scale=SNum(sc, True)))
                la, lbx = R("a"), R("b")
                src = ex.instantiate("MemoryOperand", kw=dict(offset=imm(SNum(lo, True)), base=la if lb_present else None, index=lbx if li_present else None, scale=SNum(sc, True)))
                W = R(wn)
                changes = {"": {tostr(bstr_concat(pf, wn) if pf else wn): W}}  # keyed by the written operand's prefix + name
                if cb == "tracked":
                    changes[full("a")] = {"name": ob, "value": SNum(vb, True)}
                if ci == "tracked":
                    changes[full("b")] = {"name": oi, "value": SNum(vi, True)}

                def dep(ex_, so_, a, kw):
                    if a[1] is not W or a[0] not in (la, lbx):
                        ex_.oblige("is_reg_dependend_of/asked-for-(address register, written operand)", False)
                    return SBool(alias_b if a[0] is la else alias_i)

                ex.abstract["is_reg_dependend_of"] = dep
                iform = ex.instantiate("InstructionForm", kw=dict(mnemonic="ld", operands=[]))
                iform.fields["_semantic_operands"] = {"source": [src], "destination": [R("c")], "src_dst": []}
                return ex.call_method("KernelDG", "is_memload", SObj("KernelDG", parser=SObj("Parser")), [mem, iform, changes])

            paths = ex.explore(run, pre_c)

            def post(v, p):
                conds, delta = [], lo - so
                if lb_present:
                    conds.append(z3.Not(z3.And(alias_b, z3.Not(bstr_eq(bstr_concat(pf, wn), full("a"))))))
                    if cb == "tracked":
                        conds.append(bstr_eq(bstr_concat(pf, sb), ob))
                        delta = delta + vb
                    else:
                        conds.append(bstr_eq(sb, "a"))
                if li_present:
                    conds.append(z3.Not(z3.And(alias_i, z3.Not(bstr_eq(bstr_concat(pf, wn), full("b"))))))
                    if ci == "tracked":
                        conds.append(bstr_eq(bstr_concat(pf, si), oi))
                        delta = delta + vi * sc
                    else:
                        conds.append(bstr_eq(si, "b"))
                want = z3.And(conds + [delta == 0])
                got = v.t if isinstance(v, SBool) else z3.BoolVal(bool(v))
                return got == want

            res.add_paths(paths, post, kind=f"lb{int(lb_present)}li{int(li_present)}{cb[0]}{ci[0]}")
        return res

    return unit


def memstore_unit(res):
    ex = eng()
    for prefix in (None, "x"):
      # the written memory operand is a pure destination (mov/str) or a read-modify-write operand (x86 'addq $1, 8(%rax)')
      for role in ("destination", "src_dst"):
        for (b1, i1, o1), (b2, i2, o2) in itertools.product(itertools.product((False, True), repeat=3), repeat=2):
              n1, n2, m1, m2 = BStr.fresh("n1", 1), BStr.fresh("n2", 1), BStr.fresh("m1", 1), BStr.fresh("m2", 1)
              v1, v2, s1, s2 = z3.Ints("v1 v2 s1 s2")
              p1, p2, q1, q2 = z3.Bools("p1 p2 q1 q2")
              pre_c = [x.wf() for x in (n1, n2, m1, m2)] + [x.is_one_of(NAMES) for x in (n1, n2, m1, m2)]

              def run():
                  R = lambda nm: ex.instantiate("RegisterOperand", kw=dict(name=nm, prefix=prefix))
                  imm = lambda v: ex.instantiate("ImmediateOperand", kw=dict(value=SNum(v, True)))
                  mk = lambda b, i, o, nb, ni, v, s, p, q: ex.instantiate("MemoryOperand", kw=dict(
                      offset=imm(v) if o else None, base=R(nb) if b else None, index=R(ni) if i else None, scale=SNum(s, True),
                      pre_indexed=SBool(p), post_indexed=SBool(q)))
                  mem = mk(b1, i1, o1, n1, m1, v1, s1, p1, q1)
                  dst = mk(b2, i2, o2, n2, m2, v2, s2, p2, q2)
                  iform = ex.instantiate("InstructionForm", kw=dict(mnemonic="st", operands=[]))
                  iform.fields["_semantic_operands"] = ({"source": [R("c")], "destination": [R("c"), dst], "src_dst": []} if role == "destination" else
                                                        {"source": [R("c")], "destination": [R("c")], "src_dst": [dst]})
                  return ex.call_method("KernelDG", "is_memstore", SObj("KernelDG"), [mem, iform])

              paths = ex.explore(run, pre_c)

              def post(v, p):
                  if (b1, i1, o1) != (b2, i2, o2):
                      want = z3.BoolVal(False)
                  else:
                      c = [s1 == s2, p1 == p2, q1 == q2]
                      if b1:
                          c.append(bstr_eq(n1, n2))
                      if i1:
                          c.append(bstr_eq(m1, m2))
                      if o1:
                          c.append(v1 == v2)
                      want = z3.And(c)
                  got = v.t if isinstance(v, SBool) else z3.BoolVal(bool(v))
                  return got == want

              res.add_paths(paths, post, kind=f"{prefix}{int(b1)}{int(i1)}{int(o1)}-{int(b2)}{int(i2)}{int(o2)}/{role}")
    return res


def tb(v):
    return v.t if isinstance(v, SBool) else z3.BoolVal(bool(v))


def update_changes_unit(res):
    """_update_reg_changes, stated over what the change table MEANS (C06: constant increments, decrements and register copies
    are accounted for; anything else makes the register unknown).  A register R is KNOWN in a table iff its entry is not None and
    no other view of it (an operand with another name that aliases it per the C12 contract) was written since; a known register
    has (origin, delta).  For one instruction with the changes get_reg_changes reports:
      - a constant change keeps R's knownness and adds to delta; an unknown change makes R unknown;
      - a copy (own constant allowed) makes R known with the SOURCE's origin and delta + constant iff the source is known at
        that point (not None, not written through another view), whatever R held before - also when R had been written through
        another view of it; otherwise R is unknown;
      - a register P the instruction does not write: written through another view afterwards iff it was before or one of the
        operands the instruction writes is another view of it (pre-access pass; the post-index pass records no writes);
      - entries of registers not mentioned are untouched (same object, same contents, not shared)."""
    ex = eng()
    ex.load(REPO + "/" + ISA)
    for st_a, st_b, ch, post_pass, prev in itertools.product(("absent", "unknown", "tracked"), ("absent", "unknown", "tracked"),
                                                             ("none", "unknown", "const", "copy_b", "copy_c", "copy_nosrc"), (False, True), ("e1", "e1+b+a")):
        if post_pass and ch.startswith("copy"):
            continue  # the post-index pass reports constant or unknown changes of a base register only (get_reg_changes, only_postindexed)
        va, vb, dv = z3.Ints("va vb dv")
        oa = BStr.fresh("oa", 1)
        ob = BStr.fresh("ob", 1)
        al = {}

        def run():
            state = {}
            if st_a == "unknown":
                state["a"] = None
            elif st_a == "tracked":
                state["a"] = {"name": oa, "value": SNum(va, True)}
            if st_b == "unknown":
                state["b"] = None
            elif st_b == "tracked":
                state["b"] = {"name": ob, "value": SNum(vb, True)}
            src = {"copy_b": "b", "copy_c": "c", "copy_nosrc": "c"}.get(ch)
            change = {"none": {}, "unknown": {"a": None}, "const": {"a": {"name": "a", "value": SNum(dv, True)}}}.get(ch, {"a": {"name": src, "value": SNum(dv, True)}})
            R = lambda name, prefix=None, tag=None: SObj("RegisterOperand", _name=name, _prefix=prefix, tag=tag or name)
            A, Bop, C, P = R("a"), R("b"), R("c"), R("p")
            W0, W1 = R("w0"), R("1", "xw", tag="w1")
            E1 = R("e1")
            names = {id(o): o.fields["tag"] for o in (A, Bop, C, P, W0, W1, E1)}

            def dep(ex_, so, a, kw):
                k = (names.get(id(a[0]), "?" + str(id(a[0]))), names.get(id(a[1]), "?" + str(id(a[1]))))
                k = tuple(sorted(k))  # aliasing is symmetric (C12)
                if k[0] == k[1]:
                    return SBool(z3.BoolVal(True))
                al.setdefault(k, z3.Bool("alias_%s_%s" % k))
                return SBool(al[k])

            ex.abstract["is_reg_dependend_of"] = dep
            sem = SObj("ArchSemantics")
            other = SObj("MemoryOperand", _base=C if ch == "copy_c" else None, _index=None)
            sources = {"copy_b": [Bop], "copy_c": [other], "copy_nosrc": []}.get(ch, [SObj("ImmediateOperand")])
            iform = SObj("InstructionForm", _semantic_operands={"source": sources, "destination": ([A] if ch != "none" else []) + [W0, SObj("MemoryOperand", _base=None, _index=None)], "src_dst": [W1]})
            prev_views = {"e1": E1}
            if prev == "e1+b+a":
                # earlier FULL writes of b and a themselves (same name: not another view)
                prev_views["b"] = Bop
                prev_views["a"] = R("a", tag="a_prev")
                names[id(prev_views["a"])] = "a"
            state[""] = dict(prev_views)
            kdg = SObj("KernelDG", arch_sem=sem, parser=SObj("Parser"))
            def tainted(o, st_):
                # the MEANING of the table of written operands (the real _changed_through_other_view is verified against the same
                # reading through is_memload, unit other-view-written): some operand with another name that aliases o was written
                nm = (o.fields["_prefix"] or "") + o.fields["_name"]
                views = st_.get("", {})
                if not isinstance(views, dict):
                    raise Unsupported("table of written operands is not a dict")
                return z3.Or([z3.BoolVal(False)] + [tb(dep(ex, None, [o, w], {})) for k_, w in views.items() if k_ != nm])

            t0 = {k_: tainted(o, state) for k_, o in (("a", A), ("b", Bop), ("c", C), ("p", P))}
            seen = []
            ex.abstract["get_reg_changes"] = lambda ex_, so, a, kw: seen.append((a, kw)) or change
            ex.extra["state_b_before"] = state.get("b", "ABSENT")
            out = ex.call_method("KernelDG", "_update_reg_changes", kdg, [iform, state] + ([True] if post_pass else []))
            ex.extra["same"] = out is state
            t1 = {k_: tainted(o, out) for k_, o in (("a", A), ("b", Bop), ("c", C), ("p", P))}
            ex.extra["taint"] = (t0, t1)
            aliasb = lambda x, y: tb(dep(ex, None, [x, y], {}))
            ex.extra["alias"] = dict(p_written=z3.Or([aliasb(P, w) for w in ([A] if ch != "none" else []) + [W0, W1]]),
                                     a_w=z3.Or(aliasb(A, W0), aliasb(A, W1)), trans=z3.And([z3.Implies(z3.And(aliasb(P, x), aliasb(A, x)), aliasb(P, A)) for x in prev_views.values()]))
            # the changes asked for are those of this instruction and of the requested pass
            ex.extra["asked"] = len(seen) == 1 and seen[0][0][0] is iform and bool((seen[0][0][1:] or [seen[0][1].get("only_postindexed", False)])[0]) == post_pass
            return out

        paths = ex.explore(run, [oa.wf(), oa.is_one_of(NAMES), ob.wf(), ob.is_one_of(NAMES)])

        def post(v, p):
            if not isinstance(v, dict) or not p.extra["same"]:
                return False
            t0, t1 = p.extra["taint"]
            AL = p.extra["alias"]
            g = [z3.BoolVal(bool(p.extra["asked"]))]
            # hypotheses about the operands (C12 contract / one instruction does not write two views of one register)
            hyp = z3.And(AL["trans"], z3.Not(AL["a_w"]))
            # a register the instruction does not write
            g.append(t1["p"] == (t0["p"] if post_pass else z3.Or(t0["p"], AL["p_written"])))
            # b is never touched: same entry, same contents, and not shared with a's entry
            vb_now = v.get("b", "ABSENT")
            g.append(z3.BoolVal(vb_now is p.extra["state_b_before"]))
            a = v.get("a", "ABSENT")
            if isinstance(vb_now, dict):
                g.append(z3.BoolVal(a is not vb_now and set(vb_now) == {"name", "value"} and vb_now["name"] is ob))
                g.append(real_term(vb_now["value"]) == z3.ToReal(vb))
            known0_a = z3.And(z3.BoolVal(st_a != "unknown"), z3.Not(t0["a"]))
            known1_a = z3.And(z3.BoolVal(a is not None), z3.Not(t1["a"]))

            def value_is(origin, delta):
                if a == "ABSENT":  # untracked = (itself, 0)
                    return z3.And(ex.eq_term(origin, "a"), delta == 0)
                if not isinstance(a, dict):
                    return z3.BoolVal(False)
                return z3.And(ex.eq_term(a["name"], origin), real_term(a["value"]) == z3.ToReal(delta))

            if ch == "none":
                g.append(z3.BoolVal((a == "ABSENT") == (st_a == "absent") and (a is None) == (st_a == "unknown")))
                g.append(t1["a"] == (t0["a"] if post_pass else z3.Or(t0["a"], AL["a_w"])))
            elif ch == "unknown":
                g.append(z3.Not(known1_a))
            elif ch == "const":
                g.append(known1_a == known0_a)
                g.append(z3.Implies(known1_a, value_is(oa if st_a == "tracked" else "a", (va if st_a == "tracked" else z3.IntVal(0)) + dv)))
            else:
                src = "b" if ch == "copy_b" else "c"
                src_state = st_b if src == "b" else "absent"
                # (a source register that is not among the instruction's operands cannot be examined for other views)
                src_taint = t0[src] if ch != "copy_nosrc" else z3.BoolVal(False)
                known0_src = z3.And(z3.BoolVal(src_state != "unknown"), z3.Not(src_taint))
                g.append(known1_a == known0_src)
                sv = vb if src_state == "tracked" else z3.IntVal(0)
                # the origin is the register the SOURCE started from (a copy of a copy), the source itself if it is untracked
                g.append(z3.Implies(known0_src, value_is(ob if (src == "b" and src_state == "tracked") else src, sv + dv)))
            import os
            if os.environ.get("PYVC_C06_DEBUG"):
                from pyvc.runner import discharge
                for n_, c_ in enumerate(g):
                    r_ = discharge(list(p.pc) + [hyp], c_)
                    if r_["status"] != "discharged":
                        print("DEBUG", st_a, st_b, ch, post_pass, prev, "clause", n_, r_["status"], c_, flush=True)
            return z3.Implies(hyp, z3.And(g))

        res.add_paths(paths, post, kind=f"{st_a}/{st_b}/{ch}/post={int(post_pass)}/{prev}")
    return res


def units(tier):
    us = []
    for prefix in (None, "x"):
        for sb in (False, True):
            for si in (False, True):
                us.append(Unit(f"C06/is_memload/prefix={prefix}/storebase={int(sb)}/storeindex={int(si)}", memload_unit(prefix, sb, si), "P",
                               [(KDG, "KernelDG.is_memload"), (KDG, "KernelDG._displacement")], timeout=900))
    from .c03 import create_dg_unit, find_depending_unit, has_pre_indexed_unit
    for prefix in (None, "x"):
        us.append(Unit(f"C06/is_memload/other-view-written/prefix={prefix}", memload_views_unit(prefix), "P", [(KDG, "KernelDG.is_memload"), (KDG, "KernelDG._changed_through_other_view")], timeout=900))
    us += [
        Unit("C06/get_reg_changes/x86(every ISA-DB operation)", reg_changes_unit("x86"), "P", [(ISA, "ISASemantics.get_reg_changes")]),
        Unit("C06/get_reg_changes/aarch64(every ISA-DB operation, pre-/post-index)", reg_changes_unit("aarch64"), "P", [(ISA, "ISASemantics.get_reg_changes")]),
        Unit("C06/_has_pre_indexed_access", has_pre_indexed_unit, "P", [(KDG, "KernelDG._has_pre_indexed_access")]),
        Unit("C06/find_depending(memory branch)", find_depending_unit, "P", [(KDG, "KernelDG.find_depending")]),
        Unit("C06/create_DG(edge weights)", create_dg_unit, "P", [(KDG, "KernelDG.create_DG")]),
        Unit("C06/is_memstore", memstore_unit, "P", [(KDG, "KernelDG.is_memstore"), ("osaca/parser/memory.py", "MemoryOperand.__eq__"),
                                                     ("osaca/parser/register.py", "RegisterOperand.__eq__"), ("osaca/parser/immediate.py", "ImmediateOperand.__eq__")]),
        Unit("C06/_update_reg_changes", update_changes_unit, "P", [(KDG, "KernelDG._update_reg_changes")]),
        bounded_unit("C06/pipeline-vs-address-tracker", "dg_oracle", [(KDG, "KernelDG.find_depending"), (KDG, "KernelDG.is_memload"),
                     (ISA, "ISASemantics.get_reg_changes"), (KDG, "KernelDG.create_DG")], extra_args=["C06"], timeout=1500),
    ]
    return us


def reg_changes_unit(isa):
    """P: ISASemantics.get_reg_changes (real code, incl. exec of the entry's operation string by the engine) for EVERY entry of
    the shipped ISA database that carries an operation (read from the YAML on every run), with symbolic immediates: the
    tracked change of the written register is the architectural one - add/sub immediate: the register itself +/- the
    immediate; inc/dec: +/- 1; register copy: the source register with change 0; AArch64 add/sub immediate into another
    register: the source register +/- the immediate - also when source and destination are the same register.  Forms without
    entry or operation: every written register is unknown (None).  Pre-index: base + offset; post-index: 0 in the pre-access
    pass, the post-index immediate in the post-access pass (unknown for a register post-index)."""
    def unit(res):
        import json, subprocess
        ex = eng()
        ex.load(REPO + "/" + ISA)
        ex.no_init |= {"ISASemantics", "MachineModel"}
        # the entries with an operation string, read from the shipped YAML by the repository's own YAML library (the proof
        # interpreter itself has no YAML reader)
        ypath = os.path.join(REPO, "osaca", "data", "isa", ("x86" if isa == "x86" else "aarch64") + ".yml")
        out = subprocess.run(["/venv/bin/python", "-c", "import sys, json, ruamel.yaml as r; d = r.YAML(typ='safe').load(open(sys.argv[1])); "
                              "print(json.dumps([dict(name=f['name'], operands=[dict(o) for o in f['operands']], operation=f['operation']) for f in d['instruction_forms'] if f.get('operation')]))", ypath],
                             capture_output=True, text=True, check=True).stdout
        entries = json.loads(out)
        res.note(f"{len(entries)} entries with an operation string in isa/{isa}.yml")
        regnames = ["rax", "rbx", "rcx"] if isa == "x86" else ["1", "2", "3"]
        pf = "" if isa == "x86" else "x"  # (the w-register entries are run with x names: the operation is the same text)
        IMM = z3.Int("imm")

        def effect(name, kinds):
            """architectural effect (independent of the operation string): (written operand index, source operand index, delta sign/None)"""
            n = name.lower()
            if isa == "x86":
                if n in ("add", "sub") and kinds == ["immediate", "register"]:
                    return (1, 1, 1 if n == "add" else -1)
                if n in ("inc", "dec") and kinds == ["register"]:
                    return (0, 0, ("const", 1 if n == "inc" else -1))
                if n == "mov" and kinds == ["register", "register"]:
                    return (1, 0, 0)
            else:
                if n in ("add", "sub", "adds", "subs") and kinds == ["register", "register", "immediate"]:
                    return (0, 1, 1 if n.startswith("add") else -1)
                if n == "mov" and kinds == ["register", "register"]:
                    return (0, 1, 0)
            return None

        seen = 0
        for f in entries:
            names = f["name"] if isinstance(f["name"], list) else [f["name"]]
            kinds = [o["class"] for o in f["operands"]]
            eff = effect(names[0], kinds)
            res.add(f"{names[0]}{kinds}/operation-has-a-known-architectural-meaning", [], eff is not None).update(detail=f.get("operation"))
            if eff is None:
                continue
            seen += 1
            for same in (False, True):  # destination register = source register (add x1, x1, #8)
                if same and (eff[0] == eff[1]):
                    continue

                def run(f=f, kinds=kinds, eff=eff, same=same):
                    new = lambda c, **kw: ex.instantiate(c, kw=kw)
                    ops, e_ops = [], []
                    k = 0
                    for i, o in enumerate(f["operands"]):
                        if o["class"] == "register":
                            nm = regnames[eff[1]] if (same and i == eff[0]) else regnames[i]
                            ops.append(new("RegisterOperand", name=nm, prefix=None if isa == "x86" else "x"))
                        else:
                            ops.append(new("ImmediateOperand", value=SNum(IMM, True)))
                        e_ops.append(SObj("Operand", _source=bool(o.get("source")), _destination=bool(o.get("destination"))))
                    entry = SObj("InstructionForm", _operation=f["operation"], _operands=e_ops)
                    iform = new("InstructionForm", mnemonic=names[0], operands=ops, line="x", line_number=1)
                    dests = [ops[i] for i, o in enumerate(f["operands"]) if o.get("destination")]
                    iform.fields["_semantic_operands"] = {"source": [], "destination": [d for d, o in zip(dests, [o for o in f["operands"] if o.get("destination")]) if not o.get("source")],
                                                          "src_dst": [d for d, o in zip(dests, [o for o in f["operands"] if o.get("destination")]) if o.get("source")]}
                    ex.abstract["get_instruction"] = lambda ex_, so, a, kw: entry
                    sem = SObj("ISASemantics", _isa=isa, _isa_model=SObj("MachineModel"))
                    r = ex.call_method("ISASemantics", "get_reg_changes", sem, [iform])
                    ex.extra.update(ops=ops)
                    return r

                paths = ex.explore(run, [])

                def post(v, p, eff=eff, same=same):
                    ops = p.extra["ops"]
                    wname = pf + ops[eff[0]].fields["_name"]
                    sname = pf + ops[eff[1]].fields["_name"]
                    if not isinstance(v, dict) or set(v) != {wname}:
                        return False
                    c = v[wname]
                    if not isinstance(c, dict):
                        return False
                    d = eff[2]
                    want = z3.IntVal(d[1]) if isinstance(d, tuple) else (IMM * d if d else z3.IntVal(0))
                    return z3.And(z3.BoolVal(c.get("name") == sname), num_term(c.get("value"))[0] == want)

                res.add_paths(paths, post, kind=f"{names[0]}{kinds}/same-register={int(same)}")
        res.add("entries-with-operation-covered", [], seen >= 1 and seen == len(entries))
        # ---- no entry / no operation: unknown; pre-/post-index passes
        OFF, POST = z3.Ints("offset post")
        for case in ("no-entry", "pre-index", "post-index/pre-pass", "post-index/post-pass", "post-index-register/post-pass"):
            if isa == "x86" and case != "no-entry":
                continue

            def run2(case=case):
                new = lambda c, **kw: ex.instantiate(c, kw=kw)
                r1, r2 = new("RegisterOperand", name=regnames[0], prefix=None if isa == "x86" else "x"), new("RegisterOperand", name=regnames[1], prefix=None if isa == "x86" else "x")
                ops = [r1, r2]
                so = {"source": [r2], "destination": [r1], "src_dst": []}
                if case != "no-entry":
                    base = new("RegisterOperand", name=regnames[1], prefix="x")
                    mem = new("MemoryOperand", base=base, offset=new("ImmediateOperand", value=SNum(OFF, True)) if case == "pre-index" else None,
                              pre_indexed=(case == "pre-index"),
                              post_indexed=({"value": SNum(POST, True)} if case.startswith("post-index/") else {"identifier": {"name": "x9"}}) if case.startswith("post") else False)
                    ops = [r1, mem]
                    so = {"source": [mem], "destination": [r1], "src_dst": [base]}
                iform = new("InstructionForm", mnemonic="ldr" if case != "no-entry" else "frob", operands=ops, line="x", line_number=1)
                iform.fields["_semantic_operands"] = so
                ex.abstract["get_instruction"] = lambda ex_, so_, a, kw: None
                sem = SObj("ISASemantics", _isa=isa, _isa_model=SObj("MachineModel"))
                return ex.call_method("ISASemantics", "get_reg_changes", sem, [iform] + ([True] if case.endswith("post-pass") else []))

            paths = ex.explore(run2, [])

            def post2(v, p, case=case):
                if not isinstance(v, dict):
                    return False
                d, b = pf + regnames[0], pf + regnames[1]
                if case == "no-entry":
                    return set(v) == {d} and v[d] is None
                if case == "pre-index":
                    return z3.And(z3.BoolVal(set(v) == {d, b} and v[d] is None and isinstance(v[b], dict) and v[b].get("name") == b), num_term(v[b]["value"])[0] == OFF) if isinstance(v.get(b), dict) else False
                if case == "post-index/pre-pass":
                    return z3.And(z3.BoolVal(set(v) == {d, b} and v[d] is None and v[b].get("name") == b), num_term(v[b]["value"])[0] == 0) if isinstance(v.get(b), dict) else False
                if case == "post-index/post-pass":
                    return z3.And(z3.BoolVal(set(v) == {b} and v[b].get("name") == b), num_term(v[b]["value"])[0] == POST) if isinstance(v.get(b), dict) else False
                return set(v) == {b} and v[b] is None

            res.add_paths(paths, post2, kind=case)
        return res

    return unit
