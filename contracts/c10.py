"""C10 - AArch64 parser (see contracts/c09.py, shared module)."""
from .c09 import *  # noqa
from . import c09


def units(tier):
    return c09.units_for("C10")
