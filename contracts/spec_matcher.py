"""Reference matcher for C07, written from the property statement ("every operand agrees in kind - register class /
width prefix / vector shape, immediate type, label, condition, memory addressing shape including wildcards - and the
operand counts are equal; the first matching entry in file order supplies the data").

Plain Python in the pyvc subset: the SAME text is (a) executed natively by the bounded harness on real operand objects and
(b) symbolically executed by pyvc next to the real MachineModel._check_operands, the obligation being equal results.

Spec decisions where the statement leaves a choice (excluded from the claim by the preconditions of the contracts):
x86 mask registers k0-7 against 'gpr' entries; AArch64 'lanes' when a shape is present; an AArch64 operand without
arrangement against an entry that declares one; entry register classes that are not classes (mm0, ximm, have).
"""
WILD = "*"
X86_VEC = ["mm", "xmm", "ymm", "zmm"]


def x86_class(name):
    base = name.rstrip("0123456789").lower()
    if base in X86_VEC:
        return base
    if base == "k" and name[1:].isdigit():
        return "k"  # AVX-512 mask registers form their own class (whether a 'gpr' entry also accepts them is left open)
    return "gpr"


def x86_reg_agrees(entry_class, reg):
    """entry_class: class string of the entry (or None); reg: parsed RegisterOperand or None"""
    if reg is None:
        return entry_class is None
    if entry_class is None:
        return False
    if entry_class == WILD:
        return True
    return entry_class == x86_class(reg.name)


def scale_agrees(entry_scale, scale):
    if entry_scale == WILD:
        return True
    if entry_scale == scale:
        return True
    return entry_scale != 1 and scale != 1


def x86_mem_agrees(e, m, kind_of_offset):
    """e: entry MemoryOperand (fields are class strings / None / '*'); m: parsed MemoryOperand;
    kind_of_offset: None | 'imd' | 'id' (kind of the parsed displacement)"""
    base_ok = e.base == WILD or x86_reg_agrees(e.base, m.base)
    index_ok = e.index == WILD or x86_reg_agrees(e.index, m.index)
    offset_ok = e.offset == WILD or e.offset == kind_of_offset
    return base_ok and index_ok and offset_ok and scale_agrees(e.scale, m.scale)


def shape_agrees(entry_shape, shape):
    """an operand that carries an arrangement needs an entry that declares an agreeing one"""
    if shape is None:
        return True
    if entry_shape is None:
        return False
    return entry_shape == shape or entry_shape == WILD or shape == WILD


def a64_reg_agrees(e, r):
    """e: entry RegisterOperand (prefix, shape); r: parsed RegisterOperand"""
    if e.prefix != WILD and r.prefix != WILD and e.prefix != r.prefix:
        return False
    return shape_agrees(e.shape, r.shape)


def a64_mem_agrees(e, m, kind_of_offset):
    if e.base == WILD:
        base_ok = True
    elif m.base is None:
        base_ok = e.base is None
    else:
        base_ok = m.base.prefix == e.base
    if e.index == WILD:
        index_ok = True
    elif m.index is None:
        index_ok = e.index is None
    else:
        index_ok = m.index.prefix is not None and m.index.prefix == e.index
    offset_ok = e.offset == WILD or e.offset == kind_of_offset
    pre_ok = e.pre_indexed == WILD or bool(e.pre_indexed) == bool(m.pre_indexed)
    post_ok = e.post_indexed == WILD or bool(e.post_indexed) == bool(m.post_indexed)
    return base_ok and index_ok and offset_ok and scale_agrees(e.scale, m.scale) and pre_ok and post_ok


def imm_agrees_a64(entry_type, imd_type, has_value):
    if not has_value:
        return False
    if entry_type == WILD:
        return True
    return entry_type == imd_type
