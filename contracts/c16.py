"""C16 - LCD result is independent of process scheduling and worker count.

P  static partition in check_for_loopcarried_dep (real code, executed symbolically up to the point where the
   worker processes would be created): for ALL kernel lengths klen >= 50 and ALL worker counts n >= 1 the slices handed
   to the workers are pairwise disjoint, in order, inside the kernel, and cover every root instruction exactly once.
P  KernelDG._extend_path: appends, for its slice, the paths of every instruction of the slice in order (A: all_simple_paths).
L  parallel result = sequential result, assuming (A) Manager().list().extend is atomic and lossless, all workers
   terminate, and post-processing is a function of the multiset of paths (it de-duplicates through a set and sorts).
B  real processes: parallel search under patched threshold / cpu_count in {1,2,3,5,16,> klen} equals the sequential
   search, and repeated reports are identical apart from the timestamp (bounded/c16_parallel.py).
Not decided by contracts: scheduling of real processes, byte-identical reports (only sampled by B).
"""
import z3

from pyvc.engine import Engine, PathEnd
from pyvc.runner import Unit, REPO
from pyvc.sym import *  # noqa
from pyvc.bounded import bounded_unit

LEVEL = "proof"
KDG = "osaca/semantics/kernel_dg.py"
TRUSTED = ["pyvc symbolic semantics; z3 5.1.0 (nonlinear integer arithmetic for t*workload)",
           "A: multiprocessing.Manager().list().extend is atomic and lossless, workers terminate; int(a/b) on floats = floor division for klen < 2**53"]
ASSUMPTIONS = [
    "the doubling loop and create_DG in front of the partition code are abstracted (they do not influence klen, num_cores, the slices)",
    "real process scheduling is only sampled by the bounded unit",
]
I = z3.IntSort()


def partition_unit(res):
    ex = Engine([REPO + "/" + KDG])
    fn, _ = ex.find_method("KernelDG", "check_for_loopcarried_dep")
    ex.index_loops(fn)
    klen, n = z3.Ints("klen num_cores")
    lines = z3.Function("line_no", I, I)

    class SkipLoop:  # the doubling loop (C05 phase a) is not the subject here
        def sym_for(self, ex_, s, it, env, cls):
            return None

    class EndPath:  # sequential branch (klen < 50): not the subject here
        def sym_for(self, ex_, s, it, env, cls):
            raise PathEnd()

    ex.loop_hooks[("check_for_loopcarried_dep", 0)] = SkipLoop()
    ex.loop_hooks[("check_for_loopcarried_dep", 6)] = EndPath()
    ex.abstract["create_DG"] = lambda ex_, so, a, kw: Opaque("dg")
    ex.abstract["cpu_count"] = lambda ex_, so, a, kw: SNum(n, True)

    def manager(ex_, so, a, kw):
        env = ex_.cur_env
        ex_.extra.update(instrs=env["instrs"], workload=env["workload"], starts=env["starts"], ends=env["ends"])
        raise PathEnd()

    ex.abstract["Manager"] = manager
    ident = z3.Lambda([z3.Int("ii")], z3.Int("ii"))
    ins = Schema("insk", ["InstructionForm"], {"line_number": ("int",)})
    ins.fn["line_number"] = lines

    def run():
        kernel = SymSeq(klen, lambda i: SRef(i, ins))  # element i is identified with its index
        ex.call_method("KernelDG", "check_for_loopcarried_dep", SObj("KernelDG", kernel=kernel), [kernel, -1, False])

    paths = ex.explore(run, [klen >= 1, n >= 1])
    seen = 0
    for p in paths:
        if "instrs" not in p.extra:
            if p.outcome[0] == "exc":
                res.add("exception-freedom", p.pc, False)
            continue
        seen += 1
        instrs, w = p.extra["instrs"], num_term(p.extra["workload"])[0]
        t, i, g, t2 = z3.Ints("t i g t2")
        hyp = list(p.pc)
        conc = lambda m: dict(replay="c16_partition", key="partition", args=dict(klen=m.eval(klen, model_completion=True).as_long(), n=m.eval(n, model_completion=True).as_long()))
        res.add("parallel-branch-iff-klen>=50", hyp, klen >= 50)
        res.add("one-slice-per-worker", hyp, instrs.length == n)
        # lemma (nonlinear, from the real-valued division in the code): n*(w-1) <= klen-1 < n*w
        res.add("workload-bounds", hyp, z3.And(n * (w - 1) <= klen - 1, klen - 1 < n * w, w >= 1), concretize=conc, label="L")
        hyp2 = hyp + [n * (w - 1) <= klen - 1, klen - 1 < n * w, w >= 1]
        seg = instrs.at(t)
        elem = seg.at(i).t  # global index of the i-th instruction handed to worker t
        inrange = [0 <= t, t < n, 0 <= i, i < seg.length]
        res.add("slice-elements-consecutive-and-inside", hyp2 + inrange, z3.And(elem == t * w + i, elem < klen, elem >= 0))
        res.add("slice-length", hyp2 + [0 <= t, t < n], seg.length == z3.If((t + 1) * w <= klen, w, z3.If(t * w < klen, klen - t * w, 0)), concretize=conc)
        # disjoint and in order: everything of worker t comes before everything of worker t2 > t
        seg2 = instrs.at(t2)
        res.add("slices-disjoint-in-order", hyp2 + inrange + [t < t2, t2 < n, 0 <= g, g < seg2.length, t * w + i < klen, t2 * w + g < klen,
                                                              seg.at(i).t == t * w + i, seg2.at(g).t == t2 * w + g], seg.at(i).t < seg2.at(g).t)
        # coverage: every root g is in the slice of worker g div w (and that worker exists)
        tq = g / w
        rq = g % w
        segq = instrs.at(tq)
        res.add("coverage", hyp2 + [0 <= g, g < klen, segq.length == z3.If((tq + 1) * w <= klen, w, z3.If(tq * w < klen, klen - tq * w, 0))],
                z3.And(0 <= tq, tq < n, 0 <= rq, rq < segq.length, tq * w + rq == g))
    res.add("reaches-partition-code", [], seen >= 1)
    res.note(f"{len(paths)} paths, {seen} reach the worker creation")
    return res


def extend_path_unit(res):
    ex = Engine([REPO + "/" + KDG])
    fn, _ = ex.find_method("KernelDG", "_extend_path")
    ex.index_loops(fn)
    lines = z3.Function("line_no", I, I)
    ins = Schema("inse", ["InstructionForm"], {"line_number": ("int",)})
    ins.fn["line_number"] = lines
    L, off = z3.Ints("L offset")
    calls = []

    def asp(ex_, so, a, kw):
        calls.append((a[1], a[2]))
        return Opaque("paths")

    ex.abstract["nx.algorithms.simple_paths.all_simple_paths"] = asp

    class Dst:
        def __init__(self):
            self.n = 0

        def sym_havoc(self, ex_, tag):
            return self

        def sym_method(self, ex_, name, args, kw):
            if name == "extend":
                self.n += 1
                return None
            raise Unsupported(name)

    class Hook:
        def on_body_start(self, ex_, env, k):
            calls.clear()
            ex_.extra["dst"].n = 0

        def on_body_end(self, ex_, env, k):
            ok = len(calls) == 1 and ex_.extra["dst"].n == 1
            ex_.oblige("one-search-per-root", ok)
            if ok:
                a, b = calls[0]
                ex_.oblige("search-root-to-second-copy", z3.And(num_term(a)[0] == lines(k), num_term(b)[0] == lines(k) + off))

    ex.loop_hooks[("_extend_path", 0)] = Hook()
    ex.invariants[("_extend_path", 0)] = lambda ex_, env, k: z3.BoolVal(True)
    ex.abstract["list"] = lambda ex_, so, a, kw: a[0]

    def run():
        ex.extra["dst"] = Dst()
        kernel = SymSeq(L, lambda i: SRef(i, ins))
        return ex.call_method("KernelDG", "_extend_path", SObj("KernelDG"), [ex.extra["dst"], kernel, Opaque("dg"), SNum(off, True)])

    paths = ex.explore(run, [L >= 0])
    res.add_paths(paths, None)
    return res


def reduction_lemma(res):
    """L: a function of the multiset of paths is invariant under how the multiset is produced: if the parallel list is a
    permutation of the sequential one (partition proved above + A on the manager list), post-processing that only
    uses 'x in set', set.add and a final sort of distinct keys yields the same result.  Encoded for the dedup step:
    membership in the final set does not depend on the order of insertion."""
    U = z3.DeclareSort("Path")
    key = z3.Function("key", U, z3.IntSort())
    inA = z3.Function("inA", U, z3.BoolSort())  # path occurs in the sequential list
    inB = z3.Function("inB", U, z3.BoolSort())  # path occurs in the parallel list
    x, y = z3.Consts("x y", U)
    k = z3.Int("k")
    keysA = lambda kk: z3.Exists([x], z3.And(inA(x), key(x) == kk))
    keysB = lambda kk: z3.Exists([y], z3.And(inB(y), key(y) == kk))
    res.add("same-multiset-same-keyset", [z3.ForAll([x], inA(x) == inB(x))], keysA(k) == keysB(k), label="L")
    return res


def units(tier):
    return [
        Unit("C16/check_for_loopcarried_dep/partition", partition_unit, "P", [(KDG, "KernelDG.check_for_loopcarried_dep")]),
        Unit("C16/_extend_path", extend_path_unit, "P", [(KDG, "KernelDG._extend_path")]),
        Unit("C16/lemma/order-insensitive-postprocessing", reduction_lemma, "L", []),
        bounded_unit("C16/parallel-equals-sequential", "c16_parallel", [(KDG, "KernelDG.check_for_loopcarried_dep"), (KDG, "KernelDG._extend_path")], timeout=1800),
    ]
