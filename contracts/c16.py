"""C16 - LCD result is independent of process scheduling and worker count.

P  static partition in check_for_loopcarried_dep (real code, executed symbolically up to the point where the
   worker processes would be created): for ALL kernel lengths klen >= 50 and ALL worker counts n >= 1 the slices handed
   to the workers are pairwise disjoint, in order, inside the kernel, and cover every root instruction exactly once.
P  KernelDG._extend_path: appends, for its slice, the paths of every instruction of the slice in order (A: all_simple_paths).
L  parallel result = sequential result, assuming (A) Manager().list().extend is atomic and lossless, all workers
   terminate, and post-processing is a function of the multiset of paths (it de-duplicates through a set and sorts).
B  real processes: parallel search under patched threshold / cpu_count in {1,2,3,5,16,> klen} equals the sequential
   search, and repeated reports are identical apart from the timestamp (bounded/c16_parallel.py).
Not decided by contracts: scheduling of real processes, byte-identical reports (only sampled by B).
"""
import z3

from pyvc.engine import Engine, PathEnd
from pyvc.runner import Unit, REPO
from pyvc.sym import *  # noqa
from pyvc.bounded import bounded_unit

LEVEL = "proof"
KDG = "osaca/semantics/kernel_dg.py"
TRUSTED = ["pyvc symbolic semantics; z3 5.1.0 (nonlinear integer arithmetic for t*workload)",
           "A: multiprocessing.Manager().list().extend is atomic and lossless, workers terminate; int(a/b) on floats = floor division for klen < 2**53"]
ASSUMPTIONS = [
    "the doubling loop and create_DG in front of the partition code are abstracted (they do not influence klen, num_cores, the slices)",
    "real process scheduling is only sampled by the bounded unit",
]
I = z3.IntSort()


def partition_unit(res):
    ex = Engine([REPO + "/" + KDG])
    fn, _ = ex.find_method("KernelDG", "check_for_loopcarried_dep")
    ex.index_loops(fn)
    klen, n = z3.Ints("klen num_cores")
    lines = z3.Function("line_no", I, I)

    class SkipLoop:  # the doubling loop (C05 phase a) is not the subject here
        def sym_for(self, ex_, s, it, env, cls):
            return None

    class EndPath:  # sequential branch (klen < 50): not the subject here
        def sym_for(self, ex_, s, it, env, cls):
            raise PathEnd()

    ex.loop_hooks[("check_for_loopcarried_dep", 0)] = SkipLoop()
    ex.loop_hooks[("check_for_loopcarried_dep", 6)] = EndPath()
    ex.abstract["create_DG"] = lambda ex_, so, a, kw: Opaque("dg")
    ex.abstract["cpu_count"] = lambda ex_, so, a, kw: SNum(n, True)

    def manager(ex_, so, a, kw):
        env = ex_.cur_env
        ex_.extra.update(instrs=env["instrs"], workload=env["workload"], starts=env["starts"], ends=env["ends"])
        raise PathEnd()

    ex.abstract["Manager"] = manager
    ident = z3.Lambda([z3.Int("ii")], z3.Int("ii"))
    ins = Schema("insk", ["InstructionForm"], {"line_number": ("int",), "mnemonic": ("optstr",)})
    ins.fn["line_number"] = lines
    ins.fn["mnemonic"] = (z3.Function("has_mnemonic", I, z3.BoolSort()), z3.Function("mnemonic_id", I, I))  # labels, directives, comments: none

    def run():
        kernel = SymSeq(klen, lambda i: SRef(i, ins))  # element i is identified with its index
        ex.call_method("KernelDG", "check_for_loopcarried_dep", SObj("KernelDG", kernel=kernel), [kernel, -1, False])

    paths = ex.explore(run, [klen >= 1, n >= 1])
    seen = 0
    for p in paths:
        if "instrs" not in p.extra:
            if p.outcome[0] == "exc":
                res.add("exception-freedom", p.pc, False)
            continue
        seen += 1
        instrs, w = p.extra["instrs"], num_term(p.extra["workload"])[0]
        t, i, g, t2 = z3.Ints("t i g t2")
        hyp = list(p.pc)
        conc = lambda m: dict(replay="c16_partition", key="partition", args=dict(klen=m.eval(klen, model_completion=True).as_long(), n=m.eval(n, model_completion=True).as_long()))
        res.add("parallel-branch-iff-klen>=50", hyp, klen >= 50)
        res.add("one-slice-per-worker", hyp, instrs.length == n)
        # lemma (nonlinear, from the real-valued division in the code): n*(w-1) <= klen-1 < n*w
        res.add("workload-bounds", hyp, z3.And(n * (w - 1) <= klen - 1, klen - 1 < n * w, w >= 1), concretize=conc, label="L")
        hyp2 = hyp + [n * (w - 1) <= klen - 1, klen - 1 < n * w, w >= 1]
        seg = instrs.at(t)
        elem = seg.at(i).t  # global index of the i-th instruction handed to worker t
        inrange = [0 <= t, t < n, 0 <= i, i < seg.length]
        res.add("slice-elements-consecutive-and-inside", hyp2 + inrange, z3.And(elem == t * w + i, elem < klen, elem >= 0))
        res.add("slice-length", hyp2 + [0 <= t, t < n], seg.length == z3.If((t + 1) * w <= klen, w, z3.If(t * w < klen, klen - t * w, 0)), concretize=conc)
        # disjoint and in order: everything of worker t comes before everything of worker t2 > t
        seg2 = instrs.at(t2)
        res.add("slices-disjoint-in-order", hyp2 + inrange + [t < t2, t2 < n, 0 <= g, g < seg2.length, t * w + i < klen, t2 * w + g < klen,
                                                              seg.at(i).t == t * w + i, seg2.at(g).t == t2 * w + g], seg.at(i).t < seg2.at(g).t)
        # coverage: every root g is in the slice of worker g div w (and that worker exists)
        tq = g / w
        rq = g % w
        segq = instrs.at(tq)
        res.add("coverage", hyp2 + [0 <= g, g < klen, segq.length == z3.If((tq + 1) * w <= klen, w, z3.If(tq * w < klen, klen - tq * w, 0))],
                z3.And(0 <= tq, tq < n, 0 <= rq, rq < segq.length, tq * w + rq == g))
    res.add("reaches-partition-code", [], seen >= 1)
    res.note(f"{len(paths)} paths, {seen} reach the worker creation")
    return res


def extend_path_unit(res):
    ex = Engine([REPO + "/" + KDG])
    fn, _ = ex.find_method("KernelDG", "_extend_path")
    ex.index_loops(fn)
    lines = z3.Function("line_no", I, I)
    # a root is ANY line of the slice: lines without operands (x86 'cltq', 'pushfq' carry hidden operands) or without a
    # mnemonic are searched like the others (the sequential search does the same) - the fields exist so that a filter on them
    # is executed, not reported as "unsupported"
    has_ops, has_mn = z3.Function("line_has_operands", I, z3.BoolSort()), z3.Function("line_has_mnemonic", I, z3.BoolSort())

    class Operands:
        def __init__(self, t):
            self.t = t

        def sym_truthy(self, ex_):
            return ex_.branch(has_ops(self.t))

        def sym_len(self, ex_):
            n = z3.FreshInt("n_operands")
            ex_.assume(z3.And(n >= 0, (n > 0) == has_ops(self.t)))
            return SNum(n, True)

    ins = Schema("inse", ["InstructionForm"], {"line_number": ("int",), "operands": ("custom", None), "mnemonic": ("optstr",)})
    ins.fn["line_number"] = lines
    ins.fn["operands"] = lambda ex_, ref: Operands(ref.t)
    ins.fn["mnemonic"] = (has_mn, z3.Function("mnemonic_id", I, I))
    L, off = z3.Ints("L offset")
    calls = []

    def asp(ex_, so, a, kw):
        calls.append((a[1], a[2]))
        return Opaque("paths")

    ex.abstract["nx.algorithms.simple_paths.all_simple_paths"] = asp

    class Dst:
        def __init__(self):
            self.n = 0

        def sym_havoc(self, ex_, tag):
            return self

        def sym_method(self, ex_, name, args, kw):
            if name == "extend":
                self.n += 1
                return None
            raise Unsupported(name)

    class Hook:
        def on_body_start(self, ex_, env, k):
            calls.clear()
            ex_.extra["dst"].n = 0

        def on_body_end(self, ex_, env, k):
            ok = len(calls) == 1 and ex_.extra["dst"].n == 1
            ex_.oblige("one-search-per-root", ok)
            if ok:
                a, b = calls[0]
                ex_.oblige("search-root-to-second-copy", z3.And(num_term(a)[0] == lines(k), num_term(b)[0] == lines(k) + off))

    ex.loop_hooks[("_extend_path", 0)] = Hook()
    ex.invariants[("_extend_path", 0)] = lambda ex_, env, k: z3.BoolVal(True)
    ex.abstract["list"] = lambda ex_, so, a, kw: a[0]

    def run():
        ex.extra["dst"] = Dst()
        kernel = SymSeq(L, lambda i: SRef(i, ins))
        return ex.call_method("KernelDG", "_extend_path", SObj("KernelDG"), [ex.extra["dst"], kernel, Opaque("dg"), SNum(off, True)])

    paths = ex.explore(run, [L >= 0])
    res.add_paths(paths, None)
    return res


def reduction_lemma(res):
    """L: a function of the multiset of paths is invariant under how the multiset is produced: if the parallel list is a
    permutation of the sequential one (partition proved above + A on the manager list), post-processing that only
    uses 'x in set', set.add and a final sort of distinct keys yields the same result.  Encoded for the dedup step:
    membership in the final set does not depend on the order of insertion."""
    U = z3.DeclareSort("Path")
    key = z3.Function("key", U, z3.IntSort())
    inA = z3.Function("inA", U, z3.BoolSort())  # path occurs in the sequential list
    inB = z3.Function("inB", U, z3.BoolSort())  # path occurs in the parallel list
    x, y = z3.Consts("x y", U)
    k = z3.Int("k")
    keysA = lambda kk: z3.Exists([x], z3.And(inA(x), key(x) == kk))
    keysB = lambda kk: z3.Exists([y], z3.And(inB(y), key(y) == kk))
    res.add("same-multiset-same-keyset", [z3.ForAll([x], inA(x) == inB(x))], keysA(k) == keysB(k), label="L")
    return res


def units(tier):
    return [
        Unit("C16/check_for_loopcarried_dep/partition", partition_unit, "P", [(KDG, "KernelDG.check_for_loopcarried_dep")]),
        Unit("C16/_extend_path", extend_path_unit, "P", [(KDG, "KernelDG._extend_path")]),
        Unit("C16/lemma/order-insensitive-postprocessing", reduction_lemma, "L", []),
        Unit("C16/search-call-agreement(worker = sequential)", search_agreement_unit, "P", [(KDG, "KernelDG._extend_path"), (KDG, "KernelDG.check_for_loopcarried_dep")]),
        Unit("C16/check_for_loopcarried_dep/post-processing(canonical entries)", postprocess_unit, "P", [(KDG, "KernelDG.check_for_loopcarried_dep")]),
        Unit("C16/_get_node_by_lineno", node_by_lineno_unit, "P", [(KDG, "KernelDG._get_node_by_lineno")], decisive=False),
        bounded_unit("C16/parallel-equals-sequential", "c16_parallel", [(KDG, "KernelDG.check_for_loopcarried_dep"), (KDG, "KernelDG._extend_path")], timeout=1800),
    ]


def postprocess_unit(res):
    """P: the post-processing loop of check_for_loopcarried_dep (real code, every path of ANY length, ANY number of paths):
    for every found path p the loop computes the pairs  (line of node i folded back into the first copy, latency of the
    edge leaving it)  for all nodes but the last, in path order, sums the latencies, SORTS the pair list, uses exactly that
    sorted list as the de-duplication key, skips the path iff the key was seen, and otherwise records the key and appends
    (sum, sorted list).  Hence every stored entry is a function of its key alone - whichever rotation of a cycle arrives
    first - which is what makes the result independent of the order in which workers deliver (lemma below)."""
    ex = Engine([REPO + "/" + KDG])
    fn, _ = ex.find_method("KernelDG", "check_for_loopcarried_dep")
    ex.index_loops(fn)
    R_ = z3.RealSort()
    NP, klen, off = z3.Int("n_paths"), z3.Int("klen"), z3.Int("offset_")
    plen = z3.Function("path_len", I, I)
    node = z3.Function("path_node", I, I, R_)  # node ids are line numbers (x.1 = separate load stage)
    lat = z3.Function("edge_latency", R_, R_, R_)
    SUM = z3.Function("prefix_sum", I, I, R_)  # SUM(p, k) = sum of the first k edge latencies of path p (recursive definition)
    seen = z3.Function("key_seen", I, z3.BoolSort())  # key of path p already in paths_set when p is processed
    fold = lambda x, o: z3.If(x >= o, x - o, x)
    st = {}

    class SkipLoop:
        def sym_for(self, ex_, s, it, env, cls):
            return None

    class Sequential:  # the search itself: all_paths is ANY sequence of paths
        def sym_for(self, ex_, s, it, env, cls):
            env["all_paths"] = SymSeq(NP, lambda i: PathVal(i))
            return None

    class PathVal:
        def __init__(self, p):
            self.p = p

    class Pairs:  # ghost for lat_path
        havoc_when_passed = False

        def __init__(self):
            self.p, self.n, self.ok, self.sorted, self.origin = None, z3.IntVal(0), True, False, None

        def sym_havoc(self, ex_, tag):
            self.n = z3.FreshInt(tag)
            return self

        def sym_method(self, ex_, name, args, kw):
            if name == "append":
                v = args[0]
                good = isinstance(v, tuple) and len(v) == 2 and self.p is not None and not self.sorted
                if good:
                    i = self.n
                    ex_.oblige("lat_path/append-is-the-next-pair", z3.And(real_term(v[0]) == fold(node(self.p, i), real_term(st["offset"])),
                                                                        real_term(v[1]) == lat(node(self.p, i), node(self.p, i + 1))))
                else:
                    ex_.oblige("lat_path/append-is-the-next-pair", False)
                self.n = self.n + 1
                return None
            if name == "sort" and not args and not kw:
                self.sorted = True
                return None
            raise Unsupported("lat_path." + name)

        def sym_tuple(self, ex_):
            return Key(self, self.p, self.n, self.sorted)

        def sym_sorted(self, ex_, key, reverse):
            if key is not None or reverse:
                raise Unsupported("sorted(lat_path, key/reverse)")
            c = Pairs()
            c.p, c.n, c.sorted, c.origin = self.p, self.n, True, self
            return c

    class Key:
        def __init__(self, src, p, n, sorted_):
            self.src, self.p, self.n, self.sorted = src, p, n, sorted_

    def key_ok(ex_, k, what):
        good = isinstance(k, Key) and k.sorted and (k.src is st["lat_path"] or k.src.origin is st["lat_path"])
        ex_.oblige(what + "/key-is-the-sorted-pair-list-of-this-path", z3.And(k.n == plen(k.p) - 1, k.p == st["p"]) if good else False)

    class KeySet:  # ghost for paths_set
        def sym_havoc(self, ex_, tag):
            return self

        def sym_contains(self, ex_, item):
            key_ok(ex_, item, "dedup-test")
            st["tested"] = st.get("tested", 0) + 1
            return SBool(seen(st["p"]))

        def sym_method(self, ex_, name, args, kw):
            if name == "add":
                key_ok(ex_, args[0], "dedup-add")
                st["added"] = st.get("added", 0) + 1
                return None
            raise Unsupported("paths_set." + name)

    class Deps:  # ghost for loopcarried_deps
        def sym_havoc(self, ex_, tag):
            return self

        def sym_method(self, ex_, name, args, kw):
            if name == "append":
                v = args[0]
                good = isinstance(v, tuple) and len(v) == 2 and isinstance(v[1], Pairs) and (v[1] is st["lat_path"] or v[1].origin is st["lat_path"]) and v[1].sorted
                ex_.oblige("entry/is-(sum, sorted pair list)-of-this-path",
                           z3.And(real_term(v[0]) == SUM(st["p"], plen(st["p"]) - 1), v[1].n == plen(st["p"]) - 1) if good else False)
                st["appended"] = st.get("appended", 0) + 1
                return None
            if name == "sort":
                st["final_sort"] = (args, kw)
                return None
            raise Unsupported("loopcarried_deps." + name)

    class Edges:
        def sym_getitem(self, ex_, k):
            a, b = k
            return {"latency": SNum(lat(real_term(a), real_term(b)), False)}

    class DG:
        def sym_getattr(self, ex_, attr):
            if attr == "edges":
                return Edges()
            raise Unsupported("dg." + attr)

    class Outer:
        def pre_havoc(self, ex_, env):
            env["paths_set"], env["loopcarried_deps"] = KeySet(), Deps()
            st["offset"] = env["offset"]

        def on_body_start(self, ex_, env, k):
            st.update(p=k, tested=0, added=0, appended=0)
            ex_.assume(plen(k) >= 2)  # a simple path from a node to a different node (all_simple_paths, source != target)

        def on_body_end(self, ex_, env, k):
            t, a, ap = st["tested"], st["added"], st["appended"]
            # skipped iff seen; otherwise key recorded and exactly one entry appended
            ex_.oblige("dedup/skip-iff-key-seen", z3.And(z3.BoolVal(t == 1), z3.If(seen(k), z3.BoolVal(a == 0 and ap == 0), z3.BoolVal(a == 1 and ap == 1))))

    class Inner:
        def pre_havoc(self, ex_, env):
            lp = Pairs()
            lp.p = st["p"]
            env["lat_path"] = st["lat_path"] = lp
            # the loop variables survive the loop (the code reads d afterwards): last pair
            p = st["p"]
            env["s"], env["d"] = SNum(node(p, plen(p) - 2), False), SNum(node(p, plen(p) - 1), False)

        def on_body_start(self, ex_, env, k):
            p = st["p"]
            ex_.assume(SUM(p, k + 1) == SUM(p, k) + lat(node(p, k), node(p, k + 1)))  # instance of the recursive definition

    def inner_inv(ex_, env, k):
        lp = env.get("lat_path")
        if isinstance(lp, list) and lp == []:  # (entry: the code's fresh empty list, replaced by its ghost afterwards)
            return z3.And(k == 0, real_term(env["lat_sum"]) == SUM(st["p"], 0))
        if not isinstance(lp, Pairs) or lp.sorted:
            return z3.BoolVal(False)
        return z3.And(lp.n == k, real_term(env["lat_sum"]) == SUM(st["p"], k))

    ex.loop_hooks[("check_for_loopcarried_dep", 0)] = SkipLoop()
    ex.loop_hooks[("check_for_loopcarried_dep", 6)] = Sequential()
    ex.loop_hooks[("check_for_loopcarried_dep", 7)] = Outer()
    ex.loop_hooks[("check_for_loopcarried_dep", 8)] = Inner()
    ex.invariants[("check_for_loopcarried_dep", 7)] = lambda ex_, env, k: z3.BoolVal(True)
    ex.invariants[("check_for_loopcarried_dep", 8)] = inner_inv
    ex.abstract["create_DG"] = lambda ex_, so, a, kw: DG()
    ex.abstract["nx.utils.pairwise"] = lambda ex_, so, a, kw: SymSeq(plen(a[0].p) - 1, lambda i: (SNum(node(a[0].p, i), False), SNum(node(a[0].p, i + 1), False)))
    ins = Schema("insp", ["InstructionForm"], {"line_number": ("int",)})

    # ---- phase d: the result dictionary.  The sorted entry list is ANY sequence of (sum, pair list) entries; for entry e the
    # code must store, under the key "-".join(str(line) for every pair), root = node of the first line, dependencies = (node of
    # the line, latency) for every pair in order, latency = the entry's sum.
    NE = z3.Int("n_entries")
    esum = z3.Function("entry_sum", I, R_)
    elen = z3.Function("entry_len", I, I)
    eline = z3.Function("entry_line", I, I, R_)
    elat = z3.Function("entry_lat", I, I, R_)
    nodeof = z3.Function("node_by_lineno", R_, I)  # contract of _get_node_by_lineno (own unit)
    nsch = Schema("lcdnode", ["InstructionForm"], {})

    class ResultDict:
        def __init__(self):
            self.sets = 0

        def sym_havoc(self, ex_, tag):
            return self

        def sym_setitem(self, ex_, key, val):
            e = st["e"]
            j = z3.FreshInt("j")
            okk = isinstance(key, OpaqueStr) and getattr(key, "sep", None) == "-" and isinstance(getattr(key, "seq", None), SymSeq)
            if okk:
                part = key.seq.at(j)
                okk = isinstance(part, OpaqueStr) and len(getattr(part, "args", [])) == 1
            ex_.oblige("result/key-joins-the-lines-of-all-members", z3.And(key.seq.length == elen(e), z3.Implies(z3.And(0 <= j, j < elen(e)), real_term(part.args[0]) == eline(e, j))) if okk else False)
            okv = isinstance(val, dict) and set(val) == {"root", "dependencies", "latency"} and isinstance(val["root"], SRef) and isinstance(val["dependencies"], SymSeq)
            if okv:
                d = val["dependencies"].at(j)
                okv = isinstance(d, tuple) and len(d) == 2 and isinstance(d[0], SRef)
            ex_.oblige("result/root-members-latency", z3.And(val["root"].t == nodeof(eline(e, 0)), real_term(val["latency"]) == esum(e), val["dependencies"].length == elen(e),
                                                            z3.Implies(z3.And(0 <= j, j < elen(e)), z3.And(d[0].t == nodeof(eline(e, j)), real_term(d[1]) == elat(e, j)))) if okv else False)
            self.sets += 1

    class PhaseD:
        def sym_for(self, ex_, s, it, env, cls):
            ex_.extra["final_sort"] = st.get("final_sort")
            ex_.loop_hooks[("check_for_loopcarried_dep", 9)] = PhaseDBody()
            try:
                entries = SymSeq(NE, lambda e: (SNum(esum(e), False), SymSeq(elen(e), lambda i: (SNum(eline(e, i), False), SNum(elat(e, i), False)))))
                return ex_.sym_for(s, entries, False, 0, env, cls)
            finally:
                ex_.loop_hooks[("check_for_loopcarried_dep", 9)] = self

    class PhaseDBody:
        def pre_havoc(self, ex_, env):
            env["loopcarried_deps_dict"] = st["result"] = ResultDict()

        def on_body_start(self, ex_, env, k):
            st["e"] = k
            st["result"].sets = 0
            ex_.assume(elen(k) >= 1)  # a cycle has at least one member (post-processing: path length >= 2)

        def on_body_end(self, ex_, env, k):
            ex_.oblige("result/one-record-per-entry", st["result"].sets == 1)

    ex.abstract["_get_node_by_lineno"] = lambda ex_, so, a, kw: SRef(nodeof(real_term(a[0])), nsch)
    ex.loop_hooks[("check_for_loopcarried_dep", 9)] = PhaseD()
    ex.invariants[("check_for_loopcarried_dep", 9)] = lambda ex_, env, k: z3.BoolVal(True)

    def run():
        st.clear()
        kernel = SymSeq(klen, lambda i: SRef(i, ins))
        return ex.call_method("KernelDG", "check_for_loopcarried_dep", SObj("KernelDG", kernel=kernel, INSTRUCTION_THRESHOLD=50), [kernel, -1, False])

    q = z3.Int("q")
    paths = ex.explore(run, [klen >= 1, klen < 50, NP >= 0, z3.ForAll([q], SUM(q, 0) == 0)])
    n = res.add_paths(paths, None, kind="post")
    ends = [p for p in paths if "final_sort" in p.extra]
    res.add("reaches-final-sort", [], len(ends) >= 1)
    rets = [p for p in paths if p.outcome[0] == "ret" and type(p.outcome[1]).__name__ == "ResultDict"]
    res.add("returns-the-result-dictionary", [], len(rets) >= 1)
    for p in ends[:1]:
        fs = p.extra["final_sort"]
        # entries are sorted as whole tuples (a total order on distinct entries): the final list is a function of the entry SET
        res.add("final-sort-is-a-total-order-on-entries", p.pc, fs is not None and not fs[0] and set(fs[1]) <= {"reverse"} and "key" not in fs[1])
    # L: entries are functions of their keys and one entry is kept per key => the set of entries is the image of the key set
    U = z3.DeclareSort("PathU")
    key = z3.Function("keyU", U, I)
    entry = z3.Function("entryU", U, I)
    E = z3.Function("E", I, I)
    inA, inB = z3.Function("inA_", U, z3.BoolSort()), z3.Function("inB_", U, z3.BoolSort())
    x, y = z3.Consts("x y", U)
    e = z3.Int("e")
    hyp = [z3.ForAll([x], entry(x) == E(key(x))), z3.ForAll([x], inA(x) == inB(x))]
    res.add("lemma/entry-set-independent-of-delivery-order", hyp, z3.Exists([x], z3.And(inA(x), entry(x) == e)) == z3.Exists([y], z3.And(inB(y), entry(y) == e)), label="L")
    return res


def search_agreement_unit(res):
    """P: the search a worker performs for a root (KernelDG._extend_path, real code) is the SAME call as the one the
    single-process branch performs for that root: all_simple_paths(dg, line, line + offset, <further arguments>) where
    the further arguments (e.g. a cutoff) are equal terms in both and do not depend on the slice handed to the worker."""
    ex = Engine([REPO + "/" + KDG])
    f1, _ = ex.find_method("KernelDG", "check_for_loopcarried_dep")
    ex.index_loops(f1)
    f2, _ = ex.find_method("KernelDG", "_extend_path")
    ex.index_loops(f2)
    lines = z3.Function("line_no", I, I)
    ins = Schema("inss", ["InstructionForm"], {"line_number": ("int",)})
    ins.fn["line_number"] = lines
    klen, L, off = z3.Ints("klen slice_len offset_")
    calls = []
    dgobj = Opaque("dg")

    def asp(ex_, so, a, kw):
        calls.append((list(a), dict(kw)))
        return Opaque("paths")

    ex.abstract["nx.algorithms.simple_paths.all_simple_paths"] = asp
    ex.abstract["create_DG"] = lambda ex_, so, a, kw: dgobj
    ex.abstract["list"] = lambda ex_, so, a, kw: a[0]

    class Sink:
        def sym_havoc(self, ex_, tag):
            return self

        def sym_method(self, ex_, name, args, kw):
            if name == "extend":
                return None
            raise Unsupported(name)

    sig = {}

    def hook(which):
        class H:
            def pre_havoc(self, ex_, env):
                if which == "sequential":
                    env["all_paths"] = Sink()

            def on_body_start(self, ex_, env, k):
                calls.clear()

            def on_body_end(self, ex_, env, k):
                ok = len(calls) == 1 and len(calls[0][0]) >= 3 and calls[0][0][0] is dgobj
                ex_.oblige(which + "/one-search-per-root-on-the-doubled-graph", ok)
                if ok:
                    a, kw = calls[0]
                    off_t = num_term(ex_.extra["offset"])[0]
                    ex_.oblige(which + "/search-root-to-its-second-copy", z3.And(num_term(a[1])[0] == lines(k), num_term(a[2])[0] == lines(k) + off_t))
                    ex_.extra.setdefault("sigs", []).append((which, k, a[3:], kw, list(ex_.pc)))
        return H()

    class SkipLoop:
        def sym_for(self, ex_, s, it, env, cls):
            ex_.extra["offset"] = env["offset"]
            return None

    class End:
        def sym_for(self, ex_, s, it, env, cls):
            raise PathEnd()

    ex.loop_hooks[("check_for_loopcarried_dep", 0)] = SkipLoop()
    ex.loop_hooks[("check_for_loopcarried_dep", 6)] = hook("sequential")
    ex.loop_hooks[("check_for_loopcarried_dep", 7)] = End()
    ex.invariants[("check_for_loopcarried_dep", 6)] = lambda ex_, env, k: z3.BoolVal(True)
    ex.loop_hooks[("_extend_path", 0)] = hook("worker")
    ex.invariants[("_extend_path", 0)] = lambda ex_, env, k: z3.BoolVal(True)
    full = SymSeq(klen, lambda i: SRef(i, ins))
    selfo = lambda: SObj("KernelDG", kernel=full, INSTRUCTION_THRESHOLD=50)

    def run_seq():
        ex.call_method("KernelDG", "check_for_loopcarried_dep", selfo(), [full, -1, False])

    def run_worker():
        ex.extra["offset"] = SNum(off, True)
        sl = SymSeq(L, lambda i: SRef(i, ins))
        ex.call_method("KernelDG", "_extend_path", selfo(), [Sink(), sl, dgobj, SNum(off, True)])

    p_seq = ex.explore(run_seq, [klen >= 1, klen < 50])
    p_wrk = ex.explore(run_worker, [klen >= 50, L >= 0, L <= klen])
    res.add_paths(p_seq, None, kind="sequential")
    res.add_paths(p_wrk, None, kind="worker")
    sseq = [s for p in p_seq for s in p.extra.get("sigs", [])]
    swrk = [s for p in p_wrk for s in p.extra.get("sigs", [])]
    res.add("both-searches-reached", [], len(sseq) >= 1 and len(swrk) >= 1)
    for (_, k1, x1, kw1, pc1) in sseq:
        for (_, k2, x2, kw2, pc2) in swrk:
            same_shape = len(x1) == len(x2) and sorted(kw1) == sorted(kw2)
            res.add("same-further-arguments(shape)", [], same_shape).update(detail=None if same_shape else f"sequential: {len(x1)} extra positional, keywords {sorted(kw1)}; worker: {len(x2)}, {sorted(kw2)}")
            if not same_shape:
                continue
            for v1, v2, nm in [(a, b, f"arg{3 + i}") for i, (a, b) in enumerate(zip(x1, x2))] + [(kw1[n], kw2[n], n) for n in sorted(kw1)]:
                # equal for every kernel length (>= threshold on the worker side, the sequential term read with the same klen),
                # every slice and every root: the worker's value may not depend on its slice or differ from the sequential one
                try:
                    t1, t2 = num_term(v1)[0], num_term(v2)[0]
                    hyp = [h for h in pc2 if not ex.has_quant(h)]
                    res.add(f"same-further-arguments({nm})", hyp, t1 == t2)
                except Exception:
                    res.add(f"same-further-arguments({nm})", [], v1 is v2 or v1 == v2)
    return res


def node_by_lineno_unit(res):
    """P: KernelDG._get_node_by_lineno (real code, kernels of ANY length): returns the first kernel line with that number (the
    line itself, by identity); with all=True the list of all such lines in order; IndexError iff there is none."""
    ex = Engine([REPO + "/" + KDG])
    N, want = z3.Int("klen"), z3.Int("lineno")
    lines = z3.Function("line_no", I, I)
    ins = Schema("insn", ["InstructionForm"], {"line_number": ("int",)})
    ins.fn["line_number"] = lines
    j, q = z3.Ints("j q")
    for explicit in (False, True):
        for allflag in (False, True):
            def run():
                kernel = SymSeq(N, lambda i: SRef(i, ins))
                selfo = SObj("KernelDG", kernel=kernel)
                a = [SNum(want, True)] + ([kernel] if explicit else []) + ([None, True] if allflag and not explicit else [True] if allflag else [])
                return ex.call_method("KernelDG", "_get_node_by_lineno", selfo, a)

            paths = ex.explore(run, [N >= 0])
            exists = z3.Exists([q], z3.And(0 <= q, q < N, lines(q) == want))

            def post(v, p):
                if allflag:
                    if not (isinstance(v, SymSeq) and getattr(v, "filter_of", None)):
                        return False
                    _, idx, L, pred = v.filter_of
                    return z3.And(z3.ForAll([j], z3.Implies(z3.And(0 <= j, j < N), pred(j) == (lines(j) == want))),
                                  z3.ForAll([j], z3.Implies(z3.And(0 <= j, j < L), v.at(j).t == idx(j))))
                if not isinstance(v, SRef):
                    return False
                return z3.And(0 <= v.t, v.t < N, lines(v.t) == want, z3.ForAll([j], z3.Implies(z3.And(0 <= j, j < v.t), lines(j) != want)))

            res.add_paths(paths, post, exc_ok=lambda p: p.outcome[1] == "IndexError" and not allflag, kind=f"explicit-kernel={int(explicit)}/all={int(allflag)}")
            for p in paths:
                if p.outcome[0] == "exc":
                    res.add(f"IndexError-only-when-no-such-line[{int(explicit)}{int(allflag)}]", p.pc, z3.Not(exists))
    return res
