"""Shared symbolic heap model and reference predicates for the dependency-graph contracts (C03, C05, C06, C11)."""
import z3

from pyvc.sym import *  # noqa

I, R, B = z3.IntSort(), z3.RealSort(), z3.BoolSort()
OPCLASSES = ["RegisterOperand", "FlagOperand", "MemoryOperand", "ImmediateOperand", "IdentifierOperand",
             "ConditionOperand", "PrefetchOperand", "LabelOperand", "DirectiveOperand"]


class PostIdx:
    """value of `post_indexed`: False | True | {"value": n}; dict form is always truthy"""

    def __init__(self, truthy, isdict, value):
        self.truthy, self.isdict, self.value = truthy, isdict, value

    def sym_truthy(self, ex):
        return ex.branch(self.truthy)

    def sym_isinstance(self, ex, names):
        return SBool(self.isdict) if "dict" in names else False

    def sym_getitem(self, ex, k):
        if k == "value":
            if not ex.branch(self.isdict):
                raise PyRaise("TypeError", "post_indexed not subscriptable")
            return SNum(self.value, True)
        raise PyRaise("KeyError", str(k))

    def sym_contains(self, ex, item):
        if not ex.branch(self.isdict):
            raise PyRaise("TypeError", "argument of type bool is not iterable")
        return item == "value"


def make_schemas():
    ops = Schema("op", OPCLASSES,
                 {"base": ("optref", None), "index": ("optref", None), "pre_indexed": ("bool",),
                  "post_indexed": ("custom", None), "name": ("str",)},
                 owners={"base": {"MemoryOperand"}, "index": {"MemoryOperand"},
                         "pre_indexed": {"MemoryOperand", "RegisterOperand"}, "post_indexed": {"MemoryOperand", "RegisterOperand"}},
                 bases={c: "Operand" for c in OPCLASSES})
    post_t = z3.Function("op_post_truthy", I, B)
    post_d = z3.Function("op_post_isdict", I, B)
    post_v = z3.Function("op_post_value", I, I)
    ops.fields["post_indexed"] = ("custom", None)
    ops.fn["post_indexed"] = lambda ex, ref: PostIdx(post_t(ref.t), post_d(ref.t), post_v(ref.t))
    ops.post_t, ops.post_d, ops.post_v = post_t, post_d, post_v
    ops.hasbase, ops.basef = ops.fn["base"]
    ops.hasindex, ops.indexf = ops.fn["index"]
    ops.pre = ops.fn["pre_indexed"]
    return ops


class Heap:
    """instructions: refs with three operand sequences (or semantic_operands None)"""

    def __init__(self):
        self.ops = make_schemas()
        o = self.ops
        self.has_sem = z3.Function("ins_has_sem", I, B)
        self.seq = {}
        for role in ("source", "destination", "src_dst"):
            self.seq[role] = (z3.Function(f"ins_{role}_arr", I, z3.ArraySort(I, I)), z3.Function(f"ins_{role}_len", I, I))
        self.line = z3.Function("ins_line", I, I)
        self.dep = z3.Function("dep", I, I, B)  # parser.is_reg_dependend_of (contract of C12: architectural overlap)
        self.fdep = z3.Function("fdep", I, I, B)  # parser.is_flag_dependend_of
        ins_fields = {"semantic_operands": ("custom", None), "line_number": ("int",)}
        self.ins = Schema("ins", ["InstructionForm"], ins_fields)
        self.ins.fn["semantic_operands"] = self._sem
        self.ins.fn["line_number"] = self.line
        c = o.classes
        self.isreg = lambda x: o.cls(x) == c["RegisterOperand"]
        self.isflag = lambda x: o.cls(x) == c["FlagOperand"]
        self.ismem = lambda x: o.cls(x) == c["MemoryOperand"]

    def _sem(self, ex, ref):
        if not ex.branch(self.has_sem(ref.t)):
            return None
        return {role: SymSeq.of_refs(arr(ref.t), ln(ref.t), self.ops) for role, (arr, ln) in self.seq.items()}

    def elem(self, ins_t, role, j):
        arr, ln = self.seq[role]
        return z3.Select(arr(ins_t), j)

    def length(self, ins_t, role):
        return self.seq[role][1](ins_t)

    # ---- type invariants of parsed/assigned instructions (is_valid)
    def wf(self):
        o = self.ops
        x, n = z3.Ints("x n")
        return [
            z3.ForAll([x], z3.And(o.cls(x) >= 0, o.cls(x) < len(OPCLASSES))),
            # an indexed memory operand has a base; base/index of a memory operand are registers
            z3.ForAll([x], z3.Implies(z3.And(self.ismem(x), z3.Or(o.pre(x), o.post_t(x))), o.hasbase(x))),
            z3.ForAll([x], z3.Implies(z3.And(self.ismem(x), o.hasbase(x)), self.isreg(o.basef(x)))),
            z3.ForAll([x], z3.Implies(z3.And(self.ismem(x), o.hasindex(x)), self.isreg(o.indexf(x)))),
            z3.ForAll([x], z3.Implies(o.post_d(x), o.post_t(x))),
            z3.ForAll([x], z3.And([ln(x) >= 0 for _, ln in self.seq.values()])),
        ]

    # ---- reference predicates (from the property statement)
    def chain_elem(self, ins_t, roles, i):
        a, b = roles
        return z3.If(i < self.length(ins_t, a), self.elem(ins_t, a, i), self.elem(ins_t, b, i - self.length(ins_t, a)))

    def exists_in(self, ins_t, roles, pred, upto=None):
        """some operand of roles[0] ++ roles[1] (the first `upto` of them) satisfies pred"""
        j = z3.FreshInt("j")
        n = self.length(ins_t, roles[0]) + self.length(ins_t, roles[1]) if upto is None else upto
        return z3.Exists([j], z3.And(0 <= j, j < n, pred(self.chain_elem(ins_t, roles, j))))

    def addr_reads(self, r, x):
        o = self.ops
        return z3.And(self.ismem(x), z3.Or(z3.And(o.hasbase(x), self.dep(r, o.basef(x))), z3.And(o.hasindex(x), self.dep(r, o.indexf(x)))))

    def reads(self, r, ins_t):
        """instruction reads register/flag r: a source or read-modify-write operand overlaps it, or it is an address
        register of any memory operand (whatever the operand's role)"""
        val = lambda x: z3.Or(z3.And(self.isreg(x), self.dep(r, x)), z3.And(self.isflag(x), self.fdep(r, x)), self.addr_reads(r, x))
        return z3.And(self.has_sem(ins_t), z3.Or(self.exists_in(ins_t, ("source", "src_dst"), val),
                                                 self.exists_in(ins_t, ("destination", "src_dst"), lambda x: self.addr_reads(r, x))))

    def wb(self, r, x):
        o = self.ops
        return z3.And(self.ismem(x), z3.Or(o.pre(x), o.post_t(x)), self.dep(r, o.basef(x)))

    def writes(self, r, ins_t):
        """instruction writes r: a destination or read-modify-write operand overlaps it, or r is the base of a
        pre/post-indexed (write-back) memory operand in any role"""
        val = lambda x: z3.Or(z3.And(self.isreg(x), self.dep(r, x)), z3.And(self.isflag(x), self.fdep(r, x)), self.wb(r, x))
        return z3.And(self.has_sem(ins_t), z3.Or(self.exists_in(ins_t, ("destination", "src_dst"), val),
                                                 self.exists_in(ins_t, ("source", "src_dst"), lambda x: self.wb(r, x))))

    def install_parser(self, ex):
        def rel(f):
            def g(ex_, so, a, kw):
                if a[0] is None or a[1] is None:
                    raise PyRaise("AttributeError", "NoneType has no attribute name")  # what both parsers do
                return SBool(f(a[0].t, a[1].t))
            return g

        ex.abstract["is_reg_dependend_of"] = rel(self.dep)
        ex.abstract["is_flag_dependend_of"] = rel(self.fdep)
