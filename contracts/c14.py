"""C14 - loop-carried dependencies are invariant under rotation of the loop body.

Relational over two calls, so not a single-call contract.  U: by C03 the edge relation depends only on the instructions
between producer and consumer in the periodic stream and C05 characterises the result as the winding-1 cycles of that
stream, which rotation does not change (DESIGN C14).  Decided by:
B  run-time relational contract on the real pipeline: for every rotation r the LCD set keyed by instruction text and
   latency equals the unrotated one (bounded/dg_oracle.py C14: vocabulary kernels of both ISAs, all rotation offsets).
"""
from pyvc.runner import Unit
from pyvc.bounded import bounded_unit

LEVEL = "exploration"
KDG = "osaca/semantics/kernel_dg.py"
TRUSTED = ["bounded harness bounded/dg_oracle.py"]
ASSUMPTIONS = ["metamorphic (two-call) property: no function contract decides it; bounded stand-in only", "kernels below the 50-line threshold (sequential search); the parallel search is C16's subject"]
RULE = "kernels of length 2-7 over the per-ISA vocabulary (register, flag, memory, write-back forms), every rotation offset, models zen2/a64fx (thorough: more)"


def units(tier):
    from .c16 import partition_unit
    from pyvc.runner import Unit as U_
    from .c03 import find_depending_unit
    from .c16 import postprocess_unit
    return [U_("C14/find_depending(dependence of a pair is a function of the instructions from producer to consumer)", find_depending_unit, "P", [(KDG, "KernelDG.find_depending")], decisive=False),
            U_("C14/check_for_loopcarried_dep/post-processing(entries keyed by their sorted member list)", postprocess_unit, "P", [(KDG, "KernelDG.check_for_loopcarried_dep")], decisive=False),
            U_("C14/check_for_loopcarried_dep/partition(kernels >= 50 lines)", partition_unit, "P", [(KDG, "KernelDG.check_for_loopcarried_dep")], decisive=False),
            bounded_unit("C14/parallel-search-equals-sequential", "c16_parallel", [(KDG, "KernelDG.check_for_loopcarried_dep")], timeout=1800),
            bounded_unit("C14/rotation-invariance", "dg_oracle", [(KDG, "KernelDG.check_for_loopcarried_dep"), (KDG, "KernelDG.create_DG")],
                         extra_args=["C14"], timeout=1800, decisive=True)]
