"""C14 - loop-carried dependencies are invariant under rotation of the loop body.

Relational over two calls, so not a single-call contract.  U: by C03 the edge relation depends only on the instructions
between producer and consumer in the periodic stream and C05 characterises the result as the winding-1 cycles of that
stream, which rotation does not change (DESIGN C14).  Decided by:
B  run-time relational contract on the real pipeline: for every rotation r the LCD set keyed by instruction text and
   latency equals the unrotated one (bounded/dg_oracle.py C14: vocabulary kernels of both ISAs, all rotation offsets).
"""
from pyvc.runner import Unit
from pyvc.bounded import bounded_unit

LEVEL = "exploration"
KDG = "osaca/semantics/kernel_dg.py"
TRUSTED = ["bounded harness bounded/dg_oracle.py"]
ASSUMPTIONS = ["metamorphic (two-call) property: no function contract decides it; bounded stand-in only", "kernels below the 50-line threshold (sequential search); the parallel search is C16's subject"]
RULE = "kernels of length 2-7 over the per-ISA vocabulary (register, flag, memory, write-back forms), every rotation offset, models zen2/a64fx (thorough: more)"


def rotation_lemma_unit(res):
    """L (the mechanised part of the rotation argument): over an abstract dependency relation R of the periodic instruction stream
    (period n: R(i+n, j+n) = R(i, j)) with periodic edge weights w and periodic instruction identities id, the stream of the body
    rotated by r is R_r(i, j) = R(i+r, j+r), w_r, id_r likewise.  (1) R_r, w_r, id_r are periodic again; (2) a chain p_0 .. p_m is a
    cross-iteration cycle of R_r from a to a+n iff the shifted chain p_k + r is one of R from a+r to a+r+n (both directions, by
    induction over the position); (3) the two chains visit the same instructions (id_r(p_k) = id(p_k + r)) and (4) their latency
    prefix sums agree at every position - so the set of (member instructions, latency) of the loop-carried dependencies is the same.
    What stays argued (U): the relation the code computes on two concatenated iterations IS such an R (C03 + window lemma of C05)."""
    import z3
    I_, B_, R_ = z3.IntSort(), z3.BoolSort(), z3.RealSort()
    R = z3.Function("R", I_, I_, B_)
    w = z3.Function("w", I_, I_, R_)
    ident = z3.Function("id", I_, I_)
    pth = z3.Function("p", I_, I_)
    S_r = z3.Function("prefix_sum_rotated", I_, R_)
    S_o = z3.Function("prefix_sum_original", I_, R_)
    n, r, a, m, k, i, j = z3.Ints("n r a m k i j")
    per = [n >= 1, z3.ForAll([i, j], R(i + n, j + n) == R(i, j)), z3.ForAll([i, j], w(i + n, j + n) == w(i, j)), z3.ForAll([i], ident(i + n) == ident(i))]
    Rr = lambda x, y: R(x + r, y + r)
    wr = lambda x, y: w(x + r, y + r)
    idr = lambda x: ident(x + r)
    res.add("rotation/rotated-relation-is-periodic", per, z3.And(Rr(i + n, j + n) == Rr(i, j), wr(i + n, j + n) == wr(i, j), idr(i + n) == idr(i)), label="L")
    # chain property at one position (the induction over k is pointwise: every link of one chain is a link of the other)
    res.add("rotation/chain-link-shifts", per + [0 <= k, k < m], Rr(pth(k), pth(k + 1)) == R(pth(k) + r, pth(k + 1) + r), label="L")
    res.add("rotation/end-points-shift", per + [pth(0) == a, pth(m) == a + n], z3.And(pth(0) + r == a + r, pth(m) + r == (a + r) + n), label="L")
    res.add("rotation/same-instructions", per + [0 <= k, k <= m], idr(pth(k)) == ident(pth(k) + r), label="L")
    # latency: prefix sums defined by S(0) = 0, S(k+1) = S(k) + weight of link k agree by induction
    defs = [S_r(0) == 0, S_o(0) == 0, z3.ForAll([k], z3.Implies(z3.And(0 <= k, k < m), S_r(k + 1) == S_r(k) + wr(pth(k), pth(k + 1)))),
            z3.ForAll([k], z3.Implies(z3.And(0 <= k, k < m), S_o(k + 1) == S_o(k) + w(pth(k) + r, pth(k + 1) + r)))]
    res.add("rotation/latency/base", per + defs, S_r(0) == S_o(0), label="L")
    res.add("rotation/latency/step", per + defs + [0 <= k, k < m, S_r(k) == S_o(k)], S_r(k + 1) == S_o(k + 1), label="L")
    # the start instruction of the rotated cycle is an instruction of the body: a in [0, n) maps to (a + r) mod n, same identity
    res.add("rotation/root-folds-into-the-body", per + [0 <= a, a < n, 0 <= r, r < n], z3.And(idr(a) == ident(z3.If(a + r >= n, a + r - n, a + r)), 0 <= z3.If(a + r >= n, a + r - n, a + r), z3.If(a + r >= n, a + r - n, a + r) < n), label="L")
    return res


def units(tier):
    from .c16 import partition_unit
    from pyvc.runner import Unit as U_
    from .c03 import find_depending_unit, create_dg_unit
    from .c16 import postprocess_unit
    return [U_("C14/find_depending(dependence of a pair is a function of the instructions from producer to consumer)", find_depending_unit, "P", [(KDG, "KernelDG.find_depending")], decisive=False),
            U_("C14/create_DG(edge weights are a function of producer, consumer and the kind of dependency - not of line numbers)", create_dg_unit, "P", [(KDG, "KernelDG.create_DG")], decisive=False),
            U_("C14/check_for_loopcarried_dep/post-processing(entries keyed by their sorted member list)", postprocess_unit, "P", [(KDG, "KernelDG.check_for_loopcarried_dep")], decisive=False),
            U_("C14/check_for_loopcarried_dep/partition(kernels >= 50 lines)", partition_unit, "P", [(KDG, "KernelDG.check_for_loopcarried_dep")], decisive=False),
            U_("C14/lemma/rotation-shifts-cycles(members, latency)", rotation_lemma_unit, "L", [], decisive=False),
            bounded_unit("C14/parallel-search-equals-sequential", "c16_parallel", [(KDG, "KernelDG.check_for_loopcarried_dep")], timeout=1800),
            bounded_unit("C14/rotation-invariance", "dg_oracle", [(KDG, "KernelDG.check_for_loopcarried_dep"), (KDG, "KernelDG.create_DG")],
                         extra_args=["C14"], timeout=1800, decisive=True)]
